/-
  Directory trees, a pure file system, the Merkle encoding of directory outputs and the
  write / restore functions of the file and directory output handlers.

  Mirrors  internal/output/handlers/dir_output_handler.go   (writeDirectoryRecursive, Write, Load,
                                                              loadDirectoryRecursive, downloadFile)
           internal/output/handlers/file_output_handler.go  (Write, Load)
           internal/output/registry.go                      (validateTargetResultOutputs)
           internal/caching/cas.go                          (Write skips when the digest exists)

  Parameters (nothing is proved about them, see the hypotheses of the theorems in Props/C06.lean):
    H    : Bytes → Digest            the configured hash (xxh3-128 / sha256)
    serD : Directory → Bytes         deterministic protobuf marshalling of a Directory message
    serT : TreeMsg → Bytes           deterministic protobuf marshalling of a Tree message
    deT  : Bytes → Option TreeMsg    proto.Unmarshal of a Tree message
  Core Lean only.
-/
import GrogModel.Base
namespace Grog

abbrev Name := Bytes
abbrev Path := List Name
abbrev Digest := Bytes

/-- A file-system object. Directories are association lists (first binding of a name wins);
    `x` is "some executable bit is set" (`mode & 0111 != 0`). -/
inductive Entry where
  | file (b : Bytes) (x : Bool)
  | dir (es : List (Name × Entry))
  | link (t : Bytes)
  deriving Repr, Inhabited

/-- What `lstat` + read shows of one object (the unit of the recursive listing). -/
inductive TNode where
  | file (b : Bytes) (x : Bool)
  | dir
  | link (t : Bytes)
  deriving DecidableEq, Repr

inductive Err where
  | notDir        -- ENOTDIR: a path component is not a directory
  | isDir         -- EISDIR: a directory where a file is expected
  | notExist      -- ENOENT
  | exists_       -- EEXIST
  | missingBlob   -- the CAS has no entry for a digest
  | badTree       -- the tree blob does not unmarshal
  | noChild       -- "child directory not found in children map"
  | fuel          -- recursion bound of the model exhausted (the Go code has none)
  | mismatch      -- declared outputs differ from the stored ones
  | unsupported   -- outside the modelled behaviour (symlink at a file output path)
  deriving DecidableEq, Repr

namespace Entry

def node : Entry → TNode
  | .file b x => .file b x
  | .dir _ => .dir
  | .link t => .link t

def isDir : Entry → Bool
  | .dir _ => true
  | _ => false

end Entry

/-- lookup of a name in a directory's entry list (first binding wins) -/
def lookupE : List (Name × Entry) → Name → Option Entry
  | [], _ => none
  | (m, e) :: rest, n => if m = n then some e else lookupE rest n

/-- bind `n` to `e`: replace the first binding in place, or append -/
def setE : List (Name × Entry) → Name → Entry → List (Name × Entry)
  | [], n, e => [(n, e)]
  | (m, c) :: rest, n, e => if m = n then (m, e) :: rest else (m, c) :: setE rest n e

/-- remove every binding of `n` -/
def eraseE : List (Name × Entry) → Name → List (Name × Entry)
  | [], _ => []
  | (m, c) :: rest, n => if m = n then eraseE rest n else (m, c) :: eraseE rest n

namespace Entry

/-- the object at a relative path (no symlink resolution: a link is a leaf) -/
def get : Entry → Path → Option Entry
  | e, [] => some e
  | .dir es, n :: p =>
    match lookupE es n with
    | some c => get c p
    | none => none
  | _, _ :: _ => none

def nodeAt (e : Entry) (p : Path) : Option TNode := (e.get p).map node

/-- two objects have the same recursive listing (names, kinds, contents, executable bits,
    link targets, empty directories, nothing extra) -/
def Same (a b : Entry) : Prop := ∀ p, a.nodeAt p = b.nodeAt p

end Entry

/-! ### File-system primitives (total functions on a pure value) -/

/-- `os.RemoveAll(p)`: nothing to do when a component is missing; fails when a proper
    prefix of `p` names a non-directory. -/
def removeAll : Entry → Path → Except Err Entry
  | _, [] => .error .unsupported
  | .dir es, [n] => .ok (.dir (eraseE es n))
  | .dir es, n :: p =>
    match lookupE es n with
    | none => .ok (.dir es)
    | some c =>
      match removeAll c p with
      | .ok c' => .ok (.dir (setE es n c'))
      | .error e => .error e
  | _, _ :: _ => .error .notDir

/-- `os.MkdirAll(p)`: creates the missing components; fails when a component exists and is
    not a directory. -/
def mkdirAll : Entry → Path → Except Err Entry
  | .dir es, [] => .ok (.dir es)
  | _, [] => .error .notDir
  | .dir es, n :: p =>
    match mkdirAll ((lookupE es n).getD (.dir [])) p with
    | .ok c' => .ok (.dir (setE es n c'))
    | .error e => .error e
  | _, _ :: _ => .error .notDir

/-- replace (or create) the object at `p`; every proper prefix of `p` must be an existing directory -/
def setAt : Entry → Path → Entry → Except Err Entry
  | _, [], _ => .error .unsupported
  | .dir es, [n], e => .ok (.dir (setE es n e))
  | .dir es, n :: p, e =>
    match lookupE es n with
    | none => .error .notExist
    | some c =>
      match setAt c p e with
      | .ok c' => .ok (.dir (setE es n c'))
      | .error err => .error err
  | _, _ :: _, _ => .error .notDir

/-! ### Messages of directory.proto / target_result.proto -/

structure FileNode where
  name : Name
  digest : Digest
  size : Nat
  exec : Bool
  deriving DecidableEq, Repr

structure DirNode where
  name : Name
  digest : Digest
  size : Nat
  deriving DecidableEq, Repr

structure LinkNode where
  name : Name
  target : Bytes
  deriving DecidableEq, Repr

structure Directory where
  files : List FileNode
  dirs : List DirNode
  links : List LinkNode
  deriving DecidableEq, Repr

structure TreeMsg where
  root : Directory
  children : List Directory
  deriving DecidableEq, Repr

/-- `FileOutput` / `DirectoryOutput` of a target result -/
inductive OutMsg where
  | file (path : Bytes) (digest : Digest) (size : Nat) (exec : Bool)
  | dir (path : Bytes) (treeDigest : Digest) (size : Nat)
  deriving DecidableEq, Repr

/-! ### The CAS as seen by the handlers -/

abbrev Cas := List (Digest × Bytes)

def Cas.get (c : Cas) (d : Digest) : Option Bytes := c.lookup d

/-- `Cas.Write`: nothing is written when the digest is already present -/
def Cas.write (c : Cas) (d : Digest) (b : Bytes) : Cas :=
  match c.lookup d with
  | some _ => c
  | none => c ++ [(d, b)]

/-! ### Writing a directory output (writeDirectoryRecursive + Write) -/

structure EncOut where
  dir : Directory
  /-- file uploads `(digest, content)` in traversal order -/
  ups : List (Digest × Bytes)
  /-- `(digest, message)` of every sub-directory in the order the code offers them to `childrenMap` -/
  kids : List (Digest × Directory)
  deriving Repr

section Enc
variable (H : Bytes → Digest) (serD : Directory → Bytes)

/-- `writeDirectoryRecursive` over the (name-sorted) entries of one directory. -/
def encList : List (Name × Entry) → EncOut
  | [] => ⟨⟨[], [], []⟩, [], []⟩
  | (n, .file b x) :: rest =>
    let r := encList rest
    ⟨{ r.dir with files := ⟨n, H b, b.length, x⟩ :: r.dir.files }, (H b, b) :: r.ups, r.kids⟩
  | (n, .link t) :: rest =>
    let r := encList rest
    ⟨{ r.dir with links := ⟨n, t⟩ :: r.dir.links }, r.ups, r.kids⟩
  | (n, .dir es) :: rest =>
    let s := encList es
    let r := encList rest
    let dg := H (serD s.dir)
    ⟨{ r.dir with dirs := ⟨n, dg, (serD s.dir).length⟩ :: r.dir.dirs },
      s.ups ++ r.ups, s.kids ++ (dg, s.dir) :: r.kids⟩

/-- insert into a digest-sorted association list, keeping an existing binding
    (`if _, exists := childrenMap[d]; !exists { childrenMap[d] = subDir }` followed by
    `getSortedChildren`) -/
def insertKid (k : Digest × Directory) : List (Digest × Directory) → List (Digest × Directory)
  | [] => [k]
  | (d, c) :: rest =>
    if d = k.1 then (d, c) :: rest
    else if bytesLt k.1 d then k :: (d, c) :: rest
    else (d, c) :: insertKid k rest

def sortKids : List (Digest × Directory) → List (Digest × Directory)
  | [] => []
  | k :: rest => insertKid k (sortKids rest)

/-- the first binding wins in `childrenMap`; `sortKids` folds from the right, so feed it the reversed list -/
def children (kids : List (Digest × Directory)) : List Directory :=
  (sortKids kids.reverse).map (·.2)

end Enc

section Write
variable (H : Bytes → Digest) (serD : Directory → Bytes) (serT : TreeMsg → Bytes)

def treeMsg (es : List (Name × Entry)) : TreeMsg :=
  let r := encList H serD es
  ⟨r.dir, children r.kids⟩

/-- `getDirectoryHash`: digest of the marshalled tree of the directory at `p` -/
def hashDirAt (fs : Entry) (p : Path) : Option Digest :=
  match fs.get p with
  | some (.dir es) => some (H (serT (treeMsg H serD es)))
  | _ => none

def writeBlobs (c : Cas) : List (Digest × Bytes) → Cas
  | [] => c
  | (d, b) :: rest => writeBlobs (c.write d b) rest

/-- `DirectoryOutputHandler.Write` for the output `id` located at `p`: uploads the files, then the tree. -/
def writeDir (fs : Entry) (p : Path) (id : Bytes) (cas : Cas) : Except Err (OutMsg × Cas) :=
  match fs.get p with
  | some (.dir es) =>
    let r := encList H serD es
    let t := serT (treeMsg H serD es)
    let total := (r.ups.map (·.2.length)).sum
    .ok (.dir id (H t) total, (writeBlobs cas r.ups).write (H t) t)
  | some _ => .error .notDir
  | none => .error .notExist

end Write

/-! ### Restoring a directory output (Load, loadDirectoryRecursive, downloadFile) -/

section Restore
variable (H : Bytes → Digest) (serD : Directory → Bytes) (serT : TreeMsg → Bytes)
  (deT : Bytes → Option TreeMsg)

/-- `childrenMap[digest(child)] = child` for every child of the tree: the last binding wins -/
def childMap (cs : List Directory) : List (Digest × Directory) :=
  (cs.map (fun c => (H (serD c), c))).reverse

def addFiles (cas : Cas) : List FileNode → List (Name × Entry) → Except Err (List (Name × Entry))
  | [], acc => .ok acc
  | f :: fs, acc =>
    match cas.get f.digest with
    | none => .error .missingBlob
    | some b => addFiles cas fs (setE acc f.name (.file b f.exec))

def addDirs (cmap : List (Digest × Directory)) (build : Directory → Except Err Entry) :
    List DirNode → List (Name × Entry) → Except Err (List (Name × Entry))
  | [], acc => .ok acc
  | d :: ds, acc =>
    match cmap.lookup d.digest with
    | none => .error .noChild
    | some c =>
      match build c with
      | .error e => .error e
      | .ok sub => addDirs cmap build ds (setE acc d.name sub)

def addLinks : List LinkNode → List (Name × Entry) → List (Name × Entry)
  | [], acc => acc
  | l :: ls, acc => addLinks ls (setE acc l.name (.link l.target))

/-- `loadDirectoryRecursive` into a fresh directory: files, then sub-directories, then symlinks.
    The Go recursion is unbounded; `fuel` bounds the nesting depth the model follows. -/
def buildDir (cas : Cas) (cmap : List (Digest × Directory)) : Nat → Directory → Except Err Entry
  | 0, _ => .error .fuel
  | fuel + 1, d =>
    match addFiles cas d.files [] with
    | .error e => .error e
    | .ok a1 =>
      match addDirs cmap (buildDir cas cmap fuel) d.dirs a1 with
      | .error e => .error e
      | .ok a2 => .ok (.dir (addLinks d.links a2))

/-- `DirectoryOutputHandler.Load` of the stored output with tree digest `td` into path `p`. -/
def restoreDir (fuel : Nat) (td : Digest) (cas : Cas) (fs : Entry) (p : Path) : Except Err Entry :=
  if hashDirAt H serD serT fs p = some td then .ok fs       -- local-hash shortcut
  else
    match cas.get td with
    | none => .error .missingBlob
    | some tb =>
      match deT tb with
      | none => .error .badTree
      | some t =>
        match removeAll fs p with
        | .error e => .error e
        | .ok fs1 =>
          match mkdirAll fs1 p with
          | .error e => .error e
          | .ok fs2 =>
            match buildDir cas (childMap H serD t.children) fuel t.root with
            | .error e => .error e
            | .ok built => setAt fs2 p built

end Restore

/-! ### File outputs -/

/-- `old`: the handler as found (is_executable neither written nor read, no parent creation);
    `fixed`: after the repairs F-mkdir, F-execbit and F-symlink-dst (a symlink or directory at a file output path is replaced). -/
inductive Variant where
  | old | fixed
  deriving DecidableEq, Repr

section File
variable (H : Bytes → Digest)

def writeFile (v : Variant) (fs : Entry) (p : Path) (id : Bytes) (cas : Cas) : Except Err (OutMsg × Cas) :=
  match fs.get p with
  | some (.file b x) => .ok (.file id (H b) b.length (v = .fixed && x), cas.write (H b) b)
  | some (.dir _) => .error .isDir
  | some (.link _) => .error .unsupported
  | none => .error .notExist

def parentOf (p : Path) : Path := p.dropLast

/-- `os.Create(p)` + copy (+ for `fixed`: chmod): an existing regular file keeps its mode unless `x` is given -/
def createFile (fs : Entry) (p : Path) (b : Bytes) (x : Option Bool) : Except Err Entry :=
  match fs.get p with
  | some (.file _ x0) => setAt fs p (.file b (x.getD x0))
  | some (.dir _) => .error .isDir
  | some (.link _) => .error .unsupported
  | none => setAt fs p (.file b (x.getD false))

/-- the load path of `FileOutputHandler.Load`: fetch the blob, (fixed: create the parents,) create/truncate, copy -/
def restoreFileLoad (v : Variant) (digest : Digest) (exec : Bool) (cas : Cas) (fs : Entry) (p : Path) : Except Err Entry :=
  match cas.get digest with
  | none => .error .missingBlob
  | some c =>
    match v with
    | .old => createFile fs p c none
    | .fixed =>
      -- a symlink or a directory at the output path is removed first (Lstat: not a regular file => os.RemoveAll)
      let cleared : Except Err Entry :=
        match fs.get p with
        | some (.dir _) => removeAll fs p
        | some (.link _) => removeAll fs p
        | _ => .ok fs
      match cleared with
      | .error e => .error e
      | .ok fs0 =>
        match mkdirAll fs0 (parentOf p) with
        | .error e => .error e
        | .ok fs1 => createFile fs1 p c (some exec)

/-- `FileOutputHandler.Load`: nothing is fetched when the local file already hashes to the stored digest
    (fixed: its executable bit is still brought in line with the stored flag). -/
def restoreFile (v : Variant) (digest : Digest) (exec : Bool) (cas : Cas) (fs : Entry) (p : Path) : Except Err Entry :=
  match fs.get p with
  | some (.file b x) =>
    if H b = digest then
      if v = .fixed && x != exec then setAt fs p (.file b exec) else .ok fs
    else restoreFileLoad v digest exec cas fs p
  | _ => restoreFileLoad v digest exec cas fs p

end File

/-! ### validateTargetResultOutputs -/

def insertSorted (x : Bytes) : List Bytes → List Bytes
  | [] => [x]
  | y :: ys => if bytesLt y x then y :: insertSorted x ys else x :: y :: ys

def sortBytesT : List Bytes → List Bytes
  | [] => []
  | x :: xs => insertSorted x (sortBytesT xs)

/-- declared output definitions vs. definitions of the stored outputs: equal length and equal after sorting -/
def validateOutputs (declared stored : List Bytes) : Bool :=
  declared.length == stored.length && sortBytesT declared == sortBytesT stored

/-! ### Well-formedness of a tree read from a real directory -/

def namesOf (es : List (Name × Entry)) : List Name := es.map (·.1)

mutual
def Entry.depth : Entry → Nat
  | .dir es => depthList es + 1
  | _ => 0
def depthList : List (Name × Entry) → Nat
  | [] => 0
  | (_, e) :: rest => max e.depth (depthList rest)
end

mutual
/-- names within every directory are pairwise distinct -/
def Entry.WF : Entry → Prop
  | .dir es => (namesOf es).Nodup ∧ WFList es
  | _ => True
def WFList : List (Name × Entry) → Prop
  | [] => True
  | (_, e) :: rest => e.WF ∧ WFList rest
end

end Grog
