/-
  Model of the error-channel protocol of `DirectoryOutputHandler.Load`
  (internal/output/handlers/dir_output_handler.go): one producer goroutine per file of the
  directory tree; a producer whose download fails sends one error into `errChan`; the consumer
  (the goroutine that called `Load`) first waits for all producers (`waitGroup.Wait()`), then
  closes and drains the channel and returns the first error, if any.

  Producers are symmetric, so the state counts them:
    okTodo / failTodo   producers that have not finished yet (succeeding / failing download)
    buf                 number of errors in the channel buffer
  `Cfg.drop = false` is the code before the repair of F-errchan (blocking send into a channel of
  capacity `cap` = number of child directories); `drop = true` is the repaired code
  (capacity 1, non-blocking send: the first error is kept).
  Core Lean only.
-/
namespace Grog.ErrChan

structure Cfg where
  nOk   : Nat
  nFail : Nat
  cap   : Nat
  drop  : Bool

inductive Cons where
  | waiting | draining | returned (err : Bool)
  deriving DecidableEq, Repr

structure State where
  okTodo   : Nat
  failTodo : Nat
  buf      : Nat
  cons     : Cons
  deriving DecidableEq, Repr

def init (c : Cfg) : State := { okTodo := c.nOk, failTodo := c.nFail, buf := 0, cons := .waiting }

inductive Ev where
  | okDone      -- a producer whose download succeeded returns
  | failSend    -- a producer whose download failed sends its error and returns
  | waitDone    -- waitGroup.Wait() returns; the consumer closes the channel and starts draining
  | recv        -- the consumer receives an error and returns it
  | finish      -- the channel is empty: Load returns nil
  deriving DecidableEq, Repr

def step (c : Cfg) (s : State) : Ev → Option State
  | .okDone => if 0 < s.okTodo then some { s with okTodo := s.okTodo - 1 } else none
  | .failSend =>
    if 0 < s.failTodo then
      if s.buf < c.cap then some { s with failTodo := s.failTodo - 1, buf := s.buf + 1 }
      else if c.drop then some { s with failTodo := s.failTodo - 1 }   -- `default:` branch
      else none                                                       -- blocked in `errChan <- err`
    else none
  | .waitDone =>
    if s.cons = .waiting ∧ s.okTodo = 0 ∧ s.failTodo = 0 then some { s with cons := .draining } else none
  | .recv =>
    if s.cons = .draining ∧ 0 < s.buf then some { s with cons := .returned true, buf := s.buf - 1 } else none
  | .finish =>
    if s.cons = .draining ∧ s.buf = 0 then some { s with cons := .returned false } else none

inductive Reach (c : Cfg) : State → Prop where
  | init : Reach c (init c)
  | step {s e s'} : Reach c s → step c s e = some s' → Reach c s'

def allEvents : List Ev := [.okDone, .failSend, .waitDone, .recv, .finish]

def stuck (c : Cfg) (s : State) : Bool := allEvents.all (fun e => (step c s e).isNone)

def run (c : Cfg) (s : State) : List Ev → Option State
  | [] => some s
  | e :: es => match step c s e with
    | none => none
    | some s' => run c s' es

def measure (s : State) : Nat :=
  s.okTodo + s.failTodo + (match s.cons with | .waiting => 2 | .draining => 1 | .returned _ => 0)

/-- the canonical schedule: all producers first, then the consumer; `none` = deadlock.
    Used by the driver to predict the outcome of a restore with the given fault pattern. -/
def outcome (c : Cfg) : Option Bool :=
  let evs := List.replicate c.nOk Ev.okDone ++ List.replicate c.nFail Ev.failSend ++ [Ev.waitDone]
  match run c (init c) evs with
  | none => none
  | some s => if 0 < s.buf then some true else some false

end Grog.ErrChan
