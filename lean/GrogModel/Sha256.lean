/-
  SHA-256 over byte lists, executable, core Lean only. Used only by the model driver so that the
  model's cache key can be compared byte-for-byte with grog's key under hash_algorithm=sha256.
  Nothing is proved about it; it is validated against crypto/sha256 by the C09 correspondence check.
-/
namespace Grog.Sha256

def K : Array UInt32 := #[
  0x428a2f98, 0x71374491, 0xb5c0fbcf, 0xe9b5dba5, 0x3956c25b, 0x59f111f1, 0x923f82a4, 0xab1c5ed5,
  0xd807aa98, 0x12835b01, 0x243185be, 0x550c7dc3, 0x72be5d74, 0x80deb1fe, 0x9bdc06a7, 0xc19bf174,
  0xe49b69c1, 0xefbe4786, 0x0fc19dc6, 0x240ca1cc, 0x2de92c6f, 0x4a7484aa, 0x5cb0a9dc, 0x76f988da,
  0x983e5152, 0xa831c66d, 0xb00327c8, 0xbf597fc7, 0xc6e00bf3, 0xd5a79147, 0x06ca6351, 0x14292967,
  0x27b70a85, 0x2e1b2138, 0x4d2c6dfc, 0x53380d13, 0x650a7354, 0x766a0abb, 0x81c2c92e, 0x92722c85,
  0xa2bfe8a1, 0xa81a664b, 0xc24b8b70, 0xc76c51a3, 0xd192e819, 0xd6990624, 0xf40e3585, 0x106aa070,
  0x19a4c116, 0x1e376c08, 0x2748774c, 0x34b0bcb5, 0x391c0cb3, 0x4ed8aa4a, 0x5b9cca4f, 0x682e6ff3,
  0x748f82ee, 0x78a5636f, 0x84c87814, 0x8cc70208, 0x90befffa, 0xa4506ceb, 0xbef9a3f7, 0xc67178f2]

def H0 : Array UInt32 := #[
  0x6a09e667, 0xbb67ae85, 0x3c6ef372, 0xa54ff53a, 0x510e527f, 0x9b05688c, 0x1f83d9ab, 0x5be0cd19]

@[inline] def rotr (x : UInt32) (n : UInt32) : UInt32 := (x >>> n) ||| (x <<< (32 - n))

def pad (msg : List UInt8) : Array UInt8 := Id.run do
  let len := msg.length
  let mut a : Array UInt8 := msg.toArray
  a := a.push 0x80
  while a.size % 64 != 56 do
    a := a.push 0
  let bits := len * 8
  for i in [0:8] do
    a := a.push (UInt8.ofNat ((bits >>> (8 * (7 - i))) % 256))
  return a

def compress (h : Array UInt32) (blk : Array UInt8) (off : Nat) : Array UInt32 := Id.run do
  let mut w : Array UInt32 := Array.mkEmpty 64
  for i in [0:16] do
    let b0 := (blk[off + 4*i]!).toUInt32
    let b1 := (blk[off + 4*i + 1]!).toUInt32
    let b2 := (blk[off + 4*i + 2]!).toUInt32
    let b3 := (blk[off + 4*i + 3]!).toUInt32
    w := w.push ((b0 <<< 24) ||| (b1 <<< 16) ||| (b2 <<< 8) ||| b3)
  for i in [16:64] do
    let w15 := w[i-15]!
    let w2 := w[i-2]!
    let s0 := rotr w15 7 ^^^ rotr w15 18 ^^^ (w15 >>> 3)
    let s1 := rotr w2 17 ^^^ rotr w2 19 ^^^ (w2 >>> 10)
    w := w.push (w[i-16]! + s0 + w[i-7]! + s1)
  let mut a := h[0]!
  let mut b := h[1]!
  let mut c := h[2]!
  let mut d := h[3]!
  let mut e := h[4]!
  let mut f := h[5]!
  let mut g := h[6]!
  let mut hh := h[7]!
  for i in [0:64] do
    let S1 := rotr e 6 ^^^ rotr e 11 ^^^ rotr e 25
    let ch := (e &&& f) ^^^ ((~~~ e) &&& g)
    let t1 := hh + S1 + ch + K[i]! + w[i]!
    let S0 := rotr a 2 ^^^ rotr a 13 ^^^ rotr a 22
    let maj := (a &&& b) ^^^ (a &&& c) ^^^ (b &&& c)
    let t2 := S0 + maj
    hh := g; g := f; f := e; e := d + t1; d := c; c := b; b := a; a := t1 + t2
  return #[h[0]! + a, h[1]! + b, h[2]! + c, h[3]! + d, h[4]! + e, h[5]! + f, h[6]! + g, h[7]! + hh]

def hexDigit (n : Nat) : UInt8 := if n < 10 then UInt8.ofNat (48 + n) else UInt8.ofNat (87 + n)

/-- lower-case hex of the SHA-256 digest, as `fmt.Sprintf("%016x", sum)` prints it -/
def sha256Hex (msg : List UInt8) : List UInt8 := Id.run do
  let p := pad msg
  let mut h := H0
  for i in [0:p.size / 64] do
    h := compress h p (64 * i)
  let mut out : Array UInt8 := Array.mkEmpty 64
  for x in h do
    for j in [0:8] do
      out := out.push (hexDigit ((x >>> (UInt32.ofNat (4 * (7 - j)))).toNat % 16))
  return out.toList

end Grog.Sha256
