/-
  Op-level model of the file-system cache backend (internal/caching/backends/fs.go).

  `Set(path, key, content)` is the sequence
      MkdirAll(dir); tmp := CreateTemp(dir, "tmp-*"); io.Copy(tmp, content); tmp.Close(); Rename(tmp, dir/key)
  with `defer os.Remove(tmp)` (removes the temp file when a step after CreateTemp fails; a no-op after a
  successful rename).  Any number of Sets (same or different keys, same or different processes) run
  interleaved; each may fail at any step (the step returns an error, the deferred Remove runs) or its
  process may be killed between any two steps (nothing runs any more, the temp file stays).

  Modelling assumption (trusted base): CreateTemp returns a name that was never used before
  (os.CreateTemp draws random names and creates with O_EXCL; re-use of a name after its removal is ignored).
  File names: `key ns k` are the visible entries `<ns>/<k>`; `tmp i` are `tmp-<i>` files. Digest / change-hash
  keys are hexadecimal strings, so a visible name never has the form `tmp-*`.
-/
import GrogModel.Base
namespace Grog.FsBackend
open Grog

abbrev Pid := Nat

inductive FName where
  | key (ns : Bytes) (k : Bytes)
  | tmp (i : Nat)
  deriving DecidableEq, Repr

/-- one running `Set` call -/
structure SetProc where
  ns : Bytes
  key : Bytes
  content : Bytes
  tmp : Option Nat       -- temp file created
  written : Nat          -- bytes copied so far
  closed : Bool
  deriving Repr

structure State where
  files : FName → Option Bytes
  used : Nat → Bool                      -- temp names ever handed out
  procs : Pid → Option SetProc
  /-- ghost: every (ns, key, content) for which a Set was ever begun -/
  hist : List (Bytes × Bytes × Bytes)

inductive Ev where
  | begin (p : Pid) (ns key content : Bytes)
  | createTemp (p : Pid) (i : Nat)
  | write (p : Pid) (n : Nat)
  | close (p : Pid)
  | rename (p : Pid)
  | fail (p : Pid)        -- the current step returns an error: deferred Remove(tmp), Set returns the error
  | crash (p : Pid)       -- the process is killed: no cleanup
  | delete (ns key : Bytes)  -- Delete(path, key) of a visible entry (taint clear, `grog clean`)
  deriving Repr

def setFile (f : FName → Option Bytes) (n : FName) (v : Option Bytes) : FName → Option Bytes :=
  fun m => if m = n then v else f m

def setProc (f : Pid → Option SetProc) (p : Pid) (v : Option SetProc) : Pid → Option SetProc :=
  fun q => if q = p then v else f q

def step (s : State) : Ev → Option State
  | .begin p ns key content =>
    match s.procs p with
    | some _ => none
    | none => some { s with procs := setProc s.procs p (some ⟨ns, key, content, none, 0, false⟩),
                            hist := (ns, key, content) :: s.hist }
  | .createTemp p i =>
    match s.procs p with
    | some pr =>
      if pr.tmp.isNone && !s.used i then
        some { s with files := setFile s.files (.tmp i) (some []),
                      used := fun j => j == i || s.used j,
                      procs := setProc s.procs p (some { pr with tmp := some i }) }
      else none
    | none => none
  | .write p n =>
    match s.procs p with
    | some pr =>
      match pr.tmp with
      | some i =>
        if !pr.closed && 0 < n && pr.written + n ≤ pr.content.length then
          some { s with files := setFile s.files (.tmp i) (some (pr.content.take (pr.written + n))),
                        procs := setProc s.procs p (some { pr with written := pr.written + n }) }
        else none
      | none => none
    | none => none
  | .close p =>
    match s.procs p with
    | some pr =>
      -- io.Copy returns without error only at EOF of the content
      if pr.tmp.isSome && !pr.closed && pr.written == pr.content.length then
        some { s with procs := setProc s.procs p (some { pr with closed := true }) }
      else none
    | none => none
  | .rename p =>
    match s.procs p with
    | some pr =>
      match pr.tmp with
      | some i =>
        if pr.closed then
          some { s with files := setFile (setFile s.files (.key pr.ns pr.key) (s.files (.tmp i))) (.tmp i) none,
                        procs := setProc s.procs p none }
        else none
      | none => none
    | none => none
  | .fail p =>
    match s.procs p with
    | some pr =>
      match pr.tmp with
      | some i => some { s with files := setFile s.files (.tmp i) none, procs := setProc s.procs p none }
      | none => some { s with procs := setProc s.procs p none }
    | none => none
  | .crash p =>
    match s.procs p with
    | some _ => some { s with procs := setProc s.procs p none }
    | none => none
  | .delete ns key => some { s with files := setFile s.files (.key ns key) none }

def run (s : State) : List Ev → Option State
  | [] => some s
  | e :: es => match step s e with
    | some s' => run s' es
    | none => none

def init : State := ⟨fun _ => none, fun _ => false, fun _ => none, []⟩

/-- the invariant: temp files belong to exactly one running Set and hold a prefix of its content;
    every visible entry holds the complete content of some Set that was begun for that key. -/
structure Inv (s : State) : Prop where
  tmpUsed : ∀ p pr i, s.procs p = some pr → pr.tmp = some i → s.used i = true
  tmpUniq : ∀ p q pr qr i, s.procs p = some pr → s.procs q = some qr → pr.tmp = some i → qr.tmp = some i → p = q
  tmpContent : ∀ p pr i, s.procs p = some pr → pr.tmp = some i → s.files (.tmp i) = some (pr.content.take pr.written)
  closedFull : ∀ p pr, s.procs p = some pr → pr.closed = true → pr.written = pr.content.length
  fresh : ∀ p pr, s.procs p = some pr → pr.tmp = none → pr.written = 0
  inHist : ∀ p pr, s.procs p = some pr → (pr.ns, pr.key, pr.content) ∈ s.hist
  visible : ∀ ns k c, s.files (.key ns k) = some c → (ns, k, c) ∈ s.hist

end Grog.FsBackend
