/-
  Model of internal/selection/{selector,target_matchers,build_selection,query_selection}.go.

  A build graph is a node table (targets and aliases with the attributes the selector looks at) and
  the edge list of internal/dag (GrogModel/Graph.lean). An alias is a node whose only dependency edge
  comes from its `actual`; the traversals do not distinguish it from a target ("edges through aliases
  are edges"), only the filters do.
  Core Lean only.
-/
import GrogModel.Label
import GrogModel.Graph
namespace Grog

structure Node where
  label : Label
  /-- `false`: `*model.Alias` -/
  isTarget : Bool
  tags : List Bytes
  platforms : List Bytes
  /-- `target.HasBinOutput()` -/
  hasBin : Bool
deriving DecidableEq, Repr

structure BuildGraph where
  nodes : List Node
  edges : List Edge
deriving Repr

inductive TypeSel where
  | testOnly | nonTestOnly | binOutput | all
deriving DecidableEq, Repr

structure Selector where
  patterns : List Pattern
  tags : List Bytes
  excludeTags : List Bytes
  typ : TypeSel
deriving Repr

/-- `config.Global.GetPlatform()` and `config.Global.AllPlatforms` -/
structure Host where
  platform : Bytes
  allPlatforms : Bool
deriving Repr

def testSuffix : Bytes := [116, 101, 115, 116]   -- "test"

/-- `TargetLabel.IsTest`: `strings.HasSuffix(name, "test")` -/
def Label.isTest (l : Label) : Bool := testSuffix.reverse.isPrefixOf l.name.reverse

/-- `TargetMatchesTypeSelection` -/
def typeOK (t : TypeSel) (n : Node) : Bool :=
  match t with
  | .testOnly => n.label.isTest
  | .nonTestOnly => !n.label.isTest
  | .binOutput => n.hasBin
  | .all => true

/-- `nodeMatchesPatterns` / `targetMatchesPatterns`: some pattern matches, or there are none -/
def patternsOK (ps : List Pattern) (l : Label) : Bool :=
  ps.any (·.matches l) || ps.isEmpty

/-- `targetTagsMatch` -/
def tagsOK (want : List Bytes) (have_ : List Bytes) : Bool :=
  want.any (have_.contains ·) || want.isEmpty

/-- `targetExcludeTagsMatch` -/
def excluded (ex : List Bytes) (have_ : List Bytes) : Bool :=
  ex.any (have_.contains ·)

/-- `Selector.nodeMatchesFilters` -/
def matchesFilters (s : Selector) (n : Node) : Bool :=
  if !n.isTarget then patternsOK s.patterns n.label
  else typeOK s.typ n && patternsOK s.patterns n.label && tagsOK s.tags n.tags && !excluded s.excludeTags n.tags

/-- `nodeMatchesPlatform` -/
def platformOK (h : Host) (n : Node) : Bool :=
  !n.isTarget || h.allPlatforms || n.platforms.isEmpty || n.platforms.contains h.platform

def BuildGraph.node? (g : BuildGraph) (i : Nat) : Option Node := g.nodes[i]?

/-- filter / platform test by node index (indices outside the table fail both): `nodeMatchesFilters`,
    `nodeMatchesPlatform` — what the ancestor walk and the query filters (`Selector.Match`) apply to a node -/
def BuildGraph.matchesAt (g : BuildGraph) (s : Selector) (i : Nat) : Bool :=
  match g.nodes[i]? with | some n => matchesFilters s n | none => false
def BuildGraph.platAt (g : BuildGraph) (h : Host) (i : Nat) : Bool :=
  match g.nodes[i]? with | some n => platformOK h n | none => false

/-- `resolveAliasedTarget`: follow a chain of aliases (the only dependency of an alias is the node it points
    to) to the target it ends in; `none` if it does not end in a target. The Go loop stops at a repeated
    label; a chain without repetition has at most `|nodes|` links, which is the fuel. -/
def BuildGraph.resolveFrom (g : BuildGraph) : Nat → Nat → Option Node
  | 0, _ => none
  | fuel + 1, i =>
    match g.nodes[i]? with
    | none => none
    | some n =>
      if n.isTarget then some n
      else match preds g.edges i with
        | [] => none
        | d :: _ => g.resolveFrom fuel d

def BuildGraph.resolve (g : BuildGraph) (i : Nat) : Option Node := g.resolveFrom (g.nodes.length + 1) i

/-- `Selector.nodeIsSelectedBy` (the starting points of a selection): a target by `nodeMatchesFilters`; an
    alias by its own label against the patterns and the target it points to against the type / tag /
    exclude-tag filters (before the `fix:` commit for alias-bypasses-filters: by the patterns alone). -/
def BuildGraph.selMatchesAt (g : BuildGraph) (s : Selector) (i : Nat) : Bool :=
  match g.nodes[i]? with
  | none => false
  | some n =>
    if n.isTarget then matchesFilters s n
    else patternsOK s.patterns n.label &&
      (match g.resolve i with
       | some t => typeOK s.typ t && tagsOK s.tags t.tags && !excluded s.excludeTags t.tags
       | none => true)

/-- `nodeIsSelectablePlatform`: an alias matches the platform if the target it points to does -/
def BuildGraph.selPlatAt (g : BuildGraph) (h : Host) (i : Nat) : Bool :=
  match g.nodes[i]? with
  | none => false
  | some n =>
    if n.isTarget then platformOK h n
    else match g.resolve i with
      | some t => platformOK h t
      | none => true

/-- the selection of the tree before the fix: aliases by pattern alone (regression witness) -/
def BuildGraph.selMatchesAtOld (g : BuildGraph) (s : Selector) (i : Nat) : Bool := g.matchesAt s i

/-- outcome of `SelectTargetsForBuild` -/
inductive SelRes where
  /-- nodes with `IsSelected` set, number of loop iterations + calls spent -/
  | ok (selected : List Nat) (cost : Nat)
  /-- "could not select node … because it depends on …, which does not match the platform"; the steps spent
      until the error -/
  | platformError (culprit : Nat) (cost : Nat)
  | fuel
deriving DecidableEq, Repr

/-- the loop over the matching, platform-compatible nodes (`roots`, in the iteration order of the Go
    map) of the current `SelectTargetsForBuild`; `vis` is the shared `visited` map, which is exactly the
    set of nodes selected so far:
    ```
    node.Select(); if !visited[node] { visited[node] = true; selectAllAncestorsForBuild(node) }
    ``` -/
def selectLoop (es : List Edge) (ok : Nat → Bool) : List Nat → List Nat → Nat → SelRes
  | [], vis, cost => .ok vis cost
  | r :: rs, vis, cost =>
    if vis.contains r then selectLoop es ok rs vis (cost + 1)
    else
      -- dependencies of `r` are `inEdges[r]`: successors in the flipped graph
      match dfs (flipEdges es) ok es.length (succs (flipEdges es) r) (r :: vis) with
      | .done vis' steps => selectLoop es ok rs vis' (cost + 1 + steps)
      | .bad c steps => .platformError c (cost + 1 + steps)
      | .fuel => .fuel

/-- the nodes the first loop of `SelectTargetsForBuild` starts from, given the iteration order of
    `graph.GetNodes()` (a Go map: any order) -/
def BuildGraph.roots (g : BuildGraph) (s : Selector) (h : Host) (order : List Nat) : List Nat :=
  order.filter (fun i => g.selMatchesAt s i && g.selPlatAt h i)

/-- `platformSkipped` -/
def BuildGraph.skipped (g : BuildGraph) (s : Selector) (h : Host) : Nat :=
  ((List.range g.nodes.length).filter (fun i => g.selMatchesAt s i && !g.selPlatAt h i)).length

/-- `Selector.SelectTargetsForBuild(graph)` of the current code; `order` is the iteration order of the node map -/
def selectForBuild (g : BuildGraph) (s : Selector) (h : Host) (order : List Nat) : SelRes :=
  selectLoop g.edges (g.platAt h) (g.roots s h order) [] 0

/-- `selectedCount`: selected nodes that are targets -/
def BuildGraph.countTargets (g : BuildGraph) (sel : List Nat) : Nat :=
  (sel.filter (fun i => match g.nodes[i]? with | some n => n.isTarget | none => false)).length

/-- `selectAllAncestorsForBuild` before the fix: recursion over `inEdges` without a visited set; every
    path is walked (and every node on it re-selected); the platform test stops at the first mismatch.
    Returns `none` on a mismatch, else the number of recursive calls. -/
def selectAncestorsPaths (es : List Edge) (ok : Nat → Bool) : Nat → Nat → Option Nat
  | 0, _ => some 0
  | fuel + 1, v =>
    (preds es v).foldl (fun acc d =>
      match acc with
      | none => none
      | some c =>
        if !ok d then none
        else match selectAncestorsPaths es ok fuel d with
          | none => none
          | some c' => some (c + 1 + c')) (some 0)

/-- `Selector.SelectTargets` (query selection, used by `grog list`): no closure -/
def selectForQuery (g : BuildGraph) (s : Selector) (h : Host) : List Nat :=
  (List.range g.nodes.length).filter (fun i => g.selMatchesAt s i && g.selPlatAt h i)

end Grog
