/-
  XXH3-128 (seed 0, default secret) over byte lists, executable, core Lean only: the function
  `github.com/zeebo/xxh3` `Hasher.Sum128` computes for everything written to it, printed as
  `xxh3Hasher.SumString` does (`%016x%016x` of Hi, Lo).  Used only by the model driver so that the model's
  cache key can be compared byte-for-byte with grog's key under the default hash_algorithm=xxh3.
  Nothing is proved about it; it is validated against the real hasher by the C09 correspondence check on
  every run (all length classes: 0, 1-3, 4-8, 9-16, 17-128, 129-240, > 240 with block boundaries).
-/
namespace Grog.Xxh3

def secret : Array UInt8 := #[
  0xb8, 0xfe, 0x6c, 0x39, 0x23, 0xa4, 0x4b, 0xbe, 0x7c, 0x01, 0x81, 0x2c, 0xf7, 0x21, 0xad, 0x1c,
  0xde, 0xd4, 0x6d, 0xe9, 0x83, 0x90, 0x97, 0xdb, 0x72, 0x40, 0xa4, 0xa4, 0xb7, 0xb3, 0x67, 0x1f,
  0xcb, 0x79, 0xe6, 0x4e, 0xcc, 0xc0, 0xe5, 0x78, 0x82, 0x5a, 0xd0, 0x7d, 0xcc, 0xff, 0x72, 0x21,
  0xb8, 0x08, 0x46, 0x74, 0xf7, 0x43, 0x24, 0x8e, 0xe0, 0x35, 0x90, 0xe6, 0x81, 0x3a, 0x26, 0x4c,
  0x3c, 0x28, 0x52, 0xbb, 0x91, 0xc3, 0x00, 0xcb, 0x88, 0xd0, 0x65, 0x8b, 0x1b, 0x53, 0x2e, 0xa3,
  0x71, 0x64, 0x48, 0x97, 0xa2, 0x0d, 0xf9, 0x4e, 0x38, 0x19, 0xef, 0x46, 0xa9, 0xde, 0xac, 0xd8,
  0xa8, 0xfa, 0x76, 0x3f, 0xe3, 0x9c, 0x34, 0x3f, 0xf9, 0xdc, 0xbb, 0xc7, 0xc7, 0x0b, 0x4f, 0x1d,
  0x8a, 0x51, 0xe0, 0x4b, 0xcd, 0xb4, 0x59, 0x31, 0xc8, 0x9f, 0x7e, 0xc9, 0xd9, 0x78, 0x73, 0x64,
  0xea, 0xc5, 0xac, 0x83, 0x34, 0xd3, 0xeb, 0xc3, 0xc5, 0x81, 0xa0, 0xff, 0xfa, 0x13, 0x63, 0xeb,
  0x17, 0x0d, 0xdd, 0x51, 0xb7, 0xf0, 0xda, 0x49, 0xd3, 0x16, 0x55, 0x26, 0x29, 0xd4, 0x68, 0x9e,
  0x2b, 0x16, 0xbe, 0x58, 0x7d, 0x47, 0xa1, 0xfc, 0x8f, 0xf8, 0xb8, 0xd1, 0x7a, 0xd0, 0x31, 0xce,
  0x45, 0xcb, 0x3a, 0x8f, 0x95, 0x16, 0x04, 0x28, 0xaf, 0xd7, 0xfb, 0xca, 0xbb, 0x4b, 0x40, 0x7e]

def prime32_1 : UInt64 := 2654435761
def prime32_2 : UInt64 := 2246822519
def prime32_3 : UInt64 := 3266489917
def prime64_1 : UInt64 := 11400714785074694791
def prime64_2 : UInt64 := 14029467366897019727
def prime64_3 : UInt64 := 1609587929392839161
def prime64_4 : UInt64 := 9650029242287828579
def prime64_5 : UInt64 := 2870177450012600261

/-- little-endian read of `n` bytes at offset `o` (bytes beyond the end read as 0; never happens for the
    offsets used below) -/
def readLE (a : Array UInt8) (o n : Nat) : UInt64 := Id.run do
  let mut r : UInt64 := 0
  for i in [0:n] do
    r := r ||| ((a[o + i]!).toUInt64 <<< (UInt64.ofNat (8 * i)))
  return r

@[inline] def r64 (a : Array UInt8) (o : Nat) : UInt64 := readLE a o 8
@[inline] def r32 (a : Array UInt8) (o : Nat) : UInt64 := readLE a o 4
@[inline] def k64 (o : Nat) : UInt64 := readLE secret o 8
@[inline] def k32 (o : Nat) : UInt64 := readLE secret o 4

/-- `bits.Mul64`: (hi, lo) of the 128-bit product -/
def mul64 (x y : UInt64) : UInt64 × UInt64 :=
  let p := x.toNat * y.toNat
  (UInt64.ofNat (p / 2 ^ 64), UInt64.ofNat (p % 2 ^ 64))

def mulFold64 (x y : UInt64) : UInt64 := let (h, l) := mul64 x y; h ^^^ l

def avalanche (x : UInt64) : UInt64 :=
  let x := x ^^^ (x >>> 37)
  let x := x * 0x165667919e3779f9
  x ^^^ (x >>> 32)

/-- `xxh64AvalancheSmall`: the caller has already xor-ed the key -/
def avalancheSmall (x : UInt64) : UInt64 :=
  let x := x * prime64_2
  let x := x ^^^ (x >>> 29)
  let x := x * prime64_3
  x ^^^ (x >>> 32)

def bswap64 (x : UInt64) : UInt64 := Id.run do
  let mut r : UInt64 := 0
  for i in [0:8] do
    r := r ||| (((x >>> (UInt64.ofNat (8 * i))) &&& 0xff) <<< (UInt64.ofNat (8 * (7 - i))))
  return r

def bswap32 (x : UInt64) : UInt64 :=
  ((x &&& 0xff) <<< 24) ||| (((x >>> 8) &&& 0xff) <<< 16) ||| (((x >>> 16) &&& 0xff) <<< 8) ||| ((x >>> 24) &&& 0xff)

def rotl32 (x : UInt64) (n : UInt64) : UInt64 :=
  ((x <<< n) ||| (x >>> (32 - n))) &&& (0xffffffff : UInt64)

/-- one 32-byte mixing round of the 17..240 paths: (hi, lo) updated from four input words and four key words;
    `a b` feed `lo`, `c d` feed `hi` -/
def mix32 (hi lo a b c d ka kb kc kd : UInt64) : UInt64 × UInt64 :=
  let hi := hi + mulFold64 (c ^^^ kc) (d ^^^ kd)
  let hi := hi ^^^ (a + b)
  let lo := lo + mulFold64 (a ^^^ ka) (b ^^^ kb)
  let lo := lo ^^^ (c + d)
  (hi, lo)

def finishMid (hi lo : UInt64) (l : Nat) : UInt64 × UInt64 :=
  let hi' := lo * prime64_1 + hi * prime64_4 + (UInt64.ofNat l) * prime64_2
  let lo' := hi + lo
  (0 - avalanche hi', avalanche lo')

def accumulate (acc : Array UInt64) (p : Array UInt8) (off koff : Nat) : Array UInt64 := Id.run do
  let mut acc := acc
  for i in [0:8] do
    let dv := r64 p (off + 8 * i)
    let dk := dv ^^^ k64 (koff + 8 * i)
    let j := if i % 2 == 0 then i + 1 else i - 1
    acc := acc.set! j (acc[j]! + dv)
    acc := acc.set! i (acc[i]! + (dk &&& (0xffffffff : UInt64)) * (dk >>> 32))
  return acc

def scramble (acc : Array UInt64) : Array UInt64 := Id.run do
  let mut acc := acc
  for i in [0:8] do
    let a := acc[i]!
    let a := a ^^^ (a >>> 47)
    let a := a ^^^ k64 (128 + 8 * i)
    acc := acc.set! i (a * prime32_1)
  return acc

def hashLong (p : Array UInt8) : UInt64 × UInt64 := Id.run do
  let l := p.size
  let mut acc : Array UInt64 := #[prime32_3, prime64_1, prime64_2, prime64_3, prime64_4, prime32_2, prime64_5, prime32_1]
  let nbBlocks := (l - 1) / 1024
  for n in [0:nbBlocks] do
    for i in [0:16] do
      acc := accumulate acc p (n * 1024 + i * 64) (i * 8)
    acc := scramble acc
  let nbStripes := ((l - 1) - 1024 * nbBlocks) / 64
  for i in [0:nbStripes] do
    acc := accumulate acc p (nbBlocks * 1024 + i * 64) (i * 8)
  acc := accumulate acc p (l - 64) (192 - 64 - 7)
  let mut lo : UInt64 := (UInt64.ofNat l) * prime64_1
  let mut hi : UInt64 := ~~~ ((UInt64.ofNat l) * prime64_2)
  for i in [0:4] do
    lo := lo + mulFold64 (acc[2*i]! ^^^ k64 (11 + 16 * i)) (acc[2*i+1]! ^^^ k64 (11 + 16 * i + 8))
    hi := hi + mulFold64 (acc[2*i]! ^^^ k64 (117 + 16 * i)) (acc[2*i+1]! ^^^ k64 (117 + 16 * i + 8))
  return (avalanche hi, avalanche lo)

/-- (Hi, Lo) of XXH3-128 -/
def hash128 (msg : List UInt8) : UInt64 × UInt64 := Id.run do
  let p := msg.toArray
  let l := p.size
  if l == 0 then return (0x99aa06d3014798d8, 0x6001c324468d497f)
  if l ≤ 3 then
    let lo0 : UInt64 :=
      if l == 3 then (readLE p 0 2 <<< 16) + (p[2]!).toUInt64 + (768 : UInt64)
      else if l == 2 then ((readLE p 0 2 * (16777217 : UInt64)) >>> 8) + (512 : UInt64)
      else (p[0]!).toUInt64 * (16842753 : UInt64) + (256 : UInt64)
    let hi0 := rotl32 (bswap32 (lo0 &&& 0xffffffff)) 13
    let lo := lo0 ^^^ (k32 0 ^^^ k32 4)
    let hi := hi0 ^^^ (k32 8 ^^^ k32 12)
    return (avalancheSmall hi, avalancheSmall lo)
  if l ≤ 8 then
    let bitflip := k64 16 ^^^ k64 24
    let in64 := r32 p 0 + (r32 p (l - 4) <<< 32)
    let keyed := in64 ^^^ bitflip
    let (hi, lo) := mul64 keyed (prime64_1 + ((UInt64.ofNat l) <<< 2))
    let hi := hi + (lo <<< 1)
    let lo := lo ^^^ (hi >>> 3)
    let lo := lo ^^^ (lo >>> 35)
    let lo := lo * 0x9fb21c651e98df25
    let lo := lo ^^^ (lo >>> 28)
    return (avalanche hi, lo)
  if l ≤ 16 then
    let bitflipl := k64 32 ^^^ k64 40
    let bitfliph := k64 48 ^^^ k64 56
    let inLo := r64 p 0
    let inHi := r64 p (l - 8)
    let (mh, ml) := mul64 (inLo ^^^ inHi ^^^ bitflipl) prime64_1
    let ml := ml + ((UInt64.ofNat (l - 1)) <<< 54)
    let inHi := inHi ^^^ bitfliph
    let mh := mh + inHi + (inHi &&& 0xffffffff) * (prime32_2 - 1)
    let ml := ml ^^^ bswap64 mh
    let (hi, lo) := mul64 ml prime64_2
    let hi := hi + mh * prime64_2
    return (avalanche hi, avalanche lo)
  if l ≤ 128 then
    let mut hi : UInt64 := 0
    let mut lo : UInt64 := (UInt64.ofNat l) * prime64_1
    -- rounds from the outermost applicable pair inwards: i = 3 (l > 96), 2 (l > 64), 1 (l > 32), 0
    for step in [0:4] do
      let i := 3 - step
      if i == 0 || l > 32 * i then
        let a := r64 p (16 * i)
        let b := r64 p (16 * i + 8)
        let c := r64 p (l - 16 * (i + 1))
        let d := r64 p (l - 16 * (i + 1) + 8)
        (hi, lo) := mix32 hi lo a b c d (k64 (32 * i)) (k64 (32 * i + 8)) (k64 (32 * i + 16)) (k64 (32 * i + 24))
    return finishMid hi lo l
  if l ≤ 240 then
    let mut hi : UInt64 := 0
    let mut lo : UInt64 := (UInt64.ofNat l) * prime64_1
    for g in [0:4] do
      let o := 32 * g
      -- here the roles are: i0,i1 feed lo, i2,i3 feed hi, and the xor terms are swapped w.r.t. mix32's naming
      let i0 := r64 p o
      let i1 := r64 p (o + 8)
      let i2 := r64 p (o + 16)
      let i3 := r64 p (o + 24)
      hi := hi + mulFold64 (i2 ^^^ k64 (o + 16)) (i3 ^^^ k64 (o + 24))
      hi := hi ^^^ (i0 + i1)
      lo := lo + mulFold64 (i0 ^^^ k64 o) (i1 ^^^ k64 (o + 8))
      lo := lo ^^^ (i2 + i3)
    hi := avalanche hi
    lo := avalanche lo
    let top := (l / 32) * 32
    let nb := (top - 128) / 32
    for g in [0:nb] do
      let i := 128 + 32 * g
      let i0 := r64 p i
      let i1 := r64 p (i + 8)
      let i2 := r64 p (i + 16)
      let i3 := r64 p (i + 24)
      hi := hi + mulFold64 (i2 ^^^ k64 (i - 109)) (i3 ^^^ k64 (i - 101))
      hi := hi ^^^ (i0 + i1)
      lo := lo + mulFold64 (i0 ^^^ k64 (i - 125)) (i1 ^^^ k64 (i - 117))
      lo := lo ^^^ (i2 + i3)
    let i0 := r64 p (l - 32)
    let i1 := r64 p (l - 24)
    let i2 := r64 p (l - 16)
    let i3 := r64 p (l - 8)
    hi := hi + mulFold64 (i0 ^^^ k64 119) (i1 ^^^ k64 127)
    hi := hi ^^^ (i2 + i3)
    lo := lo + mulFold64 (i2 ^^^ k64 103) (i3 ^^^ k64 111)
    lo := lo ^^^ (i0 + i1)
    return finishMid hi lo l
  return hashLong p

def hexDigit (n : Nat) : UInt8 := if n < 10 then UInt8.ofNat (48 + n) else UInt8.ofNat (87 + n)

def hex64 (x : UInt64) : List UInt8 :=
  (List.range 16).map (fun j => hexDigit ((x >>> (UInt64.ofNat (4 * (15 - j)))).toNat % 16))

/-- `fmt.Sprintf("%016x%016x", sum.Hi, sum.Lo)` -/
def xxh3Hex (msg : List UInt8) : List UInt8 :=
  let (hi, lo) := hash128 msg
  hex64 hi ++ hex64 lo

end Grog.Xxh3
