/-
  Model of internal/label/target_label.go and target_pattern.go.
  Mirrors the Go control flow; errors are collapsed to `none`.
-/
import GrogModel.Base
namespace Grog

structure Label where
  pkg  : Bytes
  name : Bytes
deriving DecidableEq, Repr

/-- one rune of `validateName`'s switch; any byte ≥ 0x80 decodes to a rune outside
    every case (or to U+FFFD) and is rejected, so the byte-level test is exact. -/
def validChar (c : UInt8) : Bool :=
  (97 ≤ c && c ≤ 122) || (65 ≤ c && c ≤ 90) || (48 ≤ c && c ≤ 57) ||
  c == 95 || c == 45 || c == 46

/-- `validateName(name) == nil` -/
def validName (n : Bytes) : Bool :=
  !n.isEmpty && n != dots3 && n.all validChar

/-- `TargetLabel.String()` -/
def Label.toBytes (l : Label) : Bytes :=
  slash2 ++ l.pkg ++ cColon :: l.name

/-- `ParseTargetLabel(packagePath, label)` -/
def parseLabel (cur : Bytes) (s : Bytes) : Option Label :=
  match s with
  | 58 :: n =>                                  -- strings.HasPrefix(label, ":")
    let cur' := if cur = [cDot] then [] else cur
    if n.isEmpty then none
    else if !validName n then none
    else some ⟨cur', n⟩
  | 47 :: 47 :: body =>
    let pkg := body.takeWhile (· != cColon)
    match body.dropWhile (· != cColon) with
    | [] =>                                     -- shorthand
      if pkg.isEmpty then none
      else
        let name := lastComp pkg
        if !validName name then none else some ⟨pkg, name⟩
    | _ :: name =>
      if name.isEmpty then none
      else if !validName name then none
      else some ⟨pkg, name⟩
  | _ => none

/-- `TargetLabel.CanBeShortened()`: the name equals the last element of the package path
    (`strings.Split(pkg, "/")[last]`), so the label may be written `//pkg` -/
def Label.canBeShortened (l : Label) : Bool := l.name == lastComp l.pkg

/-- the shorthand spelling `//pkg` (what `$(bin //pkg)` / `$(output //pkg)` are looked up under) -/
def Label.shortBytes (l : Label) : Bytes := slash2 ++ l.pkg

structure Pattern where
  pfx  : Bytes     -- package prefix
  tp   : Bytes     -- target name filter ("" matches any)
  recursive : Bool
deriving DecidableEq, Repr

/-- prefix normalisation of the tree before the `fix:` commit for F-dslash:
    removes exactly one trailing slash. Kept for the regression witness. -/
def normPrefixOld (p : Bytes) : Bytes :=
  match p.reverse with
  | 47 :: r => r.reverse
  | _ => p

/-- prefix normalisation as the current tree does it (`strings.TrimRight(prefix, "/")`). -/
def normPrefix (p : Bytes) : Bytes := trimSlashes p

/-- `ParseTargetPattern(currentPackage, pattern)`, parameterised by the prefix normalisation. -/
def parsePatternWith (norm : Bytes → Bytes) (cur : Bytes) (s : Bytes) : Option Pattern :=
  match s with
  | 47 :: 47 :: body =>
    let pkgPart := body.takeWhile (· != cColon)
    let rest := body.dropWhile (· != cColon)
    let hasColon := !rest.isEmpty
    let tp := rest.drop 1
    if hasColon && tp.isEmpty then none
    else
      match findDots pkgPart with
      | some i =>
        if pkgPart.length > i + 3 then none
        else some ⟨norm (pkgPart.take i), tp, true⟩
      | none =>
        if hasColon then some ⟨norm pkgPart, tp, false⟩
        else
          let tp' := lastComp pkgPart
          if tp'.isEmpty then none
          else some ⟨norm pkgPart, tp', false⟩
  | _ =>
    match s.dropWhile (· != cColon) with
    | [] => none
    | _ :: t =>
      if t != dots3 && !validName t then none
      else some ⟨cur, t, false⟩

def parsePattern := parsePatternWith normPrefix
def parsePatternOld := parsePatternWith normPrefixOld

def allBytes : Bytes := [97, 108, 108]  -- "all"

/-- `TargetPattern.Matches` -/
def Pattern.matches (p : Pattern) (t : Label) : Bool :=
  let pkgOk :=
    if p.recursive then
      p.pfx.isEmpty || t.pkg == p.pfx || (p.pfx ++ [cSlash]).isPrefixOf t.pkg
    else t.pkg == p.pfx
  pkgOk && (p.tp.isEmpty || p.tp == allBytes || p.tp == dots3 || t.name == p.tp)

/-- `TargetPattern.String()` -/
def Pattern.toBytes (p : Pattern) : Bytes :=
  let base := slash2 ++ p.pfx ++
    (if p.recursive then (if !p.pfx.isEmpty then cSlash :: dots3 else dots3) else [])
  if !p.tp.isEmpty then base ++ cColon :: p.tp else base

/-- `GetMatchAllTargetPattern()` -/
def matchAllPattern : Pattern := ⟨[], [], true⟩

/-- `TargetPatternFromLabel` -/
def patternFromLabel (l : Label) : Pattern := ⟨l.pkg, l.name, false⟩

/-- `ParsePatternsOrMatchAll(currentPackage, patterns)`: every argument is parsed (the first failure is the
    error); no argument at all means "everything". -/
def parsePatterns (cur : Bytes) (ss : List Bytes) : Option (List Pattern) :=
  match ss.mapM (parsePattern cur) with
  | none => none
  | some [] => some [matchAllPattern]
  | some ps => some ps

/-- a label is selected by a pattern set iff one of the patterns matches (`Selector.nodeMatchesPatterns` for a
    non-empty set, which is what `ParsePatternsOrMatchAll` always returns) -/
def matchesAny (ps : List Pattern) (t : Label) : Bool := ps.any (·.matches t)

/-- `PatternSetToString` -/
def patternSetToBytes (ps : List Pattern) : Bytes :=
  match ps with
  | [] => []
  | p :: rest => rest.foldl (fun acc q => acc ++ 32 :: q.toBytes) p.toBytes

end Grog
