import GrogModel.Drv.Proto
import GrogModel.Label
open Lean

namespace Grog.Drv.Label

def jLabel (l : Grog.Label) : Json :=
  Json.mkObj [("pkg", jBytes l.pkg), ("name", jBytes l.name)]

def jPattern (p : Grog.Pattern) : Json :=
  Json.mkObj [("pfx", jBytes p.pfx), ("tp", jBytes p.tp), ("rec", Json.bool p.recursive)]

/-- {"op":"label.parse","cur":..,"s":..} → {"ok":bool,"label":{..},"str":..} -/
def parse : Handler := fun j => do
  let cur ← getBytes j "cur"
  let s ← getBytes j "s"
  match parseLabel cur s with
  | none => pure (Json.mkObj [("ok", Json.bool false)])
  | some l => pure (Json.mkObj [("ok", Json.bool true), ("label", jLabel l), ("str", jBytes l.toBytes)])

/-- {"op":"pattern.parse","cur":..,"s":..,"uni":{"pkgs":[..],"names":[..]}} →
    {"ok":bool,"pat":{..},"str":..,"m":"0101.."} -/
def pparse : Handler := fun j => do
  let cur ← getBytes j "cur"
  let s ← getBytes j "s"
  let u ← j.getObjVal? "uni"
  let pkgs ← getBytesList u "pkgs"
  let names ← getBytesList u "names"
  let labels := pkgs.flatMap (fun p => names.map (fun n => Grog.Label.mk p n))
  match parsePattern cur s with
  | none => pure (Json.mkObj [("ok", Json.bool false)])
  | some p =>
    let m := String.ofList (labels.map (fun l => if p.matches l then '1' else '0'))
    pure (Json.mkObj [("ok", Json.bool true), ("pat", jPattern p), ("str", jBytes p.toBytes), ("m", Json.str m)])

/-- {"op":"label.short","pkg":..,"name":..} → {"short":bool,"str":..} -/
def short : Handler := fun j => do
  let pkg ← getBytes j "pkg"
  let name ← getBytes j "name"
  let l : Grog.Label := ⟨pkg, name⟩
  pure (Json.mkObj [("short", Json.bool l.canBeShortened), ("str", jBytes l.toBytes)])

def uniLabels (j : Json) : Except String (List Grog.Label) := do
  let u ← j.getObjVal? "uni"
  let pkgs ← getBytesList u "pkgs"
  let names ← getBytesList u "names"
  pure (pkgs.flatMap (fun p => names.map (fun n => Grog.Label.mk p n)))

/-- {"op":"patterns.parse","cur":..,"ss":[..],"uni":..} → {"ok":bool,"pats":[..],"str":..,"m":".."} -/
def psparse : Handler := fun j => do
  let cur ← getBytes j "cur"
  let ss ← getBytesList j "ss"
  let labels ← uniLabels j
  match parsePatterns cur ss with
  | none => pure (Json.mkObj [("ok", Json.bool false)])
  | some ps =>
    let m := String.ofList (labels.map (fun l => if matchesAny ps l then '1' else '0'))
    pure (Json.mkObj [("ok", Json.bool true), ("pats", Json.arr (ps.map jPattern).toArray),
      ("str", jBytes (patternSetToBytes ps)), ("m", Json.str m)])

/-- {"op":"pattern.fromlabel","pkg":..,"name":..,"uni":..} -/
def fromLabel : Handler := fun j => do
  let pkg ← getBytes j "pkg"
  let name ← getBytes j "name"
  let labels ← uniLabels j
  let p := patternFromLabel ⟨pkg, name⟩
  let m := String.ofList (labels.map (fun l => if p.matches l then '1' else '0'))
  pure (Json.mkObj [("pat", jPattern p), ("str", jBytes p.toBytes), ("m", Json.str m)])

def handlers : List (String × Handler) :=
  [("label.parse", parse), ("label.short", short), ("pattern.parse", pparse), ("patterns.parse", psparse), ("pattern.fromlabel", fromLabel)]

end Grog.Drv.Label
