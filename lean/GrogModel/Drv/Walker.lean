import GrogModel.Drv.Proto
import GrogModel.Walker
import GrogModel.Pool
import GrogModel.ErrChan
open Lean

/-
  Driver ops for the walker group.

  walker.replay : trace inclusion. The visible events recorded from the real `Walker.Walk`
  are fed one by one to `Grog.Walker.step`. Hidden events (`complete`, `deliverCancel`, `exit`)
  are inserted by the replayer, every one of them through `step` as well, so a trace is accepted
  only if it is the visible projection of a run of the model. Hidden `complete` events are
  inserted as late as possible (when a visible event needs them, when `Walk` returns through the
  wait group, and at the end of the trace), successful completions before failed ones.
  After every step the function-valued state is tabulated into arrays (an extensionally equal
  state on the nodes 0..n-1) to keep the replay linear.
-/
namespace Grog.Drv.Walker
open Grog.Walker

structure Ctx where
  n   : Nat
  cfg : Cfg

def normalize (x : Ctx) (s : State) : State :=
  -- the arrays are built here (once per step); the closures below only index them
  let ph : Array Phase := Array.ofFn (n := x.n) (fun i => s.phase i.val)
  let rd : Array Bool := Array.ofFn (n := x.n) (fun i => s.ready i.val)
  let cn : Array Bool := Array.ofFn (n := x.n) (fun i => s.cancel i.val)
  let pd : Array Bool := Array.ofFn (n := x.n) (fun i => s.pend i.val)
  let sn : Array Phase := Array.ofFn (n := x.n) (fun i => s.snap i.val)
  { s with phase := fun m => ph.getD m .parked, ready := fun m => rd.getD m false,
           cancel := fun m => cn.getD m false, pend := fun m => pd.getD m false,
           snap := fun m => sn.getD m .parked }

def apply (x : Ctx) (s : State) (e : Ev) : Option State :=
  (step x.cfg s e).map (normalize x)

def phaseCode : Phase → String
  | .parked => "parked" | .running => "running" | .returned true => "returned-ok"
  | .returned false => "returned-fail" | .ok => "ok" | .failed => "failed"
  | .exited => "exited" | .aborted => "aborted"

/-- apply `complete` to every selected node whose callback has returned with the given outcome -/
def flush (x : Ctx) (s : State) (success : Bool) : Except String State :=
  x.cfg.sel.foldlM (init := s) fun s n =>
    if s.phase n = .returned success then
      match apply x s (.complete n) with
      | some s' => pure s'
      | none => throw s!"model: complete {n} not enabled although the callback has returned"
    else pure s

def flushAll (x : Ctx) (s : State) : Except String State := do
  let s ← flush x s true
  flush x s false

/-- hidden cancel deliveries and exits of parked routines, to quiescence -/
def quiesce (x : Ctx) (s : State) : Except String State := do
  let s ← x.cfg.sel.foldlM (init := s) fun s n =>
    if s.pend n then
      match apply x s (.deliverCancel n) with
      | some s' => pure s'
      | none => throw s!"model: deliverCancel {n} not enabled"
    else pure s
  x.cfg.sel.foldlM (init := s) fun s n =>
    if s.phase n = .parked ∧ s.cancel n = true then
      match apply x s (.exit n) with
      | some s' => pure s'
      | none => throw s!"model: exit {n} not enabled"
    else pure s

inductive TEv where
  | start (n : Nat) | fin (n : Nat) (r : Res) | cancel | ret (err : Bool)

def parseEv (j : Json) : Except String (Option TEv) := do
  let a ← j.getArr?
  let k ← (a.getD 0 Json.null).getStr?
  match k with
  | "s" => let n ← (a.getD 1 Json.null).getNat?; pure (some (.start n))
  | "e" =>
    let n ← (a.getD 1 Json.null).getNat?
    let r ← (a.getD 2 Json.null).getStr?
    match r with
    | "ok" => pure (some (.fin n .ok))
    | "fail" => pure (some (.fin n .fail))
    | "cancelled" => pure (some (.fin n .cancelled))
    | _ => throw s!"bad result {r}"
  | "c" => pure (some .cancel)
  | "r" => let b ← (a.getD 1 Json.null).getBool?; pure (some (.ret b))
  | "cs" => pure none
  | "ce" => pure none
  | _ => throw s!"bad event kind {k}"

/-- one visible event; `Except.error` carries the reason why the model cannot follow -/
def applyCancel (x : Ctx) (s : State) : Except String State :=
  if s.ctx then pure s else
  match apply x s .ctxCancel with
  | some s' => pure s'
  | none => throw "ctxCancel not enabled"

/-- one visible event; `Except.error` carries the reason why the model cannot follow.
    The harness logs "c" *before* it calls `cancel()`, so the logged position is a lower bound for the moment the
    context is really cancelled: like `complete`, the model's `ctxCancel` is inserted as late as possible (`pc` = logged,
    not yet applied) — when a callback reports the cancellation, when `Walk` returns the context error, at the end. -/
def visible (x : Ctx) (sp : State × Bool) : TEv → Except String (State × Bool)
  | .start n => do
    let (s, pc) := sp
    match apply x s (.wake n) with
    | some s' => pure (s', pc)
    | none =>
      -- the release of n may still be pending in onComplete of its dependencies
      let s ← (x.cfg.deps n).foldlM (init := s) fun s d =>
        if s.phase d = .returned true then
          match apply x s (.complete d) with
          | some s' => pure s'
          | none => throw s!"model: complete {d} not enabled"
        else pure s
      match apply x s (.wake n) with
      | some s' => pure (s', pc)
      | none => throw s!"callback of node {n} entered but wake {n} is not enabled in the model (phase {phaseCode (s.phase n)}, ready {s.ready n})"
  | .fin n r => do
    let (s, pc) := sp
    let (s, pc) ← if r = .cancelled ∧ s.ctx = false then
        (if pc then do let s' ← applyCancel x s; pure (s', false) else do let s' ← flushAll x s; pure (s', pc))
      else pure (s, pc)
    match apply x s (.cbReturn n r) with
    | some s' => pure (s', pc)
    | none => throw s!"callback of node {n} returned but cbReturn is not enabled in the model (phase {phaseCode (s.phase n)}, ctx {s.ctx})"
  | .cancel => pure (sp.1, true)
  | .ret err => do
    let (s, pc) := sp
    if err then
      let s ← if pc then applyCancel x s else pure s
      match apply x s (.walkReturn true) with
      | some s' => if s'.retErr = some true then pure (s', false) else throw "Walk returned an error but the model returns nil (fail-fast was triggered)"
      | none => throw "Walk returned an error but walkReturn(ctx) is not enabled in the model"
    else
      let viaCtx (s : State) : Except String (State × Bool) :=
        match apply x s (.walkReturn true) with
        | some s' => if s'.retErr = some false then pure (s', pc) else throw "Walk returned nil but the model returns the context error"
        | none => throw "walkReturn(ctx) not enabled"
      if s.ctx ∧ s.ff then viaCtx s else
      let s ← flushAll x s
      if s.ctx ∧ s.ff then viaCtx s else
      let s ← quiesce x s
      match apply x s (.walkReturn false) with
      | some s' =>
        if s'.retErr = some false then pure (s', pc)
        else throw "Walk returned nil although the context was cancelled from outside and a callback had reported the cancellation (the model returns the context error)"
      | none => throw "Walk returned nil through the wait group but not every selected node is terminal in the model"

def allEvents (x : Ctx) : List Ev :=
  [.ctxCancel, .walkReturn true, .walkReturn false] ++
  x.cfg.sel.flatMap (fun n => [.wake n, .cbReturn n .ok, .cbReturn n .fail, .cbReturn n .cancelled,
                               .complete n, .exit n, .deliverCancel n])

/-- descendants by depth-first search over the dependants relation -/
partial def dfs (outs : Array (List Nat)) (todo : List Nat) (seen : Array Bool) (acc : List Nat) : List Nat :=
  match todo with
  | [] => acc
  | t :: rest =>
    if seen.getD t true then dfs outs rest seen acc
    else dfs outs (outs.getD t [] ++ rest) (seen.set! t true) (t :: acc)

def mkCtx (j : Json) : Except String Ctx := do
  let n ← getNat j "n"
  let edges ← getArr j "edges"
  let unsel : List Nat := (j.getObjValAs? (List Nat) "unsel").toOption.getD []
  let failFast := (j.getObjValAs? Bool "failFast").toOption.getD false
  let mut ins : Array (List Nat) := Array.replicate n []
  let mut outs : Array (List Nat) := Array.replicate n []
  for e in edges do
    let a ← e.getArr?
    let d ← (a.getD 0 Json.null).getNat?
    let m ← (a.getD 1 Json.null).getNat?
    if d ≥ n ∨ m ≥ n then throw "edge out of range"
    ins := ins.modify m (fun l => d :: l)
    outs := outs.modify d (fun l => m :: l)
  -- descendants are needed only for nodes that fail
  let needDesc : List Nat := (j.getObjValAs? (List Nat) "descFor").toOption.getD (List.range n)
  let mut descs : Array (List Nat) := Array.replicate n []
  for a in needDesc do
    if a < n then
      descs := descs.set! a (dfs outs (outs.getD a []) (Array.replicate n false) [])
  let sel := (List.range n).filter (fun i => !unsel.contains i)
  pure { n := n, cfg := { sel := sel, deps := fun m => ins.getD m [], desc := fun a => descs.getD a [],
                          failFast := failFast } }

/-- {"op":"walker.replay","n":..,"edges":[[dep,dependant],..],"unsel":[..],"failFast":b,"trace":[..]} -/
def replay : Handler := fun j => do
  let x ← mkCtx j
  let tr ← getArr j "trace"
  let mut s := normalize x (init x.cfg)
  let mut pc := false
  let m0 := measure x.cfg s
  let mut idx : Nat := 0
  for ej in tr do
    match ← parseEv ej with
    | none => pure ()
    | some e =>
      match visible x (s, pc) e with
      | .ok (s', pc') =>
        s := s'
        pc := pc'
      | .error why =>
        return Json.mkObj [("ok", Json.bool false), ("at", toJson idx), ("why", Json.str why)]
    idx := idx + 1
  -- end of trace: outstanding hidden steps
  let sEnd := s
  let pcEnd := pc
  let fin : Except String State := do
    let s0 ← if pcEnd then applyCancel x sEnd else pure sEnd
    let s1 ← flushAll x s0
    quiesce x s1
  match fin with
  | .error why => return Json.mkObj [("ok", Json.bool false), ("at", toJson idx), ("why", Json.str why)]
  | .ok sf =>
    let phases := (List.range x.n).map (fun i => Json.str (phaseCode (sf.phase i)))
    let snap := (List.range x.n).map (fun i => Json.str (phaseCode (sf.snap i)))
    let stuck := (allEvents x).all (fun e => (step x.cfg sf e).isNone)
    let retJ : Json := match sf.retErr with
      | none => Json.null
      | some b => Json.bool b
    return Json.mkObj [("ok", Json.bool true), ("phases", Json.arr phases.toArray), ("snap", Json.arr snap.toArray),
      ("stuck", Json.bool stuck), ("allTerminal", Json.bool (allTerminal x.cfg sf.phase)),
      ("retErr", retJ), ("exitNonZero", Json.bool (exitNonZero x.cfg sf)),
      ("ff", Json.bool sf.ff), ("ctx", Json.bool sf.ctx),
      ("measure0", toJson m0), ("measureEnd", toJson (measure x.cfg sf))]

/-- {"op":"errchan.outcome","nOk":..,"nFail":..,"cap":..,"drop":b} → {"outcome":"ok"|"error"|"deadlock"} -/
def errchanOutcome : Handler := fun j => do
  let nOk ← getNat j "nOk"
  let nFail ← getNat j "nFail"
  let cap ← getNat j "cap"
  let drop ← getBool j "drop"
  let r := match Grog.ErrChan.outcome { nOk := nOk, nFail := nFail, cap := cap, drop := drop } with
    | none => "deadlock"
    | some true => "error"
    | some false => "ok"
  pure (Json.mkObj [("outcome", Json.str r)])

def bits (n : Nat) (f : Node → Bool) : String :=
  String.ofList ((List.range n).map (fun i => if f i then '1' else '0'))

/-- {"op":"walker.steps", cfg.., "steps":[[n, success],..]} → per step the ready / cancel flags the model
    predicts after `wake n; cbReturn n r; complete n` and delivery of all pending cancels -/
def stepsOp : Handler := fun j => do
  let x ← mkCtx j
  let steps ← getArr j "steps"
  let mut s := normalize x (init x.cfg)
  let mut out : Array Json := #[]
  for st in steps do
    let a ← st.getArr?
    let n ← (a.getD 0 Json.null).getNat?
    let okb ← (a.getD 1 Json.null).getBool?
    let r := if okb then Res.ok else Res.fail
    let run3 : Except String State := do
      let s1 ← match apply x s (.wake n) with
        | some s' => pure s'
        | none => throw s!"wake {n} not enabled in the model"
      let s2 ← match apply x s1 (.cbReturn n r) with
        | some s' => pure s'
        | none => throw s!"cbReturn {n} not enabled"
      let s3 ← match apply x s2 (.complete n) with
        | some s' => pure s'
        | none => throw s!"complete {n} not enabled"
      x.cfg.sel.foldlM (init := s3) fun s m =>
        if s.pend m then
          match apply x s (.deliverCancel m) with
          | some s' => pure s'
          | none => throw s!"deliverCancel {m} not enabled"
        else pure s
    match run3 with
    | .error why => return Json.mkObj [("ok", Json.bool false), ("why", Json.str why), ("done", Json.arr out)]
    | .ok s' =>
      s := s'
      let sel := x.cfg.sel
      out := out.push (Json.arr #[toJson n, Json.bool okb,
        Json.str (bits x.n (fun i => sel.contains i && s'.ready i)),
        Json.str (bits x.n (fun i => sel.contains i && s'.cancel i)), Json.bool s'.ff, Json.bool s'.ctx])
  return Json.mkObj [("ok", Json.bool true), ("steps", Json.arr out)]

def handlers : List (String × Handler) :=
  [("walker.replay", replay), ("walker.steps", stepsOp), ("errchan.outcome", errchanOutcome)]

end Grog.Drv.Walker
