import GrogModel.Drv.Proto
import GrogModel.Analysis
open Lean

namespace Grog.Drv.Analysis
open Grog Grog.Analysis

def getLabel (j : Json) : Except String Label := do
  pure ⟨← getBytes j "pkg", ← getBytes j "name"⟩

def getLabels (j : Json) (k : String) : Except String (List Label) := do
  let a ← getArr j k
  a.toList.mapM getLabel

def jLabel (l : Label) : Json := Json.mkObj [("pkg", jBytes l.pkg), ("name", jBytes l.name)]

def getOut (j : Json) : Except String Out := do
  let k ← getStr j "k"
  let id ← getBytes j "id"
  match k with
  | "file" => pure ⟨.file, id⟩
  | "dir" => pure ⟨.dir, id⟩
  | "docker" => pure ⟨.docker, id⟩
  | _ => throw ("bad output kind " ++ k)

def getTarget (j : Json) : Except String Target := do
  let l ← getLabel j
  let deps ← getLabels j "deps"
  let inputs ← getBytesList j "inputs"
  let outs ← (← getArr j "outs").toList.mapM getOut
  -- AllOutputs(): the bin output (always a file) comes last if it is set
  let bin := match getBytes j "bin" with | .ok b => b | .error _ => []
  let all := if bin = [] then outs else outs ++ [⟨.file, bin⟩]
  let globs := match getBytesList j "globs" with | .ok g => g | .error _ => []
  pure ⟨l, deps, inputs, globs, all, ← getBool j "testonly", ← getBool j "cmd"⟩

def getAlias (j : Json) : Except String Alias := do
  let l ← getLabel j
  let a ← j.getObjVal? "actual"
  pure ⟨l, ← getLabel a⟩

def getPkg (j : Json) : Except String Pkg := do
  let ts ← (← getArr j "targets").toList.mapM getTarget
  let as ← (← getArr j "aliases").toList.mapM getAlias
  pure ⟨ts, as⟩

def kindName : Kind → String
  | .duplicate => "duplicate" | .unknownDep => "unknown-dep" | .selfLoop => "self-loop"
  | .cycle => "cycle" | .conflict => "conflict" | .inputEscape => "input-escape"
  | .outputEscape => "output-escape" | .testDep => "test-dep" | .testNoCommand => "test-no-command"

def getCfg (j : Json) : Except String Cfg := do
  match j.getObjVal? "cfg" with
  | .error _ => pure Cfg.current
  | .ok c =>
    let opt := fun (k : String) => match getBool c k with | .ok b => b | .error _ => true
    pure ⟨opt "skipSelf", opt "checkDirs", opt "dotRoot", opt "checkGlobs", opt "resolve"⟩

def reject (phase : String) (ks : List Kind) : Json :=
  Json.mkObj [("verdict", Json.str "reject"), ("phase", Json.str phase),
    ("kinds", Json.arr (ks.map (fun k => Json.str (kindName k))).toArray)]

/-- {"op":"analysis.analyze","ws":..,"pkgs":[..],"cfg":{..}?} →
    {"verdict":"accept"} | {"verdict":"reject","phase":"nodemap|graph|constraints","kinds":[..]} -/
def analyzeH : Handler := fun j => do
  let ws ← getBytes j "ws"
  let cfg ← getCfg j
  let ps ← (← getArr j "pkgs").toList.mapM getPkg
  -- the same three stages as `analyzeWith`, reporting all constraint errors
  match buildNodeMap ps with
  | none => pure (reject "nodemap" [.duplicate])
  | some ns =>
    match buildGraph cfg ws ns with
    | some k => pure (reject "graph" [k])
    | none =>
      match constraintErrors cfg ws ns with
      | [] =>
        match analyzeWith cfg ws ps with
        | .accept => pure (Json.mkObj [("verdict", Json.str "accept")])
        | .reject k => pure (reject "inconsistent" [k])
      | ks => pure (reject "constraints" ks)

/-- {"op":"analysis.findcycle","nodes":[label..],"edges":[[from,to]..]} → {"cycle":[label..]} | {"cycle":null} -/
def findCycleH : Handler := fun j => do
  let nodes ← getLabels j "nodes"
  let es ← (← getArr j "edges").toList.mapM fun e => do
    let a ← e.getArr?
    if h : a.size = 2 then pure ((← getLabel a[0]), (← getLabel a[1])) else throw "edge"
  let succ := fun (l : Label) => (es.filter (fun e => e.1 == l)).map (·.2)
  match findCycleG nodes succ with
  | .ok _ => pure (Json.mkObj [("cycle", Json.null)])
  | .cycle c => pure (Json.mkObj [("cycle", Json.arr (c.map jLabel).toArray)])
  | .fuel => pure (Json.mkObj [("cycle", Json.str "fuel")])

def cleanH : Handler := fun j => do
  pure (Json.mkObj [("r", jBytes (Paths.clean (← getBytes j "p")))])

def joinH : Handler := fun j => do
  pure (Json.mkObj [("r", jBytes (Paths.join (← getBytesList j "elems")))])

/-- {"op":"analysis.pathfn","fn":"within|overlap|escape|withinws|cleanout", args..} → {"r":..} -/
def pathFnH : Handler := fun j => do
  let fn ← getStr j "fn"
  let cfg ← getCfg j
  match fn with
  | "within" => pure (Json.mkObj [("r", Json.bool (Paths.pathWithin cfg.dotRoot cfg.resolve (← getBytes j "p") (← getBytes j "d")))])
  | "overlap" => pure (Json.mkObj [("r", Json.bool (Paths.pathsOverlap cfg.dotRoot cfg.resolve (← getBytes j "p") (← getBytes j "d")))])
  | "escape" => pure (Json.mkObj [("r", Json.bool (Paths.triesToEscape (← getBytes j "p")))])
  | "withinws" => pure (Json.mkObj [("r", Json.bool (Paths.isWithinWorkspace (← getBytes j "ws") (← getBytes j "pkg") (← getBytes j "rel")))])
  | "resolveout" => pure (Json.mkObj [("r", jBytes (Paths.resolvedOutputPath (← getBytes j "ws") (← getBytes j "pkg") (← getBytes j "out")))])
  | "cleanout" => pure (Json.mkObj [("r", jBytes (Paths.cleanOutputPath (← getBytes j "pkg") (← getBytes j "out")))])
  | _ => throw ("unknown fn " ++ fn)

/-- nodes of a bare dependency graph: {"label":{..},"deps":[..]} (all targets) -/
def getBareNodes (j : Json) : Except String (List Node) := do
  (← getArr j "nodes").toList.mapM fun n => do
    let l ← getLabel (← n.getObjVal? "label")
    let deps ← getLabels n "deps"
    pure (Node.target ⟨l, deps, [], [], [], false, true⟩)

/-- {"op":"analysis.ancestors","nodes":[..],"queries":[label..]} → {"sets":[[label..]..]} -/
def ancestorsH : Handler := fun j => do
  let ns ← getBareNodes j
  let qs ← getLabels j "queries"
  -- one memo table shared by all queries, as in detectOutputConflicts
  let (sets, _) := qs.foldl (fun (acc : List Json × Cache) q =>
    let r := getAncestorSet ns acc.2 q
    (acc.1 ++ [Json.arr (r.1.map jLabel).toArray], r.2)) ([], [])
  pure (Json.mkObj [("sets", Json.arr sets.toArray)])

/-- {"op":"analysis.ordered","nodes":[..],"pairs":[[a,b]..]} → {"r":[bool..]} -/
def orderedH : Handler := fun j => do
  let ns ← getBareNodes j
  let cfg ← getCfg j
  let ps ← (← getArr j "pairs").toList.mapM fun e => do
    let a ← e.getArr?
    if h : a.size = 2 then pure ((← getLabel a[0]), (← getLabel a[1])) else throw "pair"
  let (rs, _) := ps.foldl (fun (acc : List Json × Cache) (ab : Label × Label) =>
    let r := orderedC cfg ns acc.2 ab.1 ab.2
    (acc.1 ++ [Json.bool r.1], r.2)) ([], [])
  pure (Json.mkObj [("r", Json.arr rs.toArray)])

def handlers : List (String × Handler) :=
  [("analysis.analyze", analyzeH), ("analysis.findcycle", findCycleH),
   ("analysis.pathfn", pathFnH), ("analysis.ancestors", ancestorsH), ("analysis.ordered", orderedH),
   ("paths.clean", cleanH), ("paths.join", joinH)]

end Grog.Drv.Analysis
