import GrogModel.Drv.Proto
import GrogModel.Query
open Lean

namespace Grog.Drv.Graph

def getEdges (j : Json) (k : String) : Except String (List Edge) := do
  let a ← getArr j k
  a.toList.mapM (fun e => do
    let p ← e.getArr?
    if p.size != 2 then throw "edge must be a pair"
    let x ← p[0]!.getNat?
    let y ← p[1]!.getNat?
    pure (x, y))

def getNatList (j : Json) (k : String) : Except String (List Nat) := do
  let a ← getArr j k
  a.toList.mapM (fun e => e.getNat?)

def jNat (n : Nat) : Json := Json.num (JsonNumber.fromNat n)
def jNats (l : List Nat) : Json := Json.arr (l.map jNat).toArray

def sortNats (l : List Nat) : List Nat := l.mergeSort (fun a b => a ≤ b)

def getNode (j : Json) : Except String Node := do
  let pkg ← getBytes j "pkg"
  let name ← getBytes j "name"
  let isT ← getBool j "target"
  let tags ← getBytesList j "tags"
  let plats ← getBytesList j "platforms"
  let bin ← getBool j "bin"
  pure ⟨⟨pkg, name⟩, isT, tags, plats, bin⟩

def getNodes (j : Json) : Except String (List Node) := do
  let a ← getArr j "nodes"
  a.toList.mapM getNode

def getType (j : Json) : Except String TypeSel := do
  match (← getStr j "type") with
  | "test" => pure .testOnly
  | "no_test" => pure .nonTestOnly
  | "bin_output" => pure .binOutput
  | "all" => pure .all
  | s => throw ("bad type " ++ s)

def fail (e : String) : Json := Json.mkObj [("ok", Json.bool false), ("err", Json.str e)]

/-- {"op":"graph.trav","n":N,"edges":[[a,b],..],"q":[{"k":"desc|anc|deps|rdeps","v":i},..]}
    → {"ok":true,"res":[[sorted node list],..],"cost":[..],"edges":E}   (cost: model only) -/
def trav : Handler := fun j => do
  let n ← getNat j "n"
  let raw ← getEdges j "edges"
  let qs ← getArr j "q"
  match addEdges n [] raw with
  | none => pure (fail "addedge")
  | some es =>
    let rs ← qs.toList.mapM (fun q => do
      let k ← getStr q "k"
      let v ← getNat q "v"
      match k with
      | "desc" => let t := descendantsV es v; pure (t.nodes, t.cost)
      | "anc" => let t := ancestorsV es v; pure (t.nodes, t.cost)
      | "ancset" => let t := ancestorSetV es v; pure (t.nodes, t.cost)
      | "deps" => pure (preds es v, 0)
      | "rdeps" => pure (succs es v, 0)
      | _ => throw "bad query kind")
    pure (Json.mkObj [("ok", Json.bool true),
      ("res", Json.arr (rs.map (fun r => jNats (sortNats r.1))).toArray),
      ("cost", jNats (rs.map (·.2))), ("edges", jNat es.length)])

/-- path-enumerating versions (the tree before the fix), for the regression replay:
    {"op":"graph.paths","n":N,"edges":..,"q":[..]} → {"ok":true,"res":[[sorted multiset],..],"cost":[..]} -/
def paths : Handler := fun j => do
  let n ← getNat j "n"
  let raw ← getEdges j "edges"
  let qs ← getArr j "q"
  match addEdges n [] raw with
  | none => pure (fail "addedge")
  | some es =>
    let rs ← qs.toList.mapM (fun q => do
      let k ← getStr q "k"
      let v ← getNat q "v"
      match k with
      | "desc" => pure (descendantsPaths es n v)
      | "anc" => pure (ancestorsPaths es n v)
      | _ => throw "bad query kind")
    pure (Json.mkObj [("ok", Json.bool true),
      ("res", Json.arr (rs.map (fun r => jNats (sortNats r))).toArray),
      ("cost", jNats (rs.map (fun r => r.length + 1)))])

structure SelReq where
  g : BuildGraph
  s : Selector
  h : Host

def getSelReq (j : Json) : Except String (Option SelReq) := do
  let nodes ← getNodes j
  let raw ← getEdges j "edges"
  let cur ← getBytes j "cur"
  let pats ← getBytesList j "patterns"
  let tags ← getBytesList j "tags"
  let ex ← getBytesList j "exclude"
  let typ ← getType j
  let plat ← getBytes j "platform"
  let allp ← getBool j "all_platforms"
  match addEdges nodes.length [] raw with
  | none => throw "addedge"
  | some es =>
    match (if pats.isEmpty then some [] else parsePatterns cur pats) with
    | none => pure none
    | some ps => pure (some ⟨⟨nodes, es⟩, ⟨ps, tags, ex, typ⟩, ⟨plat, allp⟩⟩)

/-- {"op":"graph.select", nodes, edges, cur, patterns, tags, exclude, type, platform, all_platforms, "order":[..]}
    → {"ok":true,"selected":[..],"count":k,"skipped":m,"cost":c} | {"ok":false,"err":"platform"|"pattern"} -/
def select : Handler := fun j => do
  match (← getSelReq j) with
  | none => pure (fail "pattern")
  | some r =>
    let order ← (getNatList j "order" <|> pure (List.range r.g.nodes.length))
    match selectForBuild r.g r.s r.h order with
    | .ok sel cost =>
      pure (Json.mkObj [("ok", Json.bool true), ("selected", jNats (sortNats sel)),
        ("count", jNat (r.g.countTargets sel)), ("skipped", jNat (r.g.skipped r.s r.h)),
        ("cost", jNat cost)])
    | .platformError _ _ => pure (fail "platform")
    | .fuel => pure (fail "fuel")

/-- {"op":"graph.query", <as graph.select>, "q":[{"k":"deps"|"rdeps","t":bool,"v":i} | {"k":"list"} |
      {"k":"owners","files":[..]}], "inputs":[[..],..]}
    → {"ok":true,"out":[[lines],..]} -/
def query : Handler := fun j => do
  match (← getSelReq j) with
  | none => pure (fail "pattern")
  | some r =>
    let inputsArr ← (do
      let a ← getArr j "inputs"
      a.toList.mapM (fun x => do
        let l ← x.getArr?
        l.toList.mapM asBytes)) <|> pure []
    let inputs := fun i => inputsArr.getD i []
    let qs ← getArr j "q"
    let qsel := querySelector r.s.tags r.s.excludeTags r.s.typ
    let outs ← qs.toList.mapM (fun q => do
      let k ← getStr q "k"
      match k with
      | "deps" => pure (depsCmd r.g qsel r.h (← getBool q "t") (← getNat q "v"))
      | "rdeps" => pure (rdepsCmd r.g qsel r.h (← getBool q "t") (← getNat q "v"))
      | "list" => pure (listCmd r.g r.s r.h)
      | "owners" => pure (ownersCmd r.g inputs (← getBytesList q "files"))
      | "changes" => pure (changesCmd r.g qsel r.h inputs (← getBytesList q "files") (← getBool q "t"))
      | _ => throw "bad query kind")
    pure (Json.mkObj [("ok", Json.bool true), ("out", Json.arr (outs.map jBytesList).toArray)])

def handlers : List (String × Handler) :=
  [("graph.trav", trav), ("graph.paths", paths), ("graph.select", select), ("graph.query", query)]

end Grog.Drv.Graph
