import GrogModel.Drv.Proto
import GrogModel.Build
import GrogModel.DirVal
open Lean

/-
  Driver op `build.simulate`: a workspace and a history → per build: exit class, executed commands,
  per-target status, content of the watched paths, taints left.
  Concrete instance of the parameters: keys are a length-framed serialisation of the key-state
  (injective), `run` is the function the generated shell commands compute.
-/
namespace Grog.Drv.Build
open Grog Grog.Exec Grog.Build Grog.Drv

def str (s : String) : Bytes := bytesOfString s

def natBytes (n : Nat) : Bytes := str (toString n)

/-- `len:bytes` -/
def fr (b : Bytes) : Bytes := natBytes b.length ++ [58] ++ b

def frList (l : List Bytes) : Bytes := fr (l.foldl (fun acc x => acc ++ fr x) [])

def serOutDef (o : OutDef) : Bytes := (if o.dir then [100] else [102]) ++ o.path

def serOuts (l : Outs) : Bytes := frList (l.map fun ov => fr (serOutDef ov.1) ++ fr ov.2)

def serOH : OH Bytes → Bytes
  | .outs l => [111] ++ serOuts l
  | .self k => [115] ++ k
  | .nocache l => [110] ++ serOuts l

def serOpt : Option Val → Bytes
  | none => [48]
  | some v => [49] ++ v

def serCmd (c : Cmd) : Bytes :=
  frList [c.salt, natBytes c.beh, frList (c.writes.map serOutDef),
          frList (c.sets.map fun pv => fr pv.1 ++ fr pv.2), (if c.split then [49] else [48])]

def serKey (ks : KeyState Bytes) : Bytes :=
  frList [ks.label, serCmd ks.cmd,
          frList (ks.inputs.map fun pv => fr pv.1 ++ fr (serOpt pv.2)),
          frList (ks.outs.map serOutDef),
          frList (ks.deps.map fun d => fr d.1 ++ fr (serOH d.2)),
          frList (ks.fp.map fun kv => fr kv.1 ++ fr kv.2),
          ks.plat]

/-! the function computed by the generated commands -/

def nl : Bytes := [10]

/-- the part of every output body that comes from what the command reads; `none` if a dependency
    output is missing (the command's `cat` fails) -/
def common (v : View) : Option Bytes :=
  let ins := v.inputs.foldl (fun acc pv => match pv.2 with
    | some c => acc ++ str "I " ++ pv.1 ++ nl ++ c
    | none => acc) []
  v.deps.foldl (fun acc pv => match acc, pv.2 with
    | some a, some c => some (a ++ str "D " ++ pv.1 ++ nl ++ (match DirVal.decTree c with
        | some t => DirVal.listing t
        | none => c))
    | _, _ => none) (some ins)

/-- `/` → `_` -/
def flat (p : Bytes) : Bytes := p.map (fun c => if c == 47 then 95 else c)

/-- value of the directory a command writes: `a.txt`, `sub/b.txt`, a symlink `link -> a.txt` and one entry
    `in/<flattened path>` per input file it read (so the set of entries follows the inputs) -/
def pad3 (n : Nat) : Bytes :=
  [UInt8.ofNat (48 + n / 100 % 10), UInt8.ofNat (48 + n / 10 % 10), UInt8.ofNat (48 + n % 10)]

/-- a directory output whose name ends in `bulk` additionally holds `bulkN` small files (a load that takes a while) -/
def bulkN : Nat := 600

def bulkEntries (p : Path) : List (Bytes × DirVal.Ent) :=
  if (str "bulk").isSuffixOf p then
    (List.range bulkN).map fun i => (str "./many/k" ++ pad3 i, DirVal.Ent.file (pad3 i ++ nl))
  else []

def dirVal (p : Path) (b : Bytes) (ins : List (Path × Val)) : Val :=
  let fixed : List (Bytes × DirVal.Ent) :=
    [(str "./a.txt", .file b), (str "./empty.txt", .file []), (str "./link", .link (str "a.txt")),
     (str "./sub/b.txt", .file (b ++ str "+" ++ nl))]
  let per := ins.map fun pc => (str "./in/" ++ flat pc.1, DirVal.Ent.file pc.2)
  DirVal.encTree (DirVal.ofList (fixed ++ per ++ bulkEntries p))

/-- a file output whose name ends in `.empty` is a stamp: the command creates it empty -/
def isStamp (p : Path) : Bool := (str ".empty").isSuffixOf p

def body (salt : Bytes) (o : OutDef) (com : Bytes) (ins : List (Path × Val)) : Val :=
  let b := str "T " ++ salt ++ str " " ++ o.path ++ nl ++ com
  if o.dir then dirVal o.path b ins else if isStamp o.path then [] else b

def presentInputs (v : View) : List (Path × Val) :=
  v.inputs.filterMap fun pv => pv.2.map fun c => (pv.1, c)

/-- splitter: output k = "S\n" ++ content of input (k mod n) -/
def splitOuts (ws : List OutDef) (ins : List (Path × Val)) : Outs :=
  (ws.zip (List.range ws.length)).map fun oi =>
    (oi.1, str "S" ++ nl ++ (match ins[oi.2 % ins.length]? with | some pc => pc.2 | none => []))

def concreteRun (c : Cmd) (v : View) : RunRes :=
  if c.beh != 0 then { exit0 := false, outs := [], sets := [] } else
  match common v with
  | none => { exit0 := false, outs := [], sets := [] }
  | some com =>
    let ins := presentInputs v
    if c.split && !ins.isEmpty then { exit0 := true, outs := splitOuts c.writes ins, sets := c.sets }
    else { exit0 := true, outs := c.writes.map (fun o => (o, body c.salt o com ins)), sets := c.sets }

/-! JSON decoding -/

def getBytesPairs (j : Json) (k : String) : Except String (List (Bytes × Bytes)) := do
  let a ← getArr j k
  a.toList.mapM fun e => do
    let p ← e.getArr?
    if h : p.size = 2 then
      pure (← asBytes p[0], ← asBytes p[1])
    else throw "pair expected"

def getBytesOptPairs (j : Json) (k : String) : Except String (List (Bytes × Option Bytes)) := do
  let a ← getArr j k
  a.toList.mapM fun e => do
    let p ← e.getArr?
    if h : p.size = 2 then
      let v : Option Bytes ← (if p[1].isNull then pure none else do pure (some (← asBytes p[1])))
      pure (← asBytes p[0], v)
    else throw "pair expected"

def getOutDefs (j : Json) (k : String) : Except String (List OutDef) := do
  let a ← getArr j k
  a.toList.mapM fun e => do
    pure { dir := ← getBool e "dir", path := ← getBytes e "path" }

def getCmd (j : Json) : Except String Cmd := do
  pure { salt := ← getBytes j "salt", beh := ← getNat j "beh", writes := ← getOutDefs j "writes",
         sets := ← getBytesPairs j "sets", split := ← getBool j "split" }

def getTarget (j : Json) : Except String Target := do
  let c ← j.getObjVal? "cmd"
  pure { label := ← getBytes j "label", cmd := ← getCmd c, inputs := ← getBytesList j "inputs",
         outs := ← getOutDefs j "outs", deps := ← getBytesList j "deps", hdeps := ← getBytesList j "hdeps",
         ldeps := ← getBytesList j "ldeps", fp := ← getBytesPairs j "fp", plat := ← getBytes j "plat",
         noCache := ← getBool j "noCache", checks := ← getBytesOptPairs j "checks" }

/-- tampering with a directory output in place (only if a directory is there) -/
def tamperDir (v : Val) (op : String) : Val :=
  match DirVal.decTree v with
  | none => v
  | some t =>
    let t' := match op with
      | "extra" => DirVal.put t (str "./zz_stale.txt") (.file (str "stale" ++ nl))
      | "extrasub" => DirVal.put t (str "./in/zz_stale.in") (.file (str "stale" ++ nl))
      | "mod" => DirVal.put t (str "./a.txt") (.file (str "modified" ++ nl))
      | "rmfile" => DirVal.remove t (str "./sub/b.txt")
      | _ => t
    DirVal.encTree t'

def applyTampers (fs : FS) : List (Path × String) → FS
  | [] => fs
  | po :: l => applyTampers (match fs po.1 with
      | some v => upd fs po.1 (some (tamperDir v po.2))
      | none => fs) l

def defsOf (ts : List Target) : Defs := fun l => ts.find? (fun t => t.label == l)

structure BuildReq where
  cfg : Cfg
  order : List Lbl
  watch : List Path
  labels : List Lbl

inductive DStep where
  | plain (s : Step)
  | build (b : BuildReq)
  | dropAt (p : Path)
  | editT (defs : Defs) (writes : List (Path × Option Val)) (tampers : List (Path × String))

def getStep (j : Json) : Except String DStep := do
  let k ← getStr j "k"
  match k with
  | "edit" =>
    let ts ← (← getArr j "targets").toList.mapM getTarget
    let ws ← getBytesOptPairs j "writes"
    let tj ← getArr j "tampers"
    let tampers ← tj.toList.mapM fun e => do pure ((← getBytes e "path"), (← getStr e "op"))
    pure (.editT (defsOf ts) ws tampers)
  | "taint" => pure (.plain (.taint (← getBytesList j "labels")))
  | "drop" => pure (.dropAt (← getBytes j "path"))
  | "build" =>
    pure (.build { cfg := { enableCache := ← getBool j "enableCache", minimal := ← getBool j "minimal" },
                   order := ← getBytesList j "order", watch := ← getBytesList j "watch",
                   labels := ← getBytesList j "labels" })
  | _ => throw ("unknown step kind " ++ k)

def jOpt : Option Val → Json
  | none => Json.null
  | some v => jBytes v

def simulate : Handler := fun j => do
  let fxj ← j.getObjVal? "fx"
  let fx : Fixes := { gateChecks := ← getBool fxj "gateChecks", syncTaint := ← getBool fxj "syncTaint",
                      rerunOnce := ← getBool fxj "rerunOnce", minValidate := ← getBool fxj "minValidate", loadFault := ← getBool fxj "loadFault",
                      checkDeps := (fxj.getObjValAs? Bool "checkDeps").toOption.getD true }
  let P : Params Bytes := { K := serKey, run := concreteRun, fx := fx }
  let files ← getBytesPairs j "files"
  let steps ← (← getArr j "steps").toList.mapM getStep
  let fs0 : FS := fun p => (files.find? (fun pv => pv.1 == p)).map (·.2)
  let w0 : World Bytes := { defs := fun _ => none, fs := fs0, cache := emptyCache }
  let (_, outs) := steps.foldl (fun (acc : World Bytes × List Json) st =>
    let (w, outs) := acc
    match st with
    | .plain s => (step P w s, outs)
    | .editT defs ws tampers =>
      let w1 := step P w (.edit defs ws)
      ({ w1 with fs := applyTampers w1.fs tampers }, outs)
    | .dropAt p => (match w.fs p with
        | some v => (step P w (.dropBlob v), outs)
        | none => (w, outs))
    | .build b =>
      let s := Grog.Build.build P b.cfg w b.order
      let o := Json.mkObj [
        ("ok", Json.bool (succeeded s b.order)),
        ("executed", jBytesList (executed s)),
        ("status", Json.arr (b.order.map (fun l => Json.arr #[jBytes l, Json.bool (match s.st l with
            | some ts => ts.ok | none => false)])).toArray),
        ("fs", Json.arr (b.watch.map (fun p => Json.arr #[jBytes p, jOpt (s.fs p)])).toArray),
        ("tainted", jBytesList (b.labels.filter (fun l => s.cache.taint l)))]
      ({ w with fs := s.fs, cache := s.cache }, outs ++ [o])) (w0, [])
  pure (Json.mkObj [("builds", Json.arr outs.toArray)])

def handlers : List (String × Handler) := [("build.simulate", simulate)]

end Grog.Drv.Build
