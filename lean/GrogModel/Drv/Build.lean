import GrogModel.Drv.Proto
import GrogModel.Build
open Lean

/-
  Driver op `build.simulate`: a workspace and a history → per build: exit class, executed commands,
  per-target status, content of the watched paths, taints left.
  Concrete instance of the parameters: keys are a length-framed serialisation of the key-state
  (injective), `run` is the function the generated shell commands compute.
-/
namespace Grog.Drv.Build
open Grog Grog.Exec Grog.Build Grog.Drv

def str (s : String) : Bytes := bytesOfString s

def natBytes (n : Nat) : Bytes := str (toString n)

/-- `len:bytes` -/
def fr (b : Bytes) : Bytes := natBytes b.length ++ [58] ++ b

def frList (l : List Bytes) : Bytes := fr (l.foldl (fun acc x => acc ++ fr x) [])

def serOutDef (o : OutDef) : Bytes := (if o.dir then [100] else [102]) ++ o.path

def serOuts (l : Outs) : Bytes := frList (l.map fun ov => fr (serOutDef ov.1) ++ fr ov.2)

def serOH : OH Bytes → Bytes
  | .outs l => [111] ++ serOuts l
  | .self k => [115] ++ k
  | .nocache l => [110] ++ serOuts l

def serOpt : Option Val → Bytes
  | none => [48]
  | some v => [49] ++ v

def serCmd (c : Cmd) : Bytes :=
  frList [c.salt, natBytes c.beh, frList (c.writes.map serOutDef),
          frList (c.sets.map fun pv => fr pv.1 ++ fr pv.2)]

def serKey (ks : KeyState Bytes) : Bytes :=
  frList [ks.label, serCmd ks.cmd,
          frList (ks.inputs.map fun pv => fr pv.1 ++ fr (serOpt pv.2)),
          frList (ks.outs.map serOutDef),
          frList (ks.deps.map serOH),
          frList (ks.fp.map fun kv => fr kv.1 ++ fr kv.2),
          ks.plat]

/-! the function computed by the generated commands -/

def nl : Bytes := [10]

/-- the part of every output body that comes from what the command reads; `none` if a dependency
    output is missing (the command's `cat` fails) -/
def common (v : View) : Option Bytes :=
  let ins := v.inputs.foldl (fun acc pv => match pv.2 with
    | some c => acc ++ str "I " ++ pv.1 ++ nl ++ c
    | none => acc) []
  v.deps.foldl (fun acc pv => match acc, pv.2 with
    | some a, some c => some (a ++ str "D " ++ pv.1 ++ nl ++ c)
    | _, _ => none) (some ins)

def body (salt : Bytes) (o : OutDef) (com : Bytes) : Val :=
  let b := str "T " ++ salt ++ str " " ++ o.path ++ nl ++ com
  if o.dir then str "F ./a.txt" ++ nl ++ b ++ str "F ./sub/b.txt" ++ nl ++ b ++ str "+" ++ nl else b

def concreteRun (c : Cmd) (v : View) : RunRes :=
  if c.beh != 0 then { exit0 := false, outs := [], sets := [] } else
  match common v with
  | none => { exit0 := false, outs := [], sets := [] }
  | some com => { exit0 := true, outs := c.writes.map (fun o => (o, body c.salt o com)), sets := c.sets }

/-! JSON decoding -/

def getBytesPairs (j : Json) (k : String) : Except String (List (Bytes × Bytes)) := do
  let a ← getArr j k
  a.toList.mapM fun e => do
    let p ← e.getArr?
    if h : p.size = 2 then
      pure (← asBytes p[0], ← asBytes p[1])
    else throw "pair expected"

def getBytesOptPairs (j : Json) (k : String) : Except String (List (Bytes × Option Bytes)) := do
  let a ← getArr j k
  a.toList.mapM fun e => do
    let p ← e.getArr?
    if h : p.size = 2 then
      let v : Option Bytes ← (if p[1].isNull then pure none else do pure (some (← asBytes p[1])))
      pure (← asBytes p[0], v)
    else throw "pair expected"

def getOutDefs (j : Json) (k : String) : Except String (List OutDef) := do
  let a ← getArr j k
  a.toList.mapM fun e => do
    pure { dir := ← getBool e "dir", path := ← getBytes e "path" }

def getCmd (j : Json) : Except String Cmd := do
  pure { salt := ← getBytes j "salt", beh := ← getNat j "beh", writes := ← getOutDefs j "writes",
         sets := ← getBytesPairs j "sets" }

def getTarget (j : Json) : Except String Target := do
  let c ← j.getObjVal? "cmd"
  pure { label := ← getBytes j "label", cmd := ← getCmd c, inputs := ← getBytesList j "inputs",
         outs := ← getOutDefs j "outs", deps := ← getBytesList j "deps", hdeps := ← getBytesList j "hdeps",
         ldeps := ← getBytesList j "ldeps", fp := ← getBytesPairs j "fp", plat := ← getBytes j "plat",
         noCache := ← getBool j "noCache", checks := ← getBytesOptPairs j "checks" }

def defsOf (ts : List Target) : Defs := fun l => ts.find? (fun t => t.label == l)

structure BuildReq where
  cfg : Cfg
  order : List Lbl
  watch : List Path
  labels : List Lbl

inductive DStep where
  | plain (s : Step)
  | build (b : BuildReq)
  | dropAt (p : Path)

def getStep (j : Json) : Except String DStep := do
  let k ← getStr j "k"
  match k with
  | "edit" =>
    let ts ← (← getArr j "targets").toList.mapM getTarget
    pure (.plain (.edit (defsOf ts) (← getBytesOptPairs j "writes")))
  | "taint" => pure (.plain (.taint (← getBytesList j "labels")))
  | "drop" => pure (.dropAt (← getBytes j "path"))
  | "build" =>
    pure (.build { cfg := { enableCache := ← getBool j "enableCache", minimal := ← getBool j "minimal" },
                   order := ← getBytesList j "order", watch := ← getBytesList j "watch",
                   labels := ← getBytesList j "labels" })
  | _ => throw ("unknown step kind " ++ k)

def jOpt : Option Val → Json
  | none => Json.null
  | some v => jBytes v

def simulate : Handler := fun j => do
  let fxj ← j.getObjVal? "fx"
  let fx : Fixes := { gateChecks := ← getBool fxj "gateChecks", syncTaint := ← getBool fxj "syncTaint",
                      rerunOnce := ← getBool fxj "rerunOnce", minValidate := ← getBool fxj "minValidate" }
  let P : Params Bytes := { K := serKey, run := concreteRun, fx := fx }
  let files ← getBytesPairs j "files"
  let steps ← (← getArr j "steps").toList.mapM getStep
  let fs0 : FS := fun p => (files.find? (fun pv => pv.1 == p)).map (·.2)
  let w0 : World Bytes := { defs := fun _ => none, fs := fs0, cache := emptyCache }
  let (_, outs) := steps.foldl (fun (acc : World Bytes × List Json) st =>
    let (w, outs) := acc
    match st with
    | .plain s => (step P w s, outs)
    | .dropAt p => (match w.fs p with
        | some v => (step P w (.dropBlob v), outs)
        | none => (w, outs))
    | .build b =>
      let s := Grog.Build.build P b.cfg w b.order
      let o := Json.mkObj [
        ("ok", Json.bool (succeeded s b.order)),
        ("executed", jBytesList (executed s)),
        ("status", Json.arr (b.order.map (fun l => Json.arr #[jBytes l, Json.bool (match s.st l with
            | some ts => ts.ok | none => false)])).toArray),
        ("fs", Json.arr (b.watch.map (fun p => Json.arr #[jBytes p, jOpt (s.fs p)])).toArray),
        ("tainted", jBytesList (b.labels.filter (fun l => s.cache.taint l)))]
      ({ w with fs := s.fs, cache := s.cache }, outs ++ [o])) (w0, [])
  pure (Json.mkObj [("builds", Json.arr outs.toArray)])

def handlers : List (String × Handler) := [("build.simulate", simulate)]

end Grog.Drv.Build
