import GrogModel.Drv.Proto
import GrogModel.Loader
import GrogModel.Lock
open Lean

namespace Grog.Drv.LockLoad
open Grog Grog.Loader

/-! ### JSON ↔ loader types -/

def optField (j : Json) (k : String) : Option Json :=
  match j.getObjVal? k with
  | .ok v => if v.isNull then none else some v
  | .error _ => none

def bytesList (j : Json) : Except String (List Bytes) := do
  let a ← j.getArr?
  a.toList.mapM asBytes

def fBytes (j : Json) (k : String) : Except String Bytes :=
  match optField j k with
  | none => pure []
  | some v => asBytes v

def fList (j : Json) (k : String) : Except String (List Bytes) :=
  match optField j k with
  | none => pure []
  | some v => bytesList v

def fOptList (j : Json) (k : String) : Except String (Option (List Bytes)) :=
  match optField j k with
  | none => pure none
  | some v => do pure (some (← bytesList v))

def fKV (j : Json) (k : String) : Except String KV :=
  match optField j k with
  | none => pure []
  | some v => do
    let a ← v.getArr?
    a.toList.mapM (fun p => do
      let q ← p.getArr?
      match q.toList with
      | [x, y] => pure ((← asBytes x), (← asBytes y))
      | _ => throw "kv pair expected")

def annOfJson (j : Json) : Except String Annotation := do
  pure { name := ← fBytes j "name", deps := ← fList j "deps", inputs := ← fList j "inputs",
         tags := ← fList j "tags", fingerprint := ← fKV j "fingerprint", env := ← fKV j "env",
         timeout := ← fBytes j "timeout", platforms := ← fOptList j "platforms",
         outputs := ← fList j "outputs" }

def dtoTargetOfJson (j : Json) : Except String TargetDTO := do
  pure { name := ← fBytes j "name", command := ← fBytes j "command", deps := ← fList j "deps",
         inputs := ← fList j "inputs", excludes := ← fList j "excludes", outputs := ← fList j "outputs",
         binOutput := ← fBytes j "bin_output", checks := ← fKV j "checks", tags := ← fList j "tags",
         fingerprint := ← fKV j "fingerprint", env := ← fKV j "env",
         platforms := ← fOptList j "platforms", timeout := ← fBytes j "timeout" }

def dtoOfJson (j : Json) : Except String PackageDTO := do
  let ts ← match optField j "targets" with
    | none => pure []
    | some v => do (← v.getArr?).toList.mapM (fun t =>
        if t.isNull then pure none else do pure (some (← dtoTargetOfJson t)))
  let as ← match optField j "aliases" with
    | none => pure []
    | some v => do (← v.getArr?).toList.mapM (fun a =>
        if a.isNull then pure none else do
        pure (some (AliasDTO.mk (← fBytes a "name") (← fBytes a "actual"))))
  pure { targets := ts, aliases := as, defaultPlatforms := ← fOptList j "default_platforms" }

def jKV (kv : KV) : Json := Json.arr (kv.map (fun p => Json.arr #[jBytes p.1, jBytes p.2])).toArray
def jOptList : Option (List Bytes) → Json
  | none => Json.null
  | some l => jBytesList l

def jDtoTarget (t : TargetDTO) : Json :=
  Json.mkObj [("name", jBytes t.name), ("command", jBytes t.command), ("deps", jBytesList t.deps),
    ("inputs", jBytesList t.inputs), ("excludes", jBytesList t.excludes), ("outputs", jBytesList t.outputs),
    ("bin_output", jBytes t.binOutput), ("checks", jKV t.checks), ("tags", jBytesList t.tags),
    ("fingerprint", jKV t.fingerprint), ("env", jKV t.env), ("platforms", jOptList t.platforms),
    ("timeout", jBytes t.timeout)]

def jLabel (l : Label) : Json := Json.arr #[jBytes l.pkg, jBytes l.name]

def jTarget (t : Target) : Json :=
  Json.mkObj [("label", jLabel t.label), ("command", jBytes t.command),
    ("deps", Json.arr (t.deps.map jLabel).toArray), ("inputs", jBytesList t.inputs),
    ("unresolved", jBytesList t.unresolved), ("excludes", jBytesList t.excludes),
    ("outputs", Json.arr (t.outputs.map (fun o => Json.arr #[jBytes o.typ, jBytes o.ident])).toArray),
    ("bin_output", Json.arr #[jBytes t.binOutput.typ, jBytes t.binOutput.ident]),
    ("platforms", jOptList t.platforms), ("checks", jKV t.checks), ("tags", jBytesList t.tags),
    ("fingerprint", jKV t.fingerprint), ("env", jKV t.env), ("timeout", Json.str (toString t.timeout))]

def jAlias (a : Alias) : Json := Json.mkObj [("label", jLabel a.label), ("actual", jLabel a.actual)]

def jScanErr : Option ScanErr → Json
  | none => Json.null
  | some (.yaml _ _) => Json.str "yaml"
  | some (.noColon _) => Json.str "nocolon"
  | some .tooLong => Json.str "toolong"
  | some .indexPanic => Json.str "panic"

def jErr : Err → Json
  | .badLabel => "label" | .dupLabel => "dup" | .glob => "glob" | .output => "output"
  | .binOutput => "binout" | .binNotFile => "binnotfile" | .timeout => "timeout" | .nilEntry => "nil" | .badName => "name"

/-- association table [[key, value|null], ...] → lookup (missing key = none) -/
def tableOf {α} (j : Json) (k : String) (f : Json → Except String α) :
    Except String (Bytes → Option (Option α)) := do
  match optField j k with
  | none => pure (fun _ => none)
  | some v =>
    let a ← v.getArr?
    let entries ← a.toList.mapM (fun p => do
      let q ← p.getArr?
      match q.toList with
      | [x, y] =>
        let key ← asBytes x
        if y.isNull then pure (key, (none : Option α)) else pure (key, some (← f y))
      | _ => throw "table entry expected")
    pure (fun key => (entries.find? (fun e => e.1 = key)).map (·.2))

def flat {α} (t : Bytes → Option (Option α)) : Bytes → Option α := fun k => (t k).join

def versionOf (j : Json) : MkVersion :=
  match j.getObjValAs? String "v" with
  | .ok "v0" => .v0
  | _ => .cur

/-! ### handlers -/

/-- {"op":"loader.mk.blocks","text":..} → {"blocks":[..]} -/
def mkBlocksH : Handler := fun j => do
  let text ← getBytes j "text"
  pure (Json.mkObj [("blocks", jBytesList (mkBlocks .outside (scanLines text).1))])

/-- {"op":"loader.mk","text":..,"decode":[[content, ann|null]..],"v":"cur"|"v0"} -/
def mkH : Handler := fun j => do
  let text ← getBytes j "text"
  let dec ← tableOf j "decode" annOfJson
  let r := loadMakefile (flat dec) (versionOf j) text
  pure (Json.mkObj [("targets", Json.arr (r.targets.map jDtoTarget).toArray), ("found", Json.bool r.found),
    ("err", jScanErr r.err)])

/-- {"op":"loader.script","name":..,"text":..,"decode":[..]} -/
def scriptH : Handler := fun j => do
  let text ← getBytes j "text"
  let name ← getBytes j "name"
  let dec ← tableOf j "decode" annOfJson
  let r := loadScript (flat dec) name text
  pure (Json.mkObj [("target", match r.dto with | none => Json.null | some t => jDtoTarget t),
    ("matched", Json.bool r.matched), ("err", jScanErr r.err)])

def natOfJson (j : Json) : Except String Nat := do
  let s ← j.getStr?
  match s.toNat? with
  | some n => pure n
  | none => throw "nat expected"

def enrichOf (f : Json) : Except String (Bytes × Except Err Package) := do
  let key ← getBytes f "pkg"
  let dto ← dtoOfJson (← f.getObjVal? "dto")
  let globs ← tableOf f "globs" bytesList
  let durs ← tableOf f "durs" natOfJson
  pure (key, enrich (flat globs) (flat durs) key dto)

def jPackage (p : Package) : Json :=
  Json.mkObj [("path", jBytes p.path), ("targets", Json.arr (p.targets.map jTarget).toArray),
    ("aliases", Json.arr (p.aliases.map jAlias).toArray)]

/-- {"op":"loader.enrich","pkg":..,"dto":{..},"globs":[[pat,[..]|null]..],"durs":[[s,"ns"|null]..]} -/
def enrichH : Handler := fun j => do
  let (_, r) ← enrichOf j
  match r with
  | .error e => pure (Json.mkObj [("err", jErr e)])
  | .ok p => pure (Json.mkObj [("err", Json.null), ("package", jPackage p)])

def jNode : Node → Json
  | .target t => Json.mkObj [("target", jTarget t)]
  | .alias a => Json.mkObj [("alias", jAlias a)]

/-- {"op":"loader.graph","files":[{pkg,dto,globs,durs}..]} (files in arrival order)
    → {"err":kind|null,"stage":"enrich"|"merge", "nodes":[..]} -/
def graphH : Handler := fun j => do
  let fs ← getArr j "files"
  let es ← fs.toList.mapM enrichOf
  let stage := if es.any (fun e => match e.2 with | .error _ => true | .ok _ => false) then "enrich" else "merge"
  match loadWorkspace es with
  | .error e => pure (Json.mkObj [("err", jErr e), ("stage", stage)])
  | .ok ns => pure (Json.mkObj [("err", Json.null), ("nodes", Json.arr (ns.map jNode).toArray)])

/-! ### Starlark builtins -/

partial def svalOfJson (j : Json) : Except String SVal :=
  match j with
  | .null => pure .none
  | .bool b => pure (.bool b)
  | .num n => pure (if n.exponent == 0 then .int n.mantissa else .float)
  | .str s => pure (.str (bytesOfString s))
  | .arr a => do pure (.list (← a.toList.mapM svalOfJson))
  | .obj _ => do
    let d ← j.getObjVal? "d"
    let a ← d.getArr?
    let kvs ← a.toList.mapM (fun p => do
      let q ← p.getArr?
      match q.toList with
      | [k, v] => pure ((← svalOfJson k), (← svalOfJson v))
      | _ => throw "dict entry expected")
    pure (.dict kvs)

def tkeyOf : String → Option TKey
  | "name" => some .name | "command" => some .command | "dependencies" => some .deps | "inputs" => some .inputs
  | "exclude_inputs" => some .excludes | "outputs" => some .outputs | "bin_output" => some .binOutput
  | "output_checks" => some .checks | "tags" => some .tags | "fingerprint" => some .fingerprint
  | "platforms" => some .platforms | "environment_variables" => some .env | "timeout" => some .timeout
  | _ => none

def kwOfJson (j : Json) : Except String (List (String × SVal)) := do
  let a ← j.getArr?
  a.toList.mapM (fun p => do
    let q ← p.getArr?
    match q.toList with
    | [k, v] => pure ((← k.getStr?), (← svalOfJson v))
    | _ => throw "kwarg expected")

/-- {"op":"loader.star","calls":[{"fn":"target"|"alias","kw":[[keyword, value]..]}..]}
    → {"err":bool,"targets":[dto..],"aliases":[..]} (the file fails as soon as one call fails) -/
def starH : Handler := fun j => do
  let calls ← getArr j "calls"
  let mut ts : List Json := []
  let mut als : List Json := []
  for c in calls.toList do
    let fn ← getStr c "fn"
    let kw ← kwOfJson (← c.getObjVal? "kw")
    if fn == "target" then
      match starTarget (kw.map (fun p => (tkeyOf p.1, p.2))) with
      | .error _ => return Json.mkObj [("err", Json.bool true)]
      | .ok t => ts := ts ++ [jDtoTarget t]
    else
      match starAlias (kw.map (fun p => ((if p.1 == "name" then some true else if p.1 == "actual" then some false else none), p.2))) with
      | .error _ => return Json.mkObj [("err", Json.bool true)]
      | .ok a => als := als ++ [Json.mkObj [("name", jBytes a.name), ("actual", jBytes a.actual)]]
  pure (Json.mkObj [("err", Json.bool false), ("targets", Json.arr ts.toArray), ("aliases", Json.arr als.toArray)])

/-! ### lock protocol -/

def evOfJson (j : Json) : Except String Lock.Ev := do
  let a ← j.getArr?
  match a.toList with
  | [k, i] =>
    let i ← i.getNat?
    match k.getStr? with
    | .ok "s" => pure (.step i)
    | .ok "c" => pure (.crash i)
    | .ok "u" => pure (.unlock i)
    | _ => throw "event kind s|c|u expected"
  | _ => throw "event [kind, i] expected"

def range (n : Nat) : List Nat := List.range n

def curSnap (n : Nat) (s : Lock.State) (ok : Bool) : Json :=
  Json.mkObj [("ok", Json.bool ok),
    ("labels", Json.arr ((range n).map (fun i => Json.str (s.pc i).label)).toArray),
    ("path", Json.bool s.path.isSome),
    ("crit", Json.arr (((range n).filter (fun i => (s.pc i).inCritical)).map (fun (i : Nat) => toJson i)).toArray)]

def v0Snap (n : Nat) (s : Lock.V0.State) (ok : Bool) : Json :=
  Json.mkObj [("ok", Json.bool ok),
    ("labels", Json.arr ((range n).map (fun i => Json.str (s.pcs i).label)).toArray),
    ("path", Json.bool s.path.isSome),
    ("crit", Json.arr (((range n).filter (fun i => s.pcs i = .holding || s.pcs i = .unlocking)).map (fun (i : Nat) => toJson i)).toArray)]

def v0Pre (j : Json) : Option Lock.V0.Content :=
  match j.getObjValAs? String "pre" with
  | .ok "empty" => some .empty
  | .ok "garbage" => some .garbage
  | .ok "deadpid" => some (.pid 1000000)
  | _ => none

def curPre (j : Json) : Bool :=
  match j.getObjValAs? String "pre" with
  | .ok "none" => false
  | .ok _ => true
  | .error _ => false

/-- {"op":"lock.run","proto":"cur"|"v0","n":k,"pre":"none"|"empty"|"garbage"|"deadpid","events":[["s",i]..]}
    → {"init":snap,"steps":[snap..]}; an event that is not enabled gets ok=false and is skipped. -/
def lockRunH : Handler := fun j => do
  let n ← getNat j "n"
  let evs ← (← getArr j "events").toList.mapM evOfJson
  match j.getObjValAs? String "proto" with
  | .ok "v0" =>
    let s0 := Lock.V0.init n (v0Pre j)
    let rec go (s : Lock.V0.State) : List Lock.Ev → List Json
      | [] => []
      | e :: es =>
        match Lock.V0.step s e with
        | some s' => v0Snap n s' true :: go s' es
        | none => v0Snap n s false :: go s es
    pure (Json.mkObj [("init", v0Snap n s0 true), ("steps", Json.arr (go s0 evs).toArray)])
  | _ =>
    let s0 := Lock.init (curPre j)
    let rec goCur (s : Lock.State) : List Lock.Ev → List Json
      | [] => []
      | e :: es =>
        match Lock.step s e with
        | some s' => curSnap n s' true :: goCur s' es
        | none => curSnap n s false :: goCur s es
    pure (Json.mkObj [("init", curSnap n s0 true), ("steps", Json.arr (goCur s0 evs).toArray)])

/-- all maximal interleavings (as lists of process indices) of `n` contenders up to the point where every
    one of them has acquired, is about to sleep (`time.After`) or `depth` calls have been made. -/
def enumCur (n : Nat) : Nat → Lock.State → List (List Nat)
  | 0, _ => [[]]
  | d + 1, s =>
    let en := (range n).filter (fun i => (s.pc i).label != "time.After" && (Lock.step s (.step i)).isSome)
    if en.isEmpty then [[]]
    else en.flatMap (fun i =>
      match Lock.step s (.step i) with
      | some s' => (enumCur n d s').map (i :: ·)
      | none => [])

def enumV0 (n : Nat) : Nat → Lock.V0.State → List (List Nat)
  | 0, _ => [[]]
  | d + 1, s =>
    let en := (range n).filter (fun i => (s.pcs i).label != "time.After" && (Lock.V0.step s (.step i)).isSome)
    if en.isEmpty then [[]]
    else en.flatMap (fun i =>
      match Lock.V0.step s (.step i) with
      | some s' => (enumV0 n d s').map (i :: ·)
      | none => [])

/-- {"op":"lock.enum","proto":..,"n":k,"pre":..,"depth":d} → {"schedules":[[i,..],..]} -/
def lockEnumH : Handler := fun j => do
  let n ← getNat j "n"
  let d ← getNat j "depth"
  let scheds := match j.getObjValAs? String "proto" with
    | .ok "v0" => enumV0 n d (Lock.V0.init n (v0Pre j))
    | _ => enumCur n d (Lock.init (curPre j))
  pure (Json.mkObj [("schedules", Json.arr (scheds.map (fun l => Json.arr (l.map (fun (i : Nat) => toJson i)).toArray)).toArray)])

def handlers : List (String × Handler) :=
  [("lock.run", lockRunH), ("lock.enum", lockEnumH), ("loader.mk.blocks", mkBlocksH), ("loader.mk", mkH), ("loader.script", scriptH),
   ("loader.enrich", enrichH), ("loader.graph", graphH), ("loader.star", starH)]

end Grog.Drv.LockLoad
