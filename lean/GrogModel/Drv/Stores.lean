/-
  Model-side ops of the store group (C06, C07, C08).  The hash is instantiated by the identity
  (exactly collision-free), the marshalling functions by a length-framed encoding; digests and
  marshalled bytes are never compared with the implementation's, only trees, outcomes and counts.
-/
import GrogModel.Drv.Proto
import GrogModel.Tree
import GrogModel.Store
import GrogModel.Remote
import GrogModel.RemotePath
open Lean

namespace Grog.Drv.Stores
open Grog

/-! ### concrete parameters of the driver -/

def Hid : Bytes → Digest := id

def encNat (n : Nat) : Bytes :=
  (List.range 8).reverse.map (fun i => UInt8.ofNat ((n >>> (8 * i)) % 256))

def fr (b : Bytes) : Bytes := encNat b.length ++ b
def frList (xs : List Bytes) : Bytes := encNat xs.length ++ (xs.map fr).flatten

def serD (d : Directory) : Bytes :=
  frList (d.files.map (fun f => frList [f.name, f.digest, encNat f.size, if f.exec then [1] else [0]])) ++
  frList (d.dirs.map (fun x => frList [x.name, x.digest, encNat x.size])) ++
  frList (d.links.map (fun l => frList [l.name, l.target]))

def serT (t : TreeMsg) : Bytes := fr (serD t.root) ++ frList (t.children.map serD)

/-! ### JSON -/

partial def entryOfJson (j : Json) : Except String Entry := do
  let a ← j.getArr?
  let k ← (a[0]?.getD Json.null).getStr?
  match k with
  | "f" =>
    let b ← asBytes (a[1]?.getD Json.null)
    let x ← (a[2]?.getD Json.null).getBool?
    pure (.file b x)
  | "l" =>
    let t ← asBytes (a[1]?.getD Json.null)
    pure (.link t)
  | "d" =>
    let es ← (a[1]?.getD Json.null).getArr?
    let l ← es.toList.mapM (fun ne => do
      let p ← ne.getArr?
      let n ← asBytes (p[0]?.getD Json.null)
      let e ← entryOfJson (p[1]?.getD Json.null)
      pure (n, e))
    pure (.dir l)
  | _ => throw "bad entry kind"

partial def jsonOfEntry : Entry → Json
  | .file b x => Json.arr #[Json.str "f", jBytes b, Json.bool x]
  | .link t => Json.arr #[Json.str "l", jBytes t]
  | .dir es => Json.arr #[Json.str "d", Json.arr (es.map (fun (n, e) => Json.arr #[jBytes n, jsonOfEntry e])).toArray]

def splitPath (s : Bytes) : Path :=
  let rec go (cur : Bytes) (acc : List Bytes) : Bytes → List Bytes
    | [] => (if cur.isEmpty then acc else cur.reverse :: acc).reverse
    | c :: t => if c == cSlash then go [] (if cur.isEmpty then acc else cur.reverse :: acc) t else go (c :: cur) acc t
  go [] [] s

structure OutDecl where
  type : String
  id : Bytes

def getOutputs (j : Json) (k : String) : Except String (List OutDecl) := do
  let a ← getArr j k
  a.toList.mapM (fun o => do
    let p ← o.getArr?
    let t ← (p[0]?.getD Json.null).getStr?
    let i ← asBytes (p[1]?.getD Json.null)
    pure ⟨t, i⟩)

def defString (o : OutDecl) : Bytes := bytesOfString o.type ++ [58, 58] ++ o.id

def outDef : OutMsg → Bytes
  | .file p _ _ _ => bytesOfString "file" ++ [58, 58] ++ p
  | .dir p _ _ => bytesOfString "dir" ++ [58, 58] ++ p

def variantOf (j : Json) : Variant :=
  match j.getObjValAs? String "variant" with
  | .ok "old" => .old
  | _ => .fixed

def countFiles : Entry → Nat
  | .dir es => (encList Hid serD es).ups.length
  | _ => 0

/-- {"op":"store.roundtrip", ws, pkg, outputs, bin, prior, declared2?, drop?, variant?} -/
def roundtrip : Handler := fun j => do
  let v := variantOf j
  let ws ← entryOfJson (← j.getObjVal? "ws")
  let prior ← entryOfJson (← j.getObjVal? "prior")
  let pkg := splitPath (← getBytes j "pkg")
  let outs ← getOutputs j "outputs"
  let bin ← getBytes j "bin"
  let drop := (j.getObjValAs? (Array String) "drop").toOption.getD #[]
  -- bin output: execute.go chmods it 0755 before the outputs are written
  let (ws, outs) :=
    if bin.isEmpty then (ws, outs) else
      let p := pkg ++ splitPath bin
      let ws' := match ws.get p with
        | some (.file b _) => (setAt ws p (.file b true)).toOption.getD ws
        | _ => ws
      (ws', outs ++ [OutDecl.mk "file" bin])
  -- write
  let mut cas : Cas := []
  let mut stored : List OutMsg := []
  let mut msgs : List TreeMsg := []
  let mut werr := false
  for o in outs do
    let p := pkg ++ splitPath o.id
    let r := if o.type == "dir" then writeDir Hid serD serT ws p o.id cas else writeFile Hid v ws p o.id cas
    match r with
    | .ok (m, c) =>
      cas := c; stored := stored ++ [m]
      if o.type == "dir" then
        match ws.get p with
        | some (.dir es) => msgs := treeMsg Hid serD es :: msgs
        | _ => pure ()
    | .error _ => werr := true
  if werr then
    return Json.mkObj [("write", Json.str "err")]
  let nblobs := cas.length
  let nchildren := (msgs.map (·.children.length)).sum
  let flags := stored.filterMap (fun m => match m with
    | .file p _ _ x => some (Json.arr #[jBytes p, Json.bool x])
    | _ => none)
  -- drop blobs
  for d in drop do
    for m in stored do
      match d, m with
      | "tree", .dir _ td _ => cas := cas.filter (fun kv => kv.1 != td)
      | "file", .file _ dg _ _ => cas := cas.filter (fun kv => kv.1 != dg)
      | "dirfiles", .dir id _ _ =>
        match ws.get (pkg ++ splitPath id) with
        | some (.dir es) =>
          let gone := (encList Hid serD es).ups.map (·.1)
          cas := cas.filter (fun kv => !gone.contains kv.1)
        | _ => pure ()
      | _, _ => pure ()
  -- restore
  let declared2 := match getOutputs j "declared2" with
    | .ok l => l ++ (if bin.isEmpty then [] else [OutDecl.mk "file" bin])
    | .error _ => outs
  if !validateOutputs (declared2.map defString) (stored.map outDef) then
    return Json.mkObj [("write", Json.str "ok"), ("load", Json.str "err-validate"), ("after", jsonOfEntry prior),
      ("gets", Json.num 0), ("nblobs", Json.num nblobs), ("nchildren", Json.num nchildren), ("file_exec_flags", Json.arr flags.toArray)]
  let deT : Bytes → Option TreeMsg := fun b => msgs.find? (fun m => serT m == b)
  let mut fs := prior
  let mut gets := 0
  let mut lerr := false
  for m in stored do
    match m with
    | .dir id td _ =>
      let p := pkg ++ splitPath id
      if hashDirAt Hid serD serT fs p != some td then
        gets := gets + 1 + (if (cas.get td).isSome then countFiles ((ws.get p).getD (.dir [])) else 0)
      match restoreDir Hid serD serT deT 1000 td cas fs p with
      | .ok fs' => fs := fs'
      | .error _ => lerr := true
    | .file id dgst _ ex =>
      let p := pkg ++ splitPath id
      let hit := match fs.get p with
        | some (.file b _) => Hid b == dgst
        | _ => false
      if !hit then gets := gets + 1
      match restoreFile Hid v dgst ex cas fs p with
      | .ok fs' => fs := fs'
      | .error _ => lerr := true
  return Json.mkObj [("write", Json.str "ok"), ("load", Json.str (if lerr then "err" else "ok")), ("after", jsonOfEntry fs),
    ("gets", Json.num gets), ("nblobs", Json.num nblobs), ("nchildren", Json.num nchildren), ("file_exec_flags", Json.arr flags.toArray)]

/-! ### C07: replay of a backend-operation trace through `Store.step` -/

def nsOf (s : String) : Except String Store.NS :=
  match s with
  | "cas" => pure .cas
  | "target" => pure .target
  | _ => throw s!"unknown namespace {s}"

def resOf (s : String) : Except String Store.Res :=
  match s with
  | "yes" => pure .yes
  | "no" => pure .no
  | "err" => pure .err
  | _ => throw s!"unknown result {s}"

def setOutOf (s : String) : Except String Store.SetOut :=
  match s with
  | "ok" => pure .ok
  | "errStored" => pure .errStored
  | "errNotStored" => pure .errNotStored
  | _ => throw s!"unknown set outcome {s}"

def storeEvOf (j : Json) : Except String Store.Ev := do
  let e ← getStr j "e"
  let p ← getNat j "p"
  match e with
  | "exists" => pure (.existsRes p (← nsOf (← getStr j "ns")) (← getBytes j "k") (← resOf (← getStr j "r")))
  | "get" => pure (.getRes p (← nsOf (← getStr j "ns")) (← getBytes j "k") (← resOf (← getStr j "r")))
  | "sb" =>
    let k ← getBytes j "k"
    let ok ← getBool j "hashOk"
    -- the hash is the identity in the replay: a blob whose real content hashes to its key is represented by the key
    pure (.setBegin p (← getNat j "op") (← nsOf (← getStr j "ns")) k (if ok then k else k ++ [0]) (← getBytesList j "refs"))
  | "se" => pure (.setEnd p (← getNat j "op") (← setOutOf (← getStr j "o")))
  | "crash" => pure (.crash p ((j.getObjValAs? (List Nat) "landed").toOption.getD []))
  | _ => throw s!"unknown event {e}"

def replayFrom (s : Store.State) (i : Nat) : List Store.Ev → Store.State × Option Nat
  | [] => (s, none)
  | e :: es =>
    match Store.step Hid s e with
    | some s' => replayFrom s' (i + 1) es
    | none => (s, some i)

/-- {"op":"store.replay","events":[..],"query":[[ns,key],..]} → {"accepted":bool,"at":n,"visible":[bool..]} -/
def replay : Handler := fun j => do
  let evs ← (← getArr j "events").toList.mapM storeEvOf
  let (s, bad) := replayFrom Store.init 0 evs
  let q := (getArr j "query").toOption.getD #[]
  let vis ← q.toList.mapM (fun x => do
    let a ← x.getArr?
    let ns ← nsOf (← (a[0]?.getD Json.null).getStr?)
    let k ← asBytes (a[1]?.getD Json.null)
    pure (Json.bool (Store.has s ns k)))
  pure (Json.mkObj [("accepted", Json.bool bad.isNone), ("at", match bad with | some i => Json.num i | none => Json.num (-1 : Int)),
    ("n", Json.num evs.length), ("visible", Json.arr vis.toArray)])

/-! ### C08: replay of wrapper-call traces through `Remote.step` -/

def blobOf (j : Json) : Except String Remote.Blob := do
  let k ← getBytes j "k"
  let refs ← getBytesList j "refs"
  let ok := (getBool j "contentOk").toOption.getD true
  pure ⟨if ok then k else k ++ [0], refs⟩

def remoteEvOf (j : Json) : Except String Remote.Ev := do
  let e ← getStr j "e"
  match e with
  | "proc" => pure (.proc (← getNat j "p") (← getNat j "m"))
  | "local" => pure (.localSet (← getNat j "m") (← nsOf (← getStr j "ns")) (← getBytes j "k") (← blobOf j))
  | "exists" => pure (.existsRes (← getNat j "p") (← nsOf (← getStr j "ns")) (← getBytes j "k") (← resOf (← getStr j "r")))
  | "existsAll" => pure (.existsAllRes (← getNat j "p") (← getBytes j "k") (← resOf (← getStr j "r")))
  | "get" =>
    let r ← getStr j "r"
    let b ← blobOf j
    pure (.getRes (← getNat j "p") (← nsOf (← getStr j "ns")) (← getBytes j "k") (if r == "yes" then some b else none) (← getBool j "filled"))
  | "tset" => pure (.taintSet (← getNat j "p") (← getBytes j "k") (← getBool j "la") (← getBool j "ra") (← getBool j "ok"))
  | "texists" => pure (.taintExists (← getNat j "p") (← getBytes j "k") (← resOf (← getStr j "r")))
  | "tdel" => pure (.taintDelete (← getNat j "p") (← getBytes j "k") (← getBool j "la") (← getBool j "ra") (← getBool j "ok"))
  | "set" =>
    pure (.setRes (← getNat j "p") (← nsOf (← getStr j "ns")) (← getBytes j "k") (← blobOf j) (← getBool j "l") (← getBool j "rem") (← getBool j "ok"))
  | _ => throw s!"unknown event {e}"

def remoteReplayFrom (v : Remote.Variant) (s : Remote.State) (i : Nat) : List Remote.Ev → Remote.State × Option Nat
  | [] => (s, none)
  | e :: es =>
    match Remote.step v s e with
    | some s' => remoteReplayFrom v s' (i + 1) es
    | none => (s, some i)

/-- {"op":"store.remotereplay","variant":"old"|"fixed","events":[..],"query":[[where,ns,key],..]}  (where = -1: remote store, else machine) -/
def remoteReplay : Handler := fun j => do
  let v : Remote.Variant := match j.getObjValAs? String "variant" with
    | .ok "old" => .old
    | _ => .fixed
  let evs ← (← getArr j "events").toList.mapM remoteEvOf
  let (s, bad) := remoteReplayFrom v Remote.init 0 evs
  let q := (getArr j "query").toOption.getD #[]
  let vis ← q.toList.mapM (fun x => do
    let a ← x.getArr?
    let w ← (a[0]?.getD Json.null).getInt?
    let nss ← (a[1]?.getD Json.null).getStr?
    let k ← asBytes (a[2]?.getD Json.null)
    if nss == "taint" then
      pure (Json.bool (if w < 0 then s.rtaint k else s.ltaint w.toNat k))
    else
      let ns ← nsOf nss
      pure (Json.bool (if w < 0 then (s.remote ns k).isSome else (s.loc w.toNat ns k).isSome)))
  -- closure of the remote store over the queried target keys
  let dangling := q.toList.filterMap (fun x =>
    match x.getArr? with
    | .ok a =>
      match (a[0]?.getD Json.null).getInt?, (a[1]?.getD Json.null).getStr?, asBytes (a[2]?.getD Json.null) with
      | .ok w, .ok "target", .ok k =>
        if w < 0 then
          match s.remote .target k with
          | some b => if b.refs.all (fun r => match s.remote .cas r with
              | some b' => b'.refs.all (fun r' => (s.remote .cas r').isSome)
              | none => false) then none else some (jBytes k)
          | none => none
        else none
      | _, _, _ => none
    | .error _ => none)
  pure (Json.mkObj [("accepted", Json.bool bad.isNone), ("at", match bad with | some i => Json.num i | none => Json.num (-1 : Int)),
    ("n", Json.num evs.length), ("visible", Json.arr vis.toArray), ("dangling", Json.arr dangling.toArray)])

/-- {"op":"store.s3path","bucket","prefix","ws","calls":[[path,key],..]} → {"objects":[[bucket,key],..]} -/
def objPath : Handler := fun j => do
  let c : RemotePath.Cfg := ⟨← getBytes j "bucket", ← getBytes j "prefix", ← getBytes j "ws"⟩
  let calls ← getArr j "calls"
  let objs ← calls.toList.mapM (fun x => do
    let a ← x.getArr?
    let p ← asBytes (a[0]?.getD Json.null)
    let k ← asBytes (a[1]?.getD Json.null)
    let o := RemotePath.objectOf c p k
    pure (Json.arr #[jBytes o.1, jBytes o.2]))
  pure (Json.mkObj [("objects", Json.arr objs.toArray)])

def handlers : List (String × Handler) :=
  [("store.roundtrip", roundtrip), ("store.replay", replay), ("store.remotereplay", remoteReplay), ("store.objpath", objPath)]

end Grog.Drv.Stores
