import GrogModel.Drv.Proto
import GrogModel.Hash
import GrogModel.Sha256
import GrogModel.Xxh3
import GrogModel.Proto
open Lean

namespace Grog.Drv.Hash

def getPairs (j : Json) (k : String) : Except String (List (Bytes × Option Bytes)) := do
  match j.getObjVal? k with
  | .error _ => pure []
  | .ok v =>
    let arr ← v.getArr?
    arr.toList.mapM (fun p => do
      let pa ← p.getArr?
      if pa.size != 2 then throw "pair expected"
      let a ← asBytes pa[0]!
      let b ← (if pa[1]!.isNull then pure none else (asBytes pa[1]!).map some)
      pure (a, b))

def sha : Handler := fun j => do
  let s ← getBytes j "s"
  pure (Json.mkObj [("hex", jBytes (Sha256.sha256Hex s))])

def xxh : Handler := fun j => do
  let s ← getBytes j "s"
  pure (Json.mkObj [("hex", jBytes (Xxh3.xxh3Hex s))])

/-- the hash function grog's `GetHasher` selects for a `hash_algorithm` value -/
def hasherOf (algo : String) : Except String (Bytes → Bytes) :=
  if algo == "sha256" then pure Sha256.sha256Hex
  else if algo == "xxh3" || algo == "" then pure Xxh3.xxh3Hex
  else throw "unknown hash algorithm"

/-- {"op":"hash.file","algo":..,"s":content}: `HashFile`, `HashBytes`, `HashString` are the configured hash of the content -/
def fileH : Handler := fun j => do
  let s ← getBytes j "s"
  let algo ← getStr j "algo"
  let H ← hasherOf algo
  let h := jBytes (hashContent H s)
  pure (Json.mkObj [("bytes", h), ("file", h), ("string", h)])

/-- {"op":"hash.nocache","algo":..,"outputs":[[name, content],..]} (file outputs only): every digest is the hash of the content -/
def nocacheH : Handler := fun j => do
  let algo ← getStr j "algo"
  let H ← hasherOf algo
  let outs ← getPairs j "outputs"
  let elems := outs.map (fun o => ([102, 105, 108, 101, 58, 58] ++ o.1, hashContent H (o.2.getD [])))
  pure (Json.mkObj [("hash", jBytes (outHashNoCache H elems))])

def colon2 : Bytes := [58, 58]

def stateOf (j : Json) : Except String KeyState := do
  let pkg ← getBytes j "pkg"
  let name ← getBytes j "name"
  let command ← getBytes j "command"
  let inputs ← getBytesList j "inputs"
  let files ← getPairs j "files"
  let outs ← getPairs j "outputs"
  let depsP ← getPairs j "deps"
  let fp ← getPairs j "fingerprint"
  let platform ← (match j.getObjVal? "platform" with
    | .ok v => if v.isNull then pure none else (asBytes v).map some
    | .error _ => pure none)
  let bin := match j.getObjValAs? String "bin" with
    | .ok b => if b.isEmpty then [] else [([102, 105, 108, 101] ++ colon2 ++ bytesOfString b)]
    | .error _ => []
  pure {
    label := slash2 ++ pkg ++ cColon :: name
    command := command
    inputs := inputs
    content := fun p => match files.lookup p with | some c => c | none => none
    outputs := outs.map (fun o => o.1 ++ colon2 ++ o.2.getD []) ++ bin
    deps := depsP.map (fun kv => (kv.1, kv.2.getD []))
    fingerprint := fp.map (fun kv => (kv.1, kv.2.getD []))
    platform := platform }

def keyH : Handler := fun j => do
  let s ← stateOf j
  let algo ← getStr j "algo"
  let variant := (j.getObjValAs? String "variant").toOption.getD "new"
  let H ← hasherOf algo
  let k := if variant == "old" then keyOld H s else key H s
  pure (Json.mkObj [("key", jBytes k)])

def outputOf (o : Json) : Except String Proto.Output := do
  let kind ← getStr o "kind"
  let path ← getBytes o "path"
  let dg ← (match o.getObjVal? "hash" with
    | .ok v => if v.isNull then pure none else do
        let h ← asBytes v
        let sz := (o.getObjValAs? Nat "size").toOption.getD 0
        pure (some (Proto.Digest.mk h sz))
    | .error _ => pure none)
  if kind == "file" then
    let ex := (o.getObjValAs? Bool "exec").toOption.getD false
    pure (Proto.Output.file path dg ex)
  else if kind == "dir" then pure (Proto.Output.dir path dg)
  else throw "unknown output kind"

def outH : Handler := fun j => do
  let algo ← getStr j "algo"
  let H ← hasherOf algo
  let arr ← getArr j "outputs"
  let outs ← arr.toList.mapM outputOf
  let ser := outs.map Proto.serOutput
  pure (Json.mkObj [("hash", jBytes (outHash H ser)), ("ser", jBytesList ser)])

def handlers : List (String × Handler) :=
  [("hash.sha256", sha), ("hash.xxh3", xxh), ("hash.file", fileH), ("hash.nocache", nocacheH), ("hash.key", keyH), ("hash.out", outH)]

end Grog.Drv.Hash
