/-
  JSON-lines protocol helpers for the model driver (`grogdrv`).
  Byte strings travel as JSON strings in which code point k (< 256) stands for byte k.
  This file is the only place that depends on `Lean.Data.Json`; it is not imported by
  any model, lemma or property file.
-/
import Lean.Data.Json
import GrogModel.Base
open Lean

namespace Grog.Drv

abbrev Handler := Json → Except String Json

def bytesOfString (s : String) : Bytes :=
  s.toList.map (fun c => UInt8.ofNat c.toNat)

def stringOfBytes (b : Bytes) : String :=
  String.ofList (b.map (fun x => Char.ofNat x.toNat))

def jBytes (b : Bytes) : Json := Json.str (stringOfBytes b)

def getBytes (j : Json) (k : String) : Except String Bytes := do
  let s ← j.getObjValAs? String k
  pure (bytesOfString s)

def getBytesList (j : Json) (k : String) : Except String (List Bytes) := do
  let a ← j.getObjValAs? (Array String) k
  pure (a.toList.map bytesOfString)

def getNat (j : Json) (k : String) : Except String Nat := j.getObjValAs? Nat k
def getBool (j : Json) (k : String) : Except String Bool := j.getObjValAs? Bool k
def getArr (j : Json) (k : String) : Except String (Array Json) := do
  let v ← j.getObjVal? k
  v.getArr?
def getStr (j : Json) (k : String) : Except String String := j.getObjValAs? String k

def jBytesList (l : List Bytes) : Json := Json.arr (l.map jBytes).toArray

def asBytes (j : Json) : Except String Bytes := do
  let s ← j.getStr?
  pure (bytesOfString s)

end Grog.Drv
