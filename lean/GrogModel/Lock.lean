/-
  Model of internal/locking/workspace_locker.go: any number of grog processes contending for the
  workspace lock, one transition per file-system / process primitive of `Lock` / `Unlock`, crashes
  at any point.

  Two protocols:
    * `Grog.Lock`     — the current tree: flock(2) on the lock file + re-check that the path still
                        names the locked file; Unlock = remove the path, then close.
    * `Grog.Lock.V0`  — the tree before the `fix:` commit for F-lock: exclusive create, separate PID
                        write, read / parse / probe / remove of "stale" files. Kept for the
                        regression witnesses.

  POSIX facts used (trusted base): `open(O_CREAT)` creates the file iff the path is absent, atomically;
  `open(O_CREAT|O_EXCL)` fails iff the path is present, atomically; an exclusive `flock` is granted to at
  most one open file description per file and is released when that description is closed or its
  process dies; `unlink` removes the path but not the open file.

  Processes are indexed by `Nat` (a process that is never scheduled stays `idle`), files by inode
  numbers. `procs`, `flock` and `inodes` are functions, so there is no bound on the number of
  contenders. Core Lean only.
-/
namespace Grog.Lock

/-- what the environment can do: let process `i` perform its pending call, kill it (`kill -9`, power
    loss, `os.Exit` without unlocking), or — for a process that holds the lock — let the build finish
    and call `Unlock()`. -/
inductive Ev where
  | step (i : Nat)
  | crash (i : Nat)
  | unlock (i : Nat)
deriving DecidableEq, Repr

/-! ## The current protocol -/

/-- program counter = the call that is pending (the comment gives the yield label of the
    instrumented code) -/
inductive PC where
  | idle                 -- os.OpenFile(path, O_RDWR|O_CREATE)
  | opened (n : Nat)     -- syscall.Flock(fd, LOCK_EX|LOCK_NB)
  | locked (n : Nat)     -- file.Stat()
  | statted (n : Nat)    -- os.Stat(path)            (re-check)
  | verified (n : Nat)   -- file.Truncate(0)
  | truncated (n : Nat)  -- file.WriteAt(pid)
  | holding (n : Nat)    -- Lock() returned nil
  | mismatch (n : Nat)   -- file.Close(), then retry at once
  | busy (n : Nat)       -- file.Close() after EWOULDBLOCK
  | readPid              -- os.ReadFile(path)        (only before the first wait, for the message)
  | waiting              -- time.After(1s)
  | unlocking (n : Nat)  -- os.Remove(path)          (Unlock)
  | removed (n : Nat)    -- file.Close()             (Unlock)
  | done                 -- Unlock() returned
  | dead
deriving DecidableEq, Repr

structure Proc where
  pc : PC
  printed : Bool := false      -- `waitPrinted`
deriving DecidableEq, Repr

structure State where
  /-- inode the lock path names -/
  path : Option Nat
  /-- next unused inode number -/
  next : Nat
  /-- holder of the exclusive flock on inode `n` -/
  flock : Nat → Option Nat
  procs : Nat → Proc

def State.pc (s : State) (i : Nat) : PC := (s.procs i).pc

def State.setProc (s : State) (i : Nat) (p : Proc) : State :=
  { s with procs := fun j => if j = i then p else s.procs j }

def State.setPc (s : State) (i : Nat) (pc : PC) : State :=
  s.setProc i { s.procs i with pc := pc }

/-- close of process `i`'s descriptor of inode `n`: releases the flock if this descriptor holds it -/
def State.release (s : State) (i n : Nat) : State :=
  { s with flock := fun m => if m = n ∧ s.flock m = some i then none else s.flock m }

/-- process death: every flock of `i` is released -/
def State.releaseAll (s : State) (i : Nat) : State :=
  { s with flock := fun m => if s.flock m = some i then none else s.flock m }

/-- one transition; `none` = the event is not enabled -/
def step (s : State) : Ev → Option State
  | .step i =>
    match s.pc i with
    | .idle =>
      match s.path with
      | some n => some (s.setPc i (.opened n))
      | none => some ({ s with path := some s.next, next := s.next + 1 }.setPc i (.opened s.next))
    | .opened n =>
      match s.flock n with
      | none => some ({ s with flock := fun m => if m = n then some i else s.flock m }.setPc i (.locked n))
      | some _ => some (s.setPc i (.busy n))
    | .locked n => some (s.setPc i (.statted n))
    | .statted n => if s.path = some n then some (s.setPc i (.verified n)) else some (s.setPc i (.mismatch n))
    | .verified n => some (s.setPc i (.truncated n))
    | .truncated n => some (s.setPc i (.holding n))
    | .mismatch n => some ((s.release i n).setPc i .idle)
    | .busy _ => some (s.setPc i (if (s.procs i).printed then .waiting else .readPid))
    | .readPid => some (s.setProc i ⟨.waiting, true⟩)
    | .waiting => some (s.setPc i .idle)
    | .unlocking n => some ({ s with path := none }.setPc i (.removed n))
    | .removed n => some ((s.release i n).setPc i .done)
    | .holding _ => none
    | .done => none
    | .dead => none
  | .unlock i =>
    match s.pc i with
    | .holding n => some (s.setPc i (.unlocking n))
    | _ => none
  | .crash i =>
    match s.pc i with
    | .dead => none
    | .done => none
    | _ => some ((s.releaseAll i).setPc i .dead)

/-- initial states: nobody has started, no flock is held; the lock path may or may not exist already
    (a file left behind by an earlier, dead build — its content is irrelevant to this protocol). -/
def init (pre : Bool) : State :=
  { path := if pre then some 0 else none, next := 1, flock := fun _ => none, procs := fun _ => ⟨.idle, false⟩ }

inductive Reach : State → Prop where
  | init (pre : Bool) : Reach (init pre)
  | step {s s' : State} (e : Ev) : Reach s → step s e = some s' → Reach s'

/-- apply events in order, skipping the ones that are not enabled -/
def run (s : State) : List Ev → State
  | [] => s
  | e :: es =>
    match step s e with
    | some s' => run s' es
    | none => run s es

/-- `k` consecutive steps of process `i` alone -/
def solo (i : Nat) : Nat → State → State
  | 0, s => s
  | k + 1, s =>
    match step s (.step i) with
    | some s' => solo i k s'
    | none => s

/-- `grog clean` before fix commit 5a4d0e7: `os.RemoveAll` of the directory that contains the lock path, by a
    process that does not hold the lock. (Since the fix `clean` is an ordinary contender: it runs `Lock()`,
    deletes everything except the lock file, and runs `Unlock()`.) Not an event of the protocol; kept for the
    regression witness. -/
def wipe (s : State) : State := { s with path := none }

/-- the process is past lock acquisition: `Lock()` has returned nil and `Unlock()` has not yet
    removed the lock path -/
def PC.inCritical : PC → Bool
  | .holding _ => true
  | .unlocking _ => true
  | _ => false

/-- yield label of the instrumented code that corresponds to a program counter -/
def PC.label : PC → String
  | .idle => "os.OpenFile" | .opened _ => "syscall.Flock" | .locked _ => ".Stat" | .statted _ => "os.Stat"
  | .verified _ => ".Truncate" | .truncated _ => ".WriteAt" | .holding _ => "acquired" | .mismatch _ => ".Close"
  | .busy _ => ".Close" | .readPid => "os.ReadFile" | .waiting => "time.After" | .unlocking _ => "os.Remove"
  | .removed _ => ".Close" | .done => "released" | .dead => "dead"

/-! ## The protocol before the fix (PID file) -/
namespace V0

inductive Content where
  | empty
  | garbage
  | pid (j : Nat)
deriving DecidableEq, Repr

inductive PC where
  | start                -- os.OpenFile(path, O_RDWR|O_CREATE|O_EXCL)
  | created (n : Nat)    -- file.Write(pid)
  | written (n : Nat)    -- file.Close()
  | holding              -- Lock() returned nil
  | exists_              -- os.ReadFile(path)
  | probe (j : Nat)      -- p.Signal(0)
  | stale                -- os.Remove(path)   (unreadable, unparsable or dead PID)
  | waiting              -- time.After(1s)
  | unlocking            -- os.Remove(path)   (Unlock)
  | done
  | dead
deriving DecidableEq, Repr

structure State where
  path : Option Nat
  next : Nat
  inodes : Nat → Content
  pcs : Nat → PC

def State.setPc (s : State) (i : Nat) (pc : PC) : State :=
  { s with pcs := fun j => if j = i then pc else s.pcs j }

def step (s : State) : Ev → Option State
  | .step i =>
    match s.pcs i with
    | .start =>
      match s.path with
      | none => some ({ s with path := some s.next, next := s.next + 1,
                               inodes := fun m => if m = s.next then .empty else s.inodes m }.setPc i (.created s.next))
      | some _ => some (s.setPc i .exists_)
    | .created n => some ({ s with inodes := fun m => if m = n then .pid i else s.inodes m }.setPc i (.written n))
    | .written _ => some (s.setPc i .holding)
    | .exists_ =>
      match s.path with
      | none => some (s.setPc i .stale)
      | some n =>
        match s.inodes n with
        | .pid j => some (s.setPc i (.probe j))
        | _ => some (s.setPc i .stale)
    | .probe j => some (s.setPc i (if s.pcs j = .dead then .stale else .waiting))
    | .stale => some ({ s with path := none }.setPc i .start)
    | .waiting => some (s.setPc i .start)
    | .unlocking => some ({ s with path := none }.setPc i .done)
    | .holding => none
    | .done => none
    | .dead => none
  | .unlock i =>
    match s.pcs i with
    | .holding => some (s.setPc i .unlocking)
    | _ => none
  | .crash i =>
    match s.pcs i with
    | .dead => none
    | .done => none
    | _ => some (s.setPc i .dead)

/-- `n` contenders at `start`; every other PID is dead; optional pre-existing lock file -/
def init (n : Nat) (pre : Option Content) : State :=
  { path := pre.map (fun _ => 0), next := 1,
    inodes := fun _ => pre.getD .empty,
    pcs := fun j => if j < n then .start else .dead }

/-- strict run: `none` as soon as an event is not enabled -/
def runStrict (s : State) : List Ev → Option State
  | [] => some s
  | e :: es =>
    match step s e with
    | some s' => runStrict s' es
    | none => none

def run (s : State) : List Ev → State
  | [] => s
  | e :: es =>
    match step s e with
    | some s' => run s' es
    | none => run s es

def PC.label : PC → String
  | .start => "os.OpenFile" | .created _ => ".Write" | .written _ => ".Close" | .holding => "acquired"
  | .exists_ => "os.ReadFile" | .probe _ => ".Signal" | .stale => "os.Remove" | .waiting => "time.After"
  | .unlocking => "os.Remove" | .done => "released" | .dead => "dead"

end V0

end Grog.Lock
