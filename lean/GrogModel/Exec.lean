/-
  Exec — the per-target cache decision of grog
  (internal/execution/execute.go: getTaskFunc, executeTarget, OnTargetComplete, LoadDependencyOutputs;
   internal/output/registry.go: LoadOutputs, validateTargetResultOutputs, WriteOutputs, GetNoCacheOutputHash;
   internal/hashing/target_hasher.go: SetTargetChangeHash).

  Abstractions (named, and taken as explicit hypotheses by the theorems that need them):
  * the cache key is `P.K : KeyState κ → κ` (H ∘ enc of C09); theorems assume `Function.Injective P.K`;
  * content digests are the identity on values (CAS is a set of values) — collision-freeness of H;
  * restoring a stored output writes exactly the stored value at the output path (C06);
  * one target's decision is atomic (builds are folds over a topological order).
  A shell command is `P.run : Cmd → View → RunRes`: a deterministic function of what it can read
  (its resolved input files and the declared outputs of its direct dependencies).
  Core Lean only.
-/
import GrogModel.Base
namespace Grog.Exec
open Grog

abbrev Lbl := Bytes
abbrev Path := Bytes
abbrev Val := Bytes

/-- function update -/
def upd {α β : Type} [DecidableEq α] (f : α → β) (a : α) (b : β) : α → β :=
  fun x => if x = a then b else f x

@[simp] theorem upd_same {α β : Type} [DecidableEq α] (f : α → β) (a : α) (b : β) : upd f a b a = b := by
  simp [upd]
theorem upd_other {α β : Type} [DecidableEq α] (f : α → β) (a x : α) (b : β) (h : x ≠ a) : upd f a b x = f x := by
  simp [upd, h]

/-- an output definition: `path` or `dir::path` (package-relative identifiers are resolved to
    workspace-relative paths by the harness) -/
structure OutDef where
  dir : Bool
  path : Path
deriving DecidableEq

abbrev Outs := List (OutDef × Val)

/-- What dependants fold into their key (`Target.OutputHash`). Injectivity of the three hash
    computations is what the constructors stand for (C09.outHash_inj). -/
inductive OH (κ : Type) where
  /-- `WriteOutputs`: hash over the (definition, digest) records -/
  | outs (l : Outs)
  /-- a target without outputs exposes its own change hash -/
  | self (k : κ)
  /-- `GetNoCacheOutputHash` (no-cache tag or cache disabled) -/
  | nocache (l : Outs)
deriving DecidableEq

/-- the structured content of a generated shell command (rendered to text by the harness) -/
structure Cmd where
  salt : Bytes
  /-- 0: runs to completion, 1: exits non-zero before writing anything, 2: exceeds its timeout -/
  beh : Nat
  /-- the outputs the command writes (normally all declared ones) -/
  writes : List OutDef
  /-- files outside inputs/outputs the command writes (external conditions inspected by output checks) -/
  sets : List (Path × Val)
  /-- "splitter": output k is a copy of the k-th resolved input (so an edit can make two outputs swap contents) -/
  split : Bool
deriving DecidableEq

/-- what a command can read when it runs -/
structure View where
  inputs : List (Path × Option Val)
  deps : List (Path × Option Val)
deriving DecidableEq

structure RunRes where
  exit0 : Bool
  outs : Outs
  sets : List (Path × Val)
deriving DecidableEq

/-- exactly what is fed to the hasher (hash_target.go). `deps`: the output hash of every direct dependency **together
    with the dependency's label** (`hashTargetDefinition` writes label / output-hash pairs): an output hash by itself
    covers package-relative output identifiers only, so it does not say which dependency it belongs to. -/
structure KeyState (κ : Type) where
  label : Lbl
  cmd : Cmd
  inputs : List (Path × Option Val)
  outs : List OutDef
  deps : List (Lbl × OH κ)
  fp : List (Bytes × Bytes)
  plat : Bytes
deriving DecidableEq

structure Target where
  label : Lbl
  cmd : Cmd
  /-- resolved inputs (globs resolved at load time by the harness), sorted -/
  inputs : List Path
  /-- declared outputs, sorted by definition -/
  outs : List OutDef
  /-- direct dependencies, aliases followed: whose outputs the command reads -/
  deps : List Lbl
  /-- the dependencies whose output hash enters the key (`SetTargetChangeHash`) -/
  hdeps : List Lbl
  /-- the dependencies `LoadDependencyOutputs` materialises in minimal mode (`GetTargetDependencies`) -/
  ldeps : List Lbl
  fp : List (Bytes × Bytes)
  plat : Bytes
  noCache : Bool
  /-- output checks: (file, expected content); passes iff the file exists (and has that content) -/
  checks : List (Path × Option Val)

abbrev Defs := Lbl → Option Target
abbrev FS := Path → Option Val

structure Result (κ : Type) where
  oh : OH κ
  outs : Outs

structure Cache (κ : Type) where
  res : κ → Option (Result κ)
  cas : Val → Bool
  taint : Lbl → Bool

/-- per-build status of a target (fields of model.Target that live for one process) -/
structure TStat (κ : Type) where
  ok : Bool
  key : Option κ
  oh : Option (OH κ)
  loaded : Bool

structure BState (κ : Type) where
  fs : FS
  cache : Cache κ
  st : Lbl → Option (TStat κ)
  /-- executed commands, most recent first -/
  log : List Lbl

structure Cfg where
  enableCache : Bool
  minimal : Bool
deriving DecidableEq

/-- which repairs are in the modelled code (all `true` = the current tree) -/
structure Fixes where
  /-- F-check: the pre-execution check result is part of the hit condition -/
  gateChecks : Bool
  /-- F-taint-async: the taint is cleared before the target's task returns -/
  syncTaint : Bool
  /-- F-nocache-rerun: a no-cache dependency already produced in this build is not re-run -/
  rerunOnce : Bool
  /-- minimal mode accepts a hit only if the stored result describes the declared outputs -/
  minValidate : Bool
  /-- when the stored result of a dependency cannot be read while dependency outputs are loaded, its own
      dependencies are loaded, it is re-run (unless already produced in this build) and the loop continues -/
  loadFault : Bool
  /-- minimal mode: a target with output checks gets the outputs of its direct dependencies loaded *before* the
      pre-execution checks run (the checks are shell commands that may read them, as under `load_outputs=all`) -/
  checkDeps : Bool
deriving DecidableEq

def Fixes.current : Fixes := ⟨true, true, true, true, true, true⟩

structure Params (κ : Type) where
  K : KeyState κ → κ
  run : Cmd → View → RunRes
  fx : Fixes

variable {κ : Type} [DecidableEq κ]

/-! ### small pieces -/

def checksPass (fs : FS) (cs : List (Path × Option Val)) : Bool :=
  cs.all fun c => match fs c.1 with
    | none => false
    | some v => match c.2 with
      | none => true
      | some x => v == x

def depsOk (st : Lbl → Option (TStat κ)) (deps : List Lbl) : Bool :=
  deps.all fun d => match st d with
    | some ds => ds.ok
    | none => false

def ohOf (st : Lbl → Option (TStat κ)) (d : Lbl) : Option (OH κ) :=
  match st d with
  | some ds => ds.oh
  | none => none

def depOhs (st : Lbl → Option (TStat κ)) : List Lbl → Option (List (OH κ))
  | [] => some []
  | d :: ds => match ohOf st d, depOhs st ds with
    | some a, some r => some (a :: r)
    | _, _ => none

def keyState (t : Target) (fs : FS) (ohs : List (OH κ)) : KeyState κ :=
  { label := t.label, cmd := t.cmd, inputs := t.inputs.map (fun p => (p, fs p)),
    outs := t.outs, deps := t.hdeps.zip ohs, fp := t.fp, plat := t.plat }

def outPathsOf (defs : Defs) (d : Lbl) : List Path :=
  match defs d with
  | some dt => dt.outs.map (·.path)
  | none => []

/-- what the command of `t` reads: its inputs and every declared output of every direct dependency -/
def viewAt (defs : Defs) (t : Target) (fs : FS) : View :=
  { inputs := t.inputs.map (fun p => (p, fs p)),
    deps := (t.deps.flatMap (outPathsOf defs)).map (fun p => (p, fs p)) }

def ohVals : OH κ → List (Path × Option Val)
  | .outs l => l.map (fun ov => (ov.1.path, some ov.2))
  | .nocache l => l.map (fun ov => (ov.1.path, some ov.2))
  | .self _ => []

/-- the view a key-state encodes -/
def viewOf (ks : KeyState κ) : View :=
  { inputs := ks.inputs, deps := ks.deps.flatMap (fun d => ohVals d.2) }

def writeOuts (fs : FS) : Outs → FS
  | [] => fs
  | ov :: l => writeOuts (upd fs ov.1.path (some ov.2)) l

def writeSets (fs : FS) : List (Path × Val) → FS
  | [] => fs
  | pv :: l => writeSets (upd fs pv.1 (some pv.2)) l

def addBlobs (cas : Val → Bool) : Outs → Val → Bool
  | [] => cas
  | ov :: l => addBlobs (upd cas ov.2 true) l

/-- read the declared outputs back from the workspace (handlers' `Write` / `Hash`); `none` if one is missing -/
def collect (fs : FS) : List OutDef → Option Outs
  | [] => some []
  | o :: os => match fs o.path, collect fs os with
    | some v, some r => some ((o, v) :: r)
    | _, _ => none

/-- `validateTargetResultOutputs` -/
def validate (t : Target) (r : Result κ) : Bool := r.outs.map (·.1) == t.outs

/-- `Registry.LoadOutputs` after the `OutputsLoaded` short cut: validate, then load every stored output -/
def restore (t : Target) (r : Result κ) (c : Cache κ) (fs : FS) : Option FS :=
  if validate t r && r.outs.all (fun ov => c.cas ov.2) then some (writeOuts fs r.outs) else none

def failStat : TStat κ := { ok := false, key := none, oh := none, loaded := false }

def failT (s : BState κ) (l : Lbl) : BState κ := { s with st := upd s.st l (some failStat) }

/-- `Executor.executeTarget` + `OnTargetComplete`: run the command, re-check, read the outputs back,
    store blobs and result, clear the taint. Returns the new state and whether the target succeeded. -/
def execTarget (P : Params κ) (cfg : Cfg) (defs : Defs) (t : Target) (k : κ) (clr : Bool)
    (s : BState κ) : BState κ × Bool :=
  let r := P.run t.cmd (viewAt defs t s.fs)
  let s1 : BState κ := { s with log := t.label :: s.log }
  if r.exit0 = false then (s1, false) else
  let fs1 := writeSets (writeOuts s.fs r.outs) r.sets
  let s2 : BState κ := { s1 with fs := fs1 }
  if checksPass fs1 t.checks = false then (s2, false) else
  match collect fs1 t.outs with
  | none => (s2, false)
  | some ovs =>
    let nc := t.noCache || !cfg.enableCache
    let oh : OH κ := if t.outs.isEmpty then .self k else if nc then .nocache ovs else .outs ovs
    let res : Result κ := { oh := oh, outs := if nc then [] else ovs }
    let cas' := if nc then s.cache.cas else addBlobs s.cache.cas ovs
    let taint' := if clr && P.fx.syncTaint then upd s.cache.taint t.label false else s.cache.taint
    ({ s2 with cache := { res := upd s.cache.res k (some res), cas := cas', taint := taint' },
               st := upd s.st t.label (some { ok := true, key := some k, oh := some oh, loaded := true }) },
     true)

/-- `Registry.LoadOutputs` for a dependency in minimal mode -/
def loadOutputs (d : Target) (r : Result κ) (s : BState κ) : Option (BState κ) :=
  match s.st d.label with
  | none => none
  | some ds =>
    if ds.loaded then some s else
    match restore d r s.cache s.fs with
    | some fs' => some { s with fs := fs', st := upd s.st d.label (some { ds with loaded := true, oh := some r.oh }) }
    | none => none

/-- `Executor.LoadDependencyOutputs` (fuel: every step of the loop spends one unit).
    Returns the state and whether loading succeeded. -/
def loadDepList (P : Params κ) (cfg : Cfg) (defs : Defs) : Nat → List Lbl → BState κ → BState κ × Bool
  | _, [], s => (s, true)
  | 0, _ :: _, s => (s, false)
  | n + 1, d :: ds, s =>
    match defs d, s.st d with
    | some dt, some dst =>
      match dst.key with
      | none => (s, false)
      | some dk =>
        match s.cache.res dk with
        | none =>
          if P.fx.loadFault then
            if dst.loaded then loadDepList P cfg defs n ds s else
            let (s2, ok2) := loadDepList P cfg defs n dt.ldeps s
            if !ok2 then (s2, false) else
            let (s3, ok3) := execTarget P cfg defs dt dk false s2
            if !ok3 then (s3, false) else loadDepList P cfg defs n ds s3
          else execTarget P cfg defs dt dk false s      -- old: "re-run immediately", and return from the loop
        | some r =>
          match loadOutputs dt r s with
          | some s1 =>
            if dt.noCache && (!P.fx.rerunOnce || !dst.loaded) then
              let (s2, ok2) := loadDepList P cfg defs n dt.ldeps s1
              if !ok2 then (s2, false) else
              let (s3, ok3) := execTarget P cfg defs dt dk false s2
              if !ok3 then (s3, false) else loadDepList P cfg defs n ds s3
            else loadDepList P cfg defs n ds s1
          | none =>
            let (s2, ok2) := loadDepList P cfg defs n dt.ldeps s
            if !ok2 then (s2, false) else
            let (s3, ok3) := execTarget P cfg defs dt dk false s2
            if !ok3 then (s3, false) else loadDepList P cfg defs n ds s3
    | _, _ => (s, false)

/-- the cache-hit branch of `getTaskFunc`; `none` = fall through to execution -/
def tryHit (P : Params κ) (cfg : Cfg) (t : Target) (k : κ) (s : BState κ) : Option (BState κ) :=
  match s.cache.res k with
  | none => none
  | some r =>
    if !s.cache.taint t.label && !t.noCache && cfg.enableCache
        && (checksPass s.fs t.checks || !P.fx.gateChecks) then
      if cfg.minimal then
        if validate t r || !P.fx.minValidate then
          some { s with st := upd s.st t.label (some { ok := true, key := some k, oh := some r.oh, loaded := false }) }
        else none
      else
        match restore t r s.cache s.fs with
        | some fs' => some { s with fs := fs',
                                    st := upd s.st t.label (some { ok := true, key := some k, oh := some r.oh, loaded := true }) }
        | none => none
    else none

/-- the walker callback for one target without the pre-loading of dependency outputs for output checks:
    dependencies first, change hash, task function -/
def buildTargetNoPre (P : Params κ) (cfg : Cfg) (defs : Defs) (fuel : Nat) (t : Target) (s : BState κ) : BState κ :=
  if depsOk s.st t.deps = false then failT s t.label else
  match depOhs s.st t.hdeps with
  | none => failT s t.label
  | some ohs =>
    let k := P.K (keyState t s.fs ohs)
    match tryHit P cfg t k s with
    | some s' => s'
    | none =>
      let (s1, okl) := if cfg.minimal then loadDepList P cfg defs fuel t.ldeps s else (s, true)
      if !okl then failT s1 t.label else
      let (s2, ok) := execTarget P cfg defs t k (s.cache.taint t.label) s1
      if ok then s2 else failT s2 t.label

/-- the walker callback for one target. In minimal mode a target with output checks first gets the outputs of its direct
    dependencies materialised (`getTaskFunc`: `LoadDependencyOutputs` before `runOutputChecks`); a failure to do so fails
    the target. (In the code the change hash is computed before that; loading dependency outputs does not touch resolved
    inputs unless an input glob matches a dependency output — the open finding F-globout.) -/
def buildTarget (P : Params κ) (cfg : Cfg) (defs : Defs) (fuel : Nat) (t : Target) (s : BState κ) : BState κ :=
  if (cfg.minimal && P.fx.checkDeps && !t.checks.isEmpty && depsOk s.st t.deps) = true then
    let (s0, ok0) := loadDepList P cfg defs fuel t.ldeps s
    if !ok0 then failT s0 t.label else buildTargetNoPre P cfg defs fuel t s0
  else buildTargetNoPre P cfg defs fuel t s

theorem buildTarget_all_eq (P : Params κ) (cfg : Cfg) (defs : Defs) (fuel : Nat) (t : Target) (s : BState κ)
    (hm : cfg.minimal = false) : buildTarget P cfg defs fuel t s = buildTargetNoPre P cfg defs fuel t s := by
  simp [buildTarget, hm]

theorem buildTarget_nochecks_eq (P : Params κ) (cfg : Cfg) (defs : Defs) (fuel : Nat) (t : Target) (s : BState κ)
    (hc : t.checks = []) : buildTarget P cfg defs fuel t s = buildTargetNoPre P cfg defs fuel t s := by
  simp [buildTarget, hc]

end Grog.Exec
