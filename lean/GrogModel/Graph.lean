/-
  Model of internal/dag/graph.go (edge lists and traversals).

  Nodes are natural numbers (indices into the node table of the caller). A graph is the list of
  edges in the order in which `AddEdge(from, to)` was called: `from` is the dependency, `to` the
  dependant.  `AddEdge` appends `to` to `outEdges[from]` and `from` to `inEdges[to]`, so both
  adjacency maps are projections of the one edge list (`succs`, `preds`).

  Two families of traversals:
   * `pathsFrom`           — `GetDescendants` / `GetAncestors` / `selectAllAncestorsForBuild` as they
                             were before the `fix:` commit for F-paths: plain recursion over the
                             adjacency lists, one result element (and one recursive call) per *path*.
                             Kept as the regression witness (`C19.ladder_exponential`, `C19.same_answer`).
   * `dfs`                 — the same traversals with a visited set (the current code). Every loop
                             iteration of the Go code (one adjacency-list element examined) is one
                             step; the step counter is part of the result.
  Core Lean only.
-/
import GrogModel.Base
namespace Grog

/-- `(from, to)`: `AddEdge(from, to)`; `from` is a dependency of `to`. -/
abbrev Edge := Nat × Nat

/-- `g.outEdges[v]` (dependants of `v`), in insertion order. -/
def succs (es : List Edge) (v : Nat) : List Nat :=
  (es.filter (fun e => e.1 == v)).map (·.2)

/-- `g.inEdges[v]` (dependencies of `v`), in insertion order. -/
def preds (es : List Edge) (v : Nat) : List Nat :=
  (es.filter (fun e => e.2 == v)).map (·.1)

/-- the graph with every edge reversed: `inEdges` of `es` is `outEdges` of `flipEdges es`. -/
def flipEdges (es : List Edge) : List Edge := es.map (fun e => (e.2, e.1))

/-! ### Path enumeration (the tree before the fix) -/

/-- `GetDescendants` before the fix (with `adj := succs es`), `GetAncestors` (with `adj := preds es`):
    ```
    for _, d := range adj[v] { out = append(out, d); out = append(out, rec(d)...) }
    ```
    One element per non-empty path starting at `v`. The Go recursion has no base case other than an
    empty adjacency list; `fuel` bounds the path length (on a DAG any `fuel ≥` the longest path gives
    the Go result). The number of recursive calls and of `append`s is the length of the result. -/
def pathsFrom (adj : Nat → List Nat) : Nat → Nat → List Nat
  | 0, _ => []
  | fuel + 1, v => (adj v).flatMap (fun d => d :: pathsFrom adj fuel d)

/-- cost of the path enumeration: one recursive call per returned element, plus the initial call. -/
def pathsCost (adj : Nat → List Nat) (fuel v : Nat) : Nat :=
  (pathsFrom adj fuel v).length + 1

/-! ### Visited-set traversal (the current code) -/

/-- outcome of a visited-set traversal -/
inductive DfsRes where
  /-- finished: the visited list (most recently discovered first) and the number of loop iterations -/
  | done (vis : List Nat) (steps : Nat)
  /-- stopped at a node rejected by the `ok` test (selection: platform mismatch) -/
  | bad (culprit : Nat) (steps : Nat)
  /-- ran out of fuel (never happens with `fuel ≥ |todo| + |E|`: `dfs_fuel_enough`) -/
  | fuel
deriving DecidableEq, Repr

def DfsRes.tick : DfsRes → DfsRes
  | .done v s => .done v (s + 1)
  | .bad c s => .bad c (s + 1)
  | .fuel => .fuel

/-- The recursive closure `visit` of the fixed `GetDescendants`/`GetAncestors` and of
    `selectAllAncestorsForBuild`, with the call stack made explicit: `todo` is the concatenation of
    the not yet examined parts of the adjacency lists of all active calls, innermost first.
    ```
    visit(n): for _, d := range adj[n] {
                 if visited[d] { continue }
                 if !ok(d)     { return error }      // selection only
                 visited[d] = true; out = append(out, d)
                 visit(d) }
    ```
    One step = one loop iteration. -/
def dfs (es : List Edge) (ok : Nat → Bool) : Nat → List Nat → List Nat → DfsRes
  | _, [], vis => .done vis 0
  | 0, _ :: _, _ => .fuel
  | fuel + 1, d :: rest, vis =>
    if vis.contains d then (dfs es ok fuel rest vis).tick
    else if !ok d then .bad d 1
    else (dfs es ok fuel (succs es d ++ rest) (d :: vis)).tick

/-- result of a whole traversal from `v`: discovered nodes in discovery order, and the cost:
    loop iterations + calls of `visit` (one per discovered node, one for `v`). -/
structure Trav where
  nodes : List Nat
  cost : Nat
deriving DecidableEq, Repr

/-- `GetDescendants(v)` of the current code:
    `visited := {v}; visit(v); return out`. Fuel `|E|` is always enough (`C19.descendantsV_complete`). -/
def descendantsV (es : List Edge) (v : Nat) : Trav :=
  match dfs es (fun _ => true) es.length (succs es v) [v] with
  | .done vis steps => ⟨vis.dropLast.reverse, steps + vis.length⟩
  | _ => ⟨[], 0⟩

/-- `GetAncestors(v)` of the current code. -/
def ancestorsV (es : List Edge) (v : Nat) : Trav :=
  descendantsV (flipEdges es) v

/-- `getAncestorSet(v)` of internal/analysis/output_conflicts.go (used by `targetsAreOrdered` in the
    output-conflict detection) with its memo cache left out: an explicit stack seeded with `inEdges[v]`, a
    node is marked when it is popped, `v` itself is not marked. The Go loop pops from the end of the
    stack where `dfs` pops from the front: the set and the number of pops (= number of pushes) are the
    same. Cost = pops + the call. -/
def ancestorSetV (es : List Edge) (v : Nat) : Trav :=
  match dfs (flipEdges es) (fun _ => true) (2 * es.length) (preds es v) [] with
  | .done vis steps => ⟨vis.reverse, steps + 1⟩
  | _ => ⟨[], 0⟩

/-! ### `getAncestorSet` with its memo table, and the pair loops of `detectOutputConflicts` -/

/-- the `ancestorCache` of output_conflicts.go: node ↦ its ancestor set -/
abbrev Memo := List (Nat × List Nat)

def Memo.get : Memo → Nat → Option (List Nat)
  | [], _ => none
  | (k, l) :: m, v => if k == v then some l else Memo.get m v

/-- `for cachedAncestor := range cached { set[cachedAncestor] = struct{}{} }` -/
def unionInto (l vis : List Nat) : List Nat :=
  l.foldl (fun acc x => if acc.contains x then acc else x :: acc) vis

/-- the loop of `getAncestorSet(node, cache)` on a cache miss for `node`, over `adj := succs es` (the caller
    passes the flipped edges): pop; already in the set → skip; otherwise add it and — if the cache knows its
    ancestors — merge them in (cost `1 + |cached|`) instead of expanding; else push its adjacency list.
    Result: the set and the cost (pops + merged elements); `none` = out of fuel. -/
def dfsMemo (es : List Edge) (memo : Memo) : Nat → List Nat → List Nat → Option (List Nat × Nat)
  | _, [], vis => some (vis, 0)
  | 0, _ :: _, _ => none
  | fuel + 1, a :: rest, vis =>
    if vis.contains a then (dfsMemo es memo fuel rest vis).map (fun r => (r.1, r.2 + 1))
    else match memo.get a with
      | some l => (dfsMemo es memo fuel rest (unionInto l (a :: vis))).map (fun r => (r.1, r.2 + 1 + l.length))
      | none => (dfsMemo es memo fuel (succs es a ++ rest) (a :: vis)).map (fun r => (r.1, r.2 + 1))

/-- state of the conflict pass: the memo table and the steps spent so far -/
structure PassSt where
  memo : Memo
  cost : Nat

/-- `getAncestorSet(graph, node, cache)`: one step for the lookup; on a miss the traversal, and the result is
    stored -/
def getSet (es : List Edge) (st : PassSt) (v : Nat) : Option (List Nat × PassSt) :=
  match st.memo.get v with
  | some l => some (l, { st with cost := st.cost + 1 })
  | none =>
    match dfsMemo es st.memo (2 * es.length) (succs es v) [] with
    | some (set, c) => some (set, ⟨(v, set) :: st.memo, st.cost + 1 + c⟩)
    | none => none

/-- `targetsAreOrdered(graph, a, b, cache)` -/
def targetsOrdered (es : List Edge) (st : PassSt) (a b : Nat) : Option (Bool × PassSt) :=
  match getSet es st a with
  | none => none
  | some (sa, st1) =>
    if sa.contains b then some (true, st1)
    else match getSet es st1 b with
      | none => none
      | some (sb, st2) => some (sb.contains a, st2)

/-- one of the pair loops of `detectOutputConflicts` (docker tags, equal file paths, dir × dir, dir × file):
    one step per pair plus `targetsAreOrdered`; `pairs` are the target pairs of the output records compared -/
def pairLoop (es : List Edge) : List (Nat × Nat) → PassSt → Option PassSt
  | [], st => some st
  | (a, b) :: rest, st =>
    match targetsOrdered es { st with cost := st.cost + 1 } a b with
    | none => none
    | some (_, st') => pairLoop es rest st'

/-- `GetDescendants(v)` before the fix. -/
def descendantsPaths (es : List Edge) (fuel v : Nat) : List Nat := pathsFrom (succs es) fuel v
/-- `GetAncestors(v)` before the fix. -/
def ancestorsPaths (es : List Edge) (fuel v : Nat) : List Nat := pathsFrom (preds es) fuel v

/-! ### Reachability (specification side) -/

/-- reflexive-transitive closure of the edge relation -/
inductive Reach (es : List Edge) : Nat → Nat → Prop where
  | refl (a : Nat) : Reach es a a
  | step {a b c : Nat} : (a, b) ∈ es → Reach es b c → Reach es a c

/-- at least one edge -/
def ReachPlus (es : List Edge) (a c : Nat) : Prop := ∃ b, (a, b) ∈ es ∧ Reach es b c

/-- acyclicity, witnessed by a numbering that increases along every edge and is bounded by `N`
    (a topological numbering; for a DAG one exists with `N = |V|`). -/
def Ranked (es : List Edge) (rank : Nat → Nat) (N : Nat) : Prop :=
  ∀ e ∈ es, rank e.1 < rank e.2 ∧ rank e.2 ≤ N

/-! ### The width-2 ladder and the chain (C19 families) -/

/-- rung `l` of the ladder: both nodes of level `l` (`2l`, `2l+1`) point to both nodes of level `l+1`. -/
def ladderRung (l : Nat) : List Edge :=
  [(2*l, 2*l+2), (2*l, 2*l+3), (2*l+1, 2*l+2), (2*l+1, 2*l+3)]

/-- ladder of depth `d`: levels `0 … d`, `2(d+1)` nodes, `4d` edges, `2^d` paths from a bottom node
    to each top node. -/
def ladderEdges (d : Nat) : List Edge := (List.range d).flatMap ladderRung

/-- adjacency of the ladder in closed form -/
def ladderAdj (d : Nat) (v : Nat) : List Nat :=
  if v / 2 < d then [2 * (v / 2) + 2, 2 * (v / 2) + 3] else []

/-- chain `0 → 1 → … → n` -/
def chainEdges (n : Nat) : List Edge := (List.range n).map (fun i => (i, i + 1))

end Grog
