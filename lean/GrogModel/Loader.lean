/-
  Model of internal/loading: the Makefile and script annotation scanners (makefile_loader.go,
  script_loader.go), DTO → package enrichment (enrich_package.go), the package merge of load.go and
  the node map of model/build_node_map.go.

  Third-party functions are parameters:
    decode : Bytes → Option Annotation      yaml.Unmarshal of an annotation block
    glob   : Bytes → Option (List Bytes)    doublestar.Glob (files only) inside the package directory
    dur    : Bytes → Option Nat             time.ParseDuration (nanoseconds)
  Errors are a small enum (messages are never compared).  Core Lean only.
-/
import GrogModel.Base
import GrogModel.Label
namespace Grog.Loader
open Grog

/-! ## Strings -/

def sGrog : Bytes := [35, 32, 64, 103, 114, 111, 103]          -- "# @grog"
def sMake : Bytes := [109, 97, 107, 101, 32]                     -- "make "
def sNoCache : Bytes := [110, 111, 45, 99, 97, 99, 104, 101]     -- "no-cache"
def sFile : Bytes := [102, 105, 108, 101]                        -- "file"
def sDir : Bytes := [100, 105, 114]                              -- "dir"
def sDocker : Bytes := [100, 111, 99, 107, 101, 114]             -- "docker"
def cHash : UInt8 := 35
def cNL : UInt8 := 10
def cCR : UInt8 := 13

/-- The byte sequences that `unicode.IsSpace` accepts, as UTF-8 (ASCII ones first). A string starts
    (ends) with one of them iff its first (last) rune is a space: UTF-8 is prefix-free and these are
    the shortest-form encodings. -/
def spaceTokens : List Bytes :=
  [[9], [10], [11], [12], [13], [32],
   [0xC2, 0x85], [0xC2, 0xA0], [0xE1, 0x9A, 0x80],
   [0xE2, 0x80, 0x80], [0xE2, 0x80, 0x81], [0xE2, 0x80, 0x82], [0xE2, 0x80, 0x83], [0xE2, 0x80, 0x84],
   [0xE2, 0x80, 0x85], [0xE2, 0x80, 0x86], [0xE2, 0x80, 0x87], [0xE2, 0x80, 0x88], [0xE2, 0x80, 0x89],
   [0xE2, 0x80, 0x8A], [0xE2, 0x80, 0xA8], [0xE2, 0x80, 0xA9], [0xE2, 0x80, 0xAF], [0xE2, 0x81, 0x9F],
   [0xE3, 0x80, 0x80]]

/-- length of the space token `s` starts with (0 if none) -/
def leadSpace (s : Bytes) : Nat :=
  match spaceTokens.find? (fun t => t.isPrefixOf s) with
  | some t => t.length
  | none => 0

/-- `strings.TrimLeftFunc(s, unicode.IsSpace)`; fuel = length suffices (each round drops ≥ 1 byte). -/
def trimLeftFuel : Nat → Bytes → Bytes
  | 0, s => s
  | n + 1, s =>
    match leadSpace s with
    | 0 => s
    | k => trimLeftFuel n (s.drop k)

def trimLeft (s : Bytes) : Bytes := trimLeftFuel s.length s

def trailSpace (s : Bytes) : Nat :=
  match spaceTokens.find? (fun t => t.reverse.isPrefixOf s.reverse) with
  | some t => t.length
  | none => 0

def trimRightFuel : Nat → Bytes → Bytes
  | 0, s => s
  | n + 1, s =>
    match trailSpace s with
    | 0 => s
    | k => trimRightFuel n (s.take (s.length - k))

def trimRight (s : Bytes) : Bytes := trimRightFuel s.length s

/-- `strings.TrimSpace` -/
def trimSpace (s : Bytes) : Bytes := trimRight (trimLeft s)

/-- `strings.Join(xs, "\n")` -/
def joinNL : List Bytes → Bytes
  | [] => []
  | [x] => x
  | x :: y :: r => x ++ cNL :: joinNL (y :: r)

/-! ## bufio.Scanner with ScanLines -/

def maxToken : Nat := 65536

/-- split at every `\n`; a trailing empty segment is not a line -/
def splitNL : Bytes → List Bytes
  | [] => []
  | c :: r =>
    if c == cNL then [] :: splitNL r
    else match splitNL r with
      | [] => [[c]]
      | l :: ls => (c :: l) :: ls

def dropCR (l : Bytes) : Bytes :=
  match l.reverse with
  | 13 :: r => r.reverse
  | _ => l

/-- the lines the scanner delivers and whether it stopped with `ErrTooLong` (a raw line of
    `maxToken` bytes or more stops the scan; lines before it have been delivered). -/
def scanLines (b : Bytes) : List Bytes × Bool :=
  let raw := splitNL b
  let good := raw.takeWhile (fun l => l.length < maxToken)
  (good.map dropCR, good.length < raw.length)

/-! ## Annotations and DTOs -/

abbrev KV := List (Bytes × Bytes)

/-- `grogAnnotation` (script annotations have no outputs). `platforms = none` is a nil slice. -/
structure Annotation where
  name : Bytes := []
  deps : List Bytes := []
  inputs : List Bytes := []
  tags : List Bytes := []
  fingerprint : KV := []
  env : KV := []
  timeout : Bytes := []
  platforms : Option (List Bytes) := none
  outputs : List Bytes := []
deriving DecidableEq, Repr, Inhabited

structure TargetDTO where
  name : Bytes := []
  command : Bytes := []
  deps : List Bytes := []
  inputs : List Bytes := []
  excludes : List Bytes := []
  outputs : List Bytes := []
  binOutput : Bytes := []
  checks : KV := []
  tags : List Bytes := []
  fingerprint : KV := []
  env : KV := []
  platforms : Option (List Bytes) := none
  timeout : Bytes := []
deriving DecidableEq, Repr, Inhabited

structure AliasDTO where
  name : Bytes
  actual : Bytes
deriving DecidableEq, Repr

/-- list entries are pointers in Go: a JSON `null` / YAML `~` entry decodes to nil (`none`) -/
structure PackageDTO where
  targets : List (Option TargetDTO) := []
  aliases : List (Option AliasDTO) := []
  defaultPlatforms : Option (List Bytes) := none
deriving DecidableEq, Repr, Inhabited

/-! ## Makefile scanner -/

inductive ScanErr where
  | yaml (first last : Nat)      -- "failed to parse annotation block L%d-%d"
  | noColon (line : Nat)         -- "expected a make target definition in L%d"
  | tooLong                      -- bufio.Scanner: token too long
  | indexPanic                   -- a slice index out of range: the process panics
deriving DecidableEq, Repr

/-- Go slice indexing `xs[i]` with `i : Int`; out of range is a panic. -/
def idx (xs : List Nat) (i : Int) : Except ScanErr Nat :=
  if i < 0 then .error .indexPanic
  else match xs[i.toNat]? with
    | some v => .ok v
    | none => .error .indexPanic

/-- which version of `makefileParser.handleTarget` -/
inductive MkVersion where
  | v0     -- the tree before the `fix:` commits for F-makefile
  | cur    -- the current tree
deriving DecidableEq, Repr

/-- the TargetDTO built from a decoded annotation and the make goal (current tree) -/
def mkTarget (a : Annotation) (goal : Bytes) : TargetDTO :=
  { name := if a.name ≠ [] then a.name else goal
    command := sMake ++ goal
    deps := a.deps, inputs := a.inputs, outputs := a.outputs, tags := a.tags
    fingerprint := a.fingerprint, platforms := a.platforms, timeout := a.timeout, env := a.env }

/-- … and before the fix: four annotation fields are dropped -/
def mkTargetV0 (a : Annotation) (goal : Bytes) : TargetDTO :=
  { name := if a.name ≠ [] then a.name else goal
    command := sMake ++ goal
    deps := a.deps, inputs := a.inputs, outputs := a.outputs, tags := a.tags }

/-- `handleTarget(annotationLines, annotationLineNumbers, targetLine[, targetLineNumber])` -/
def handleTarget (decode : Bytes → Option Annotation) (v : MkVersion)
    (lines : List Bytes) (nums : List Nat) (targetLine : Bytes) (targetNo : Nat) :
    Except ScanErr TargetDTO := do
  let content := joinNL lines
  match v with
  | .v0 =>
    let last ← idx nums ((nums.length : Int) - 1)
    let ann ←
      if content.length > 0 then
        match decode content with
        | none => do let first ← idx nums 0; throw (.yaml first last)
        | some a => pure a
      else pure {}
    let tt := trimSpace targetLine
    if !tt.contains cColon then throw (.noColon (last + 1))
    pure (mkTargetV0 ann (tt.takeWhile (· != cColon)))
  | .cur =>
    let ann ←
      if content.length > 0 then
        match decode content with
        | none => do
          let first ← idx nums 0
          let last ← idx nums ((nums.length : Int) - 1)
          throw (.yaml first last)
        | some a => pure a
      else pure {}
    let tt := trimSpace targetLine
    if !tt.contains cColon then throw (.noColon targetNo)
    pure (mkTarget ann (tt.takeWhile (· != cColon)))

/-- scanner position: outside a block, or inside one with the annotation lines and their line
    numbers collected so far (most recent first) -/
inductive ScanSt where
  | outside
  | inBlock (lines : List Bytes) (nums : List Nat)
deriving Repr

structure MkResult where
  targets : List TargetDTO
  found : Bool
  err : Option ScanErr
deriving DecidableEq, Repr

/-- `makefileParser.parse` over the delivered lines; `n` = number of lines consumed so far. -/
def mkGo (decode : Bytes → Option Annotation) (v : MkVersion) :
    ScanSt → Nat → List Bytes → List TargetDTO → Bool → MkResult
  | _, _, [], acc, found => ⟨acc.reverse, found, none⟩
  | .outside, n, l :: rest, acc, found =>
    if sGrog.isPrefixOf (trimSpace l) then mkGo decode v (.inBlock [] []) (n + 1) rest acc true
    else mkGo decode v .outside (n + 1) rest acc found
  | .inBlock ls ns, n, l :: rest, acc, found =>
    let t := trimSpace l
    match t with
    | [] => mkGo decode v (.inBlock ls ns) (n + 1) rest acc found
    | c :: content =>
      if c == cHash then mkGo decode v (.inBlock (content :: ls) ((n + 1) :: ns)) (n + 1) rest acc found
      else
        match handleTarget decode v ls.reverse ns.reverse l (n + 1) with
        | .error e => ⟨acc.reverse, found, some e⟩
        | .ok tgt => mkGo decode v .outside (n + 1) rest (tgt :: acc) found

/-- `MakefileLoader.Load` on the bytes of the file -/
def loadMakefile (decode : Bytes → Option Annotation) (v : MkVersion) (file : Bytes) : MkResult :=
  let (lines, long) := scanLines file
  let r := mkGo decode v .outside 0 lines [] false
  match r.err with
  | some _ => r
  | none => if long then { r with err := some .tooLong } else r

/-- the annotation blocks the scanner hands to the YAML decoder (for building decode tables) -/
def mkBlocks : ScanSt → List Bytes → List Bytes
  | _, [] => []
  | .outside, l :: rest =>
    if sGrog.isPrefixOf (trimSpace l) then mkBlocks (.inBlock [] []) rest else mkBlocks .outside rest
  | .inBlock ls ns, l :: rest =>
    match trimSpace l with
    | [] => mkBlocks (.inBlock ls ns) rest
    | c :: content =>
      if c == cHash then mkBlocks (.inBlock (content :: ls) ns) rest
      else joinNL ls.reverse :: mkBlocks .outside rest

/-! ## Script scanner (`*.grog.sh`, `*.grog.py`) -/

/-- `prependUnique` -/
def prependUnique (xs : List Bytes) (e : Bytes) : List Bytes :=
  if xs.contains e then xs else e :: xs

structure ScriptResult where
  dto : Option TargetDTO       -- the single target (none on error)
  matched : Bool
  err : Option ScanErr
deriving DecidableEq, Repr

def scriptHandle (decode : Bytes → Option Annotation) (lines : List Bytes) (nums : List Nat) :
    Except ScanErr Annotation := do
  let content := joinNL lines
  let last ← idx nums ((nums.length : Int) - 1)
  if content.length > 0 then
    match decode content with
    | none => do let first ← idx nums 0; throw (.yaml first last)
    | some a => pure a
  else pure {}

/-- the scan loop of `scriptParser.parse`: returns the last annotation found (or an error) -/
def scriptGo (decode : Bytes → Option Annotation) :
    ScanSt → Nat → List Bytes → Annotation → Except ScanErr Annotation
  | _, _, [], ann => .ok ann
  | .outside, n, l :: rest, ann =>
    if sGrog.isPrefixOf (trimSpace l) then scriptGo decode (.inBlock [] []) (n + 1) rest ann
    else scriptGo decode .outside (n + 1) rest ann
  | .inBlock ls ns, n, l :: rest, ann =>
    match trimSpace l with
    | [] => scriptGo decode (.inBlock ls ns) (n + 1) rest ann
    | c :: content =>
      if c == cHash then scriptGo decode (.inBlock (content :: ls) ((n + 1) :: ns)) (n + 1) rest ann
      else if ls.isEmpty then scriptGo decode .outside (n + 1) rest ann     -- empty block: fine
      else
        match scriptHandle decode ls.reverse ns.reverse with
        | .error e => .error e
        | .ok a => scriptGo decode .outside (n + 1) rest a

def scriptTarget (a : Annotation) (fileName : Bytes) : TargetDTO :=
  { name := if a.name = [] then fileName else a.name
    deps := a.deps
    inputs := prependUnique a.inputs fileName
    tags := prependUnique a.tags sNoCache
    fingerprint := a.fingerprint, env := a.env, timeout := a.timeout, platforms := a.platforms
    binOutput := fileName }

/-- `ScriptLoader.Load` -/
def loadScript (decode : Bytes → Option Annotation) (fileName : Bytes) (file : Bytes) : ScriptResult :=
  let (lines, long) := scanLines file
  match scriptGo decode .outside 0 lines {} with
  | .error e => ⟨none, true, some e⟩
  | .ok a =>
    if long then ⟨none, false, some .tooLong⟩
    else ⟨some (scriptTarget a fileName), true, none⟩

/-! ## Enrichment -/

structure Output where
  typ : Bytes
  ident : Bytes
deriving DecidableEq, Repr

structure Target where
  label : Label
  command : Bytes
  deps : List Label
  inputs : List Bytes            -- resolved
  unresolved : List Bytes
  excludes : List Bytes
  outputs : List Output
  binOutput : Output
  platforms : Option (List Bytes)
  checks : KV
  tags : List Bytes
  fingerprint : KV
  env : KV
  timeout : Nat
deriving DecidableEq, Repr

structure Alias where
  label : Label
  actual : Label
deriving DecidableEq, Repr

structure Package where
  path : Bytes
  targets : List Target
  aliases : List Alias
deriving DecidableEq, Repr

inductive Err where
  | badLabel | dupLabel | glob | output | binOutput | binNotFile | timeout | nilEntry | badName
deriving DecidableEq, Repr

/-- `strings.ContainsAny(input, "*?[{")` -/
def hasGlobChar (s : Bytes) : Bool := s.any (fun c => c == 42 || c == 63 || c == 91 || c == 123)

/-- first loop of `resolveInputs` -/
def resolveIncl (glob : Bytes → Option (List Bytes)) : List Bytes → Option (List Bytes)
  | [] => some []
  | i :: r =>
    if !hasGlobChar i then (resolveIncl glob r).map (i :: ·)
    else
      match glob i with
      | none => none
      | some m => (resolveIncl glob r).map (m ++ ·)

def resolveExcl (glob : Bytes → Option (List Bytes)) : List Bytes → Option (List Bytes)
  | [] => some []
  | e :: r =>
    match glob e with
    | none => none
    | some m => (resolveExcl glob r).map (m ++ ·)

/-- `resolveInputs` -/
def resolveInputs (glob : Bytes → Option (List Bytes)) (ins excl : List Bytes) : Option (List Bytes) :=
  match resolveIncl glob ins with
  | none => none
  | some res =>
    if excl.isEmpty then some res
    else
      match resolveExcl glob excl with
      | none => none
      | some ex => some (res.filter (fun p => !ex.contains p))

/-- position of the first "::" -/
def findColons : Bytes → Option Nat
  | [] => none
  | [_] => none
  | a :: b :: r =>
    if a == cColon && b == cColon then some 0 else (findColons (b :: r)).map (· + 1)

/-- `output.ParseOutput` -/
def parseOutput (s : Bytes) : Option Output :=
  match findColons s with
  | none => some ⟨sFile, s⟩
  | some i =>
    let ty := s.take i
    let ident := s.drop (i + 2)
    if ty = sFile || ty = sDir || ty = sDocker then some ⟨ty, ident⟩ else none

def parseOutputs : List Bytes → Option (List Output)
  | [] => some []
  | o :: r =>
    match parseOutput o with
    | none => none
    | some p => (parseOutputs r).map (p :: ·)

def parseDeps (cur : Bytes) : List Bytes → Option (List Label)
  | [] => some []
  | d :: r =>
    match parseLabel cur d with
    | none => none
    | some l => (parseDeps cur r).map (l :: ·)

/-- the root package is spelled "" in labels (`if packagePath == "." { packagePath = "" }`) -/
def normPkg (p : Bytes) : Bytes := if p = [cDot] then [] else p

/-- one iteration of the target loop of `getEnrichedPackage`; `pkg` is the loop-carried
    `packagePath` (rewritten to "" after the dependencies of the first target were parsed). -/
def enrichTarget (glob : Bytes → Option (List Bytes)) (dur : Bytes → Option Nat)
    (defaults : Option (List Bytes)) (pkg : Bytes) (done : List Target) (t : TargetDTO) :
    Except Err Target :=
  match parseDeps pkg t.deps with
  | none => .error .badLabel
  | some deps =>
    -- `label.ParseTargetLabel(packagePath, ":"+target.Name)`: the name must pass `validateName`
    if !validName t.name then .error .badName else
    let lbl : Label := ⟨normPkg pkg, t.name⟩
    if done.any (fun d => d.label = lbl) then .error .dupLabel
    else
      match resolveInputs glob t.inputs t.excludes with
      | none => .error .glob
      | some ins =>
        match parseOutputs t.outputs with
        | none => .error .output
        | some outs =>
          let bin : Except Err Output :=
            if t.binOutput ≠ [] then
              match parseOutput t.binOutput with
              | none => .error .binOutput
              | some b => if b.typ = sFile then .ok b else .error .binNotFile
            else .ok ⟨[], []⟩
          match bin with
          | .error e => .error e
          | .ok b =>
            let tmo : Except Err Nat :=
              if t.timeout ≠ [] then
                match dur t.timeout with
                | none => .error .timeout
                | some n => .ok n
              else .ok 0
            match tmo with
            | .error e => .error e
            | .ok n =>
              let plats := match t.platforms with
                | some p => some p
                | none => defaults
              .ok { label := lbl, command := t.command, deps := deps, inputs := ins,
                    unresolved := t.inputs, excludes := t.excludes, outputs := outs, binOutput := b,
                    platforms := plats, checks := t.checks, tags := t.tags,
                    fingerprint := t.fingerprint, env := t.env, timeout := n }

def enrichTargets (glob : Bytes → Option (List Bytes)) (dur : Bytes → Option Nat)
    (defaults : Option (List Bytes)) : Bytes → List Target → List (Option TargetDTO) → Except Err (List Target)
  | _, done, [] => .ok done.reverse
  | _, _, none :: _ => .error .nilEntry
  | pkg, done, some t :: rest =>
    match enrichTarget glob dur defaults pkg done t with
    | .error e => .error e
    | .ok tg => enrichTargets glob dur defaults (normPkg pkg) (tg :: done) rest

def enrichAliases (targets : List Target) : Bytes → List Alias → List (Option AliasDTO) → Except Err (List Alias)
  | _, done, [] => .ok done.reverse
  | _, _, none :: _ => .error .nilEntry
  | pkg, done, some a :: rest =>
    match parseLabel pkg a.actual with
    | none => .error .badLabel
    | some actual =>
      if !validName a.name then .error .badName else
      let lbl : Label := ⟨normPkg pkg, a.name⟩
      if targets.any (fun t => t.label = lbl) || done.any (fun d => d.label = lbl) then .error .dupLabel
      else enrichAliases targets (normPkg pkg) (⟨lbl, actual⟩ :: done) rest

/-- `getEnrichedPackage(logger, packagePath, pkg)` -/
def enrich (glob : Bytes → Option (List Bytes)) (dur : Bytes → Option Nat)
    (pkgPath : Bytes) (dto : PackageDTO) : Except Err Package :=
  match enrichTargets glob dur dto.defaultPlatforms pkgPath [] dto.targets with
  | .error e => .error e
  | .ok ts =>
    -- after a non-empty target loop packagePath has been normalised; with no targets it has not
    let pkg' := if dto.targets.isEmpty then pkgPath else normPkg pkgPath
    match enrichAliases ts pkg' [] dto.aliases with
    | .error e => .error e
    | .ok as =>
      let pkg'' := if dto.aliases.isEmpty then pkg' else normPkg pkg'
      .ok ⟨pkg'', ts, as⟩

/-! ## Merge (load.go) and node map (model/build_node_map.go) -/

/-- `mergePackages(from, into)`; note the asymmetry: targets of `from` are not checked against
    aliases of `into`. -/
def mergePackages (frm into : Package) : Except Err Package :=
  if frm.targets.any (fun t => into.targets.any (fun u => u.label = t.label)) then .error .dupLabel
  else if frm.aliases.any (fun a => into.aliases.any (fun b => b.label = a.label) ||
                                    (into.targets ++ frm.targets).any (fun u => u.label = a.label)) then .error .dupLabel
  else .ok ⟨into.path, into.targets ++ frm.targets, into.aliases ++ frm.aliases⟩

/-- insert a loaded package into `loadedPackages` (keyed by the directory it was loaded from) -/
def insertPkg : List (Bytes × Package) → Bytes → Package → Except Err (List (Bytes × Package))
  | [], k, p => .ok [(k, p)]
  | (k', q) :: rest, k, p =>
    if k' = k then
      match mergePackages p q with
      | .error e => .error e
      | .ok m => .ok ((k', m) :: rest)
    else
      match insertPkg rest k p with
      | .error e => .error e
      | .ok r => .ok ((k', q) :: r)

/-- the merge loop of `LoadPackages` over the packages in arrival order -/
def mergeFrom : List (Bytes × Package) → List (Bytes × Package) → Except Err (List (Bytes × Package))
  | m, [] => .ok m
  | m, (k, p) :: rest =>
    match insertPkg m k p with
    | .error e => .error e
    | .ok m' => mergeFrom m' rest

def mergeAll (arrivals : List (Bytes × Package)) : Except Err (List (Bytes × Package)) :=
  mergeFrom [] arrivals

inductive Node where
  | target (t : Target)
  | alias (a : Alias)
deriving DecidableEq, Repr

def Node.label : Node → Label
  | .target t => t.label
  | .alias a => a.label

def Package.nodes (p : Package) : List Node := p.targets.map .target ++ p.aliases.map .alias

/-- `BuildNodeMapFromPackages`: duplicate labels across everything are an error -/
def nodeMap : List Node → List Node → Except Err (List Node)
  | acc, [] => .ok acc
  | acc, n :: rest =>
    if acc.any (fun m => m.label = n.label) then .error .dupLabel else nodeMap (n :: acc) rest

/-- load + node map: what every command does before anything else -/
def loadGraph (arrivals : List (Bytes × Package)) : Except Err (List Node) :=
  match mergeAll arrivals with
  | .error e => .error e
  | .ok m => nodeMap [] (m.flatMap (fun kp => kp.2.nodes))

/-- `LoadPackages` as a whole: `files` are the BUILD files in the order their worker finished, each with
    the outcome of Load + getEnrichedPackage. Any failing file fails the load (`setError` + cancel). -/
def collectOk : List (Bytes × Except Err Package) → Except Err (List (Bytes × Package))
  | [] => .ok []
  | (_, .error e) :: _ => .error e
  | (k, .ok p) :: rest =>
    match collectOk rest with
    | .error e => .error e
    | .ok l => .ok ((k, p) :: l)

def loadWorkspace (files : List (Bytes × Except Err Package)) : Except Err (List Node) :=
  match collectOk files with
  | .error e => .error e
  | .ok arrivals => loadGraph arrivals

/-! ## Starlark builtins (starlark_loader.go: `targetBuiltin`, `aliasBuiltin`, list / dict conversion)

  First-party code. The Starlark *interpreter* (parsing, evaluation, `UnpackArgs`' generic machinery) is
  third-party; what is modelled is what the builtins do with the argument values they are called with:
  which keywords exist, which type each must have, element-wise conversion of lists and dicts, the
  `output_checks` dict form, and the DTO that results. Calls are keyword-only here. -/

/-- a Starlark value as far as the builtins distinguish them -/
inductive SVal where
  | none
  | bool (b : Bool)
  | int (i : Int)
  | float
  | str (s : Bytes)
  | list (xs : List SVal)
  | dict (kvs : List (SVal × SVal))
deriving Repr

/-- keywords of `target(...)`; `none` in a call stands for any other keyword -/
inductive TKey where
  | name | command | deps | inputs | excludes | outputs | binOutput | checks | tags | fingerprint
  | platforms | env | timeout
deriving DecidableEq, Repr

inductive SErr where
  | missing          -- a required argument is absent
  | unexpected       -- unknown or repeated keyword
  | wrongType        -- `UnpackArgs`: got X, want string / list / dict
  | elemType         -- a list element / dict key / dict value that is not a string
  | badCheck         -- output_checks entry: not a dict, `command` missing or not a string
deriving DecidableEq, Repr

def asStr : SVal → Except SErr Bytes
  | .str s => .ok s
  | _ => .error .wrongType

/-- `starlarkListToStringSlice` after `UnpackArgs` accepted a `*starlark.List` -/
def strElems : List SVal → Except SErr (List Bytes)
  | [] => .ok []
  | .str s :: r => (strElems r).map (s :: ·)
  | _ :: _ => .error .elemType

def asStrList : SVal → Except SErr (List Bytes)
  | .list xs => strElems xs
  | _ => .error .wrongType

/-- `starlarkDictToStringMap` -/
def strPairs : List (SVal × SVal) → Except SErr KV
  | [] => .ok []
  | (.str k, .str v) :: r => (strPairs r).map ((k, v) :: ·)
  | _ :: _ => .error .elemType

def asStrMap : SVal → Except SErr KV
  | .dict kvs => strPairs kvs
  | _ => .error .wrongType

def sCommand : Bytes := [99, 111, 109, 109, 97, 110, 100]                                          -- "command"
def sExpected : Bytes := [101, 120, 112, 101, 99, 116, 101, 100, 95, 111, 117, 116, 112, 117, 116]  -- "expected_output"

/-- `dict.Get(String(k))` -/
def dictGet (k : Bytes) : List (SVal × SVal) → Option SVal
  | [] => none
  | (.str k', v) :: r => if k' = k then some v else dictGet k r
  | _ :: r => dictGet k r

/-- one entry of `starlarkListToOutputChecks` (dict form; a non-string `expected_output` is ignored) -/
def asCheck : SVal → Except SErr (Bytes × Bytes)
  | .dict kvs =>
    match dictGet sCommand kvs with
    | some (.str c) =>
      match dictGet sExpected kvs with
      | some (.str e) => .ok (c, e)
      | _ => .ok (c, [])
    | _ => .error .badCheck
  | _ => .error .badCheck

def checkElems : List SVal → Except SErr KV
  | [] => .ok []
  | x :: r =>
    match asCheck x with
    | .error e => .error e
    | .ok c => (checkElems r).map (c :: ·)

def asChecks : SVal → Except SErr KV
  | .list xs => checkElems xs
  | _ => .error .wrongType

abbrev Kwargs := List (Option TKey × SVal)

def kwGet (k : TKey) : Kwargs → Option SVal
  | [] => none
  | (some k', v) :: r => if k' = k then some v else kwGet k r
  | (none, _) :: r => kwGet k r

/-- no unknown keyword, no keyword twice -/
def kwOk : Kwargs → Bool
  | [] => true
  | (none, _) :: _ => false
  | (some k, _) :: r => (kwGet k r).isNone && kwOk r

def optArg {α} (f : SVal → Except SErr α) (dflt : α) : Option SVal → Except SErr α
  | none => .ok dflt
  | some v => f v

/-- `targetBuiltin` -/
def starTarget (kw : Kwargs) : Except SErr TargetDTO := do
  if !kwOk kw then throw .unexpected
  let name ← match kwGet .name kw with
    | none => throw .missing
    | some v => asStr v
  let command ← optArg asStr [] (kwGet .command kw)
  let deps ← optArg asStrList [] (kwGet .deps kw)
  let inputs ← optArg asStrList [] (kwGet .inputs kw)
  let excludes ← optArg asStrList [] (kwGet .excludes kw)
  let outputs ← optArg asStrList [] (kwGet .outputs kw)
  let binOutput ← optArg asStr [] (kwGet .binOutput kw)
  let checks ← optArg asChecks [] (kwGet .checks kw)
  let tags ← optArg asStrList [] (kwGet .tags kw)
  let fingerprint ← optArg asStrMap [] (kwGet .fingerprint kw)
  let platforms ← optArg (fun v => (asStrList v).map some) none (kwGet .platforms kw)
  let env ← optArg asStrMap [] (kwGet .env kw)
  let timeout ← optArg asStr [] (kwGet .timeout kw)
  pure { name, command, deps, inputs, excludes, outputs, binOutput, checks, tags, fingerprint, platforms, env, timeout }

/-- the canonical `target(...)` call that describes a DTO: every field written out (`platforms` only when
    the DTO has one — Starlark cannot say "nil") -/
def kwargsOf (t : TargetDTO) : Kwargs :=
  [(some .name, .str t.name), (some .command, .str t.command),
   (some .deps, .list (t.deps.map .str)), (some .inputs, .list (t.inputs.map .str)),
   (some .excludes, .list (t.excludes.map .str)), (some .outputs, .list (t.outputs.map .str)),
   (some .binOutput, .str t.binOutput),
   (some .checks, .list (t.checks.map (fun c => .dict [(.str sCommand, .str c.1), (.str sExpected, .str c.2)]))),
   (some .tags, .list (t.tags.map .str)),
   (some .fingerprint, .dict (t.fingerprint.map (fun p => (.str p.1, .str p.2)))),
   (some .env, .dict (t.env.map (fun p => (.str p.1, .str p.2)))),
   (some .timeout, .str t.timeout)] ++
  (match t.platforms with
   | none => []
   | some l => [(some .platforms, .list (l.map .str))])

/-- `aliasBuiltin` (keywords: `none` = unknown, `some true` = name, `some false` = actual) -/
def starAlias (kw : List (Option Bool × SVal)) : Except SErr AliasDTO := do
  let get (b : Bool) := (kw.find? (fun p => p.1 = some b)).map (·.2)
  if kw.any (fun p => p.1.isNone) || (kw.filter (fun p => p.1 = some true)).length > 1 ||
     (kw.filter (fun p => p.1 = some false)).length > 1 then throw .unexpected
  match get true, get false with
  | some n, some a => do pure ⟨← asStr n, ← asStr a⟩
  | _, _ => throw .missing

end Grog.Loader
