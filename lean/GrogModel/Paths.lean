/-
  Lexical path functions of Go's `path/filepath` (Unix) as used by internal/analysis:
  `filepath.Clean`, `filepath.Join`, `path.IsAbs`, and the string tests `pathWithin`,
  `pathsOverlap`, `pathTriesToEscape`, `isWithinWorkspace` of the analysis package.
  Strings are byte strings; everything is purely lexical (no file system access), as in Go.
  Core Lean only.
-/
import GrogModel.Base
namespace Grog.Paths
open Grog

/-- ".." -/
def dotdot : Bytes := [46, 46]
/-- "." -/
def dot : Bytes := [46]

/-- `strings.Split(p, "/")`: always a non-empty list; components contain no `/`. -/
def splitSlash : Bytes → List Bytes
  | [] => [[]]
  | c :: t =>
    if c = cSlash then [] :: splitSlash t
    else match splitSlash t with
      | h :: r => (c :: h) :: r
      | [] => [[c]]

/-- `strings.Join(cs, "/")` -/
def joinSlash : List Bytes → Bytes
  | [] => []
  | [c] => c
  | c :: d :: r => c ++ cSlash :: joinSlash (d :: r)

/-- `path.IsAbs(p)` / `filepath.IsAbs(p)` on Unix -/
def isAbs (p : Bytes) : Bool :=
  match p with
  | c :: _ => c == cSlash
  | [] => false

/-- One step of the component loop of `filepath.Clean`. `st` is the output built so far as a
    stack of components (top = last written component). Empty and `.` components are dropped;
    `..` removes the last written component unless there is none left to remove (then it is kept
    for relative paths and dropped for rooted ones). -/
def step (rooted : Bool) (st : List Bytes) (c : Bytes) : List Bytes :=
  if c = [] then st
  else if c = dot then st
  else if c = dotdot then
    match st with
    | [] => if rooted then [] else [dotdot]
    | top :: rest => if top = dotdot then dotdot :: top :: rest else rest
  else c :: st

/-- the components of the cleaned path, in order -/
def normComps (rooted : Bool) (cs : List Bytes) : List Bytes :=
  (cs.foldl (step rooted) []).reverse

/-- how a relative normal form is printed: "." for the empty one -/
def renderRel (cs : List Bytes) : Bytes :=
  if cs = [] then dot else joinSlash cs

/-- `filepath.Clean(p)` -/
def clean (p : Bytes) : Bytes :=
  if isAbs p then cSlash :: joinSlash (normComps true (splitSlash p))
  else renderRel (normComps false (splitSlash p))

/-- `filepath.Join(elems...)`: leading empty elements are skipped, the rest is joined with `/`
    and cleaned; all empty gives "". -/
def join (elems : List Bytes) : Bytes :=
  match elems.dropWhile (· = []) with
  | [] => []
  | r => clean (joinSlash r)

/-- `cleanOutputPath(target, output) = filepath.Clean(filepath.Join(pkg, output))` -/
def cleanOutputPath (pkg ident : Bytes) : Bytes :=
  clean (join [pkg, ident])

/-- `resolvedOutputPath(target, output) = filepath.Join(workspaceRoot, cleanOutputPath(target, output))`:
    where the output is, resolved from the workspace root -/
def resolvedOutputPath (ws pkg ident : Bytes) : Bytes :=
  join [ws, cleanOutputPath pkg ident]

/-- `pathWithin(path, dir)`: equal, or `dir + "/"` is a string prefix of `path`.
    With `dotRoot` (the tree after the fix for the directory output "."), the cleaned path "."
    — the workspace root of relative paths — contains every relative path that does not climb out of it.
    With `fsRoot` (the tree after overlaps are decided on resolved paths) the file system root "/" is
    its own prefix with separator. -/
def pathWithin (dotRoot fsRoot : Bool) (path dir : Bytes) : Bool :=
  path == dir ||
  (if dotRoot && dir == dot then
     !isAbs path && path != dotdot && !(dotdot ++ [cSlash]).isPrefixOf path
   else if fsRoot && dir == [cSlash] then dir.isPrefixOf path
   else (dir ++ [cSlash]).isPrefixOf path)

/-- `pathsOverlap(a, b)` -/
def pathsOverlap (dotRoot fsRoot : Bool) (a b : Bytes) : Bool :=
  pathWithin dotRoot fsRoot a b || pathWithin dotRoot fsRoot b a

/-- `pathTriesToEscape(rel)`: the cleaned path is `..` or starts with `../` -/
def triesToEscape (p : Bytes) : Bool :=
  let c := clean p
  (dotdot ++ [cSlash]).isPrefixOf c || c == dotdot

/-- non-empty components of a path string -/
def comps (p : Bytes) : List Bytes := (splitSlash p).filter (· ≠ [])

/-- `isWithinWorkspace(ws, pkg, rel)` for an absolute workspace root `ws`:
    `filepath.Abs(filepath.Join(ws, pkg, rel))` is then `Join` itself, and
    `pathTriesToEscape(filepath.Rel(ws, abs))` holds exactly when components of the cleaned `ws`
    remain after the common prefix with `abs`, i.e. when they are not a prefix of those of `abs`. -/
def isWithinWorkspace (ws pkg rel : Bytes) : Bool :=
  (comps (clean ws)).isPrefixOf (comps (join [ws, pkg, rel]))

end Grog.Paths
