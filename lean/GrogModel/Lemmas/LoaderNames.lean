/-
  Every label of an enriched package has a name that passes `validateName` and the (normalised) package
  path of the package.
-/
import GrogModel.Loader
namespace Grog.Loader
open Grog

theorem normPkg_idem (p : Bytes) : normPkg (normPkg p) = normPkg p := by
  unfold normPkg
  by_cases h : p = [cDot]
  · simp [h]
  · simp [h]

/-- what a label made by enrichment for package path `pkg` looks like -/
def GoodLabel (pkg : Bytes) (l : Label) : Prop := validName l.name = true ∧ l.pkg = normPkg pkg

theorem enrichTarget_label {glob dur defaults pkg done t tg}
    (h : enrichTarget glob dur defaults pkg done t = .ok tg) : GoodLabel pkg tg.label := by
  unfold enrichTarget at h
  split at h
  · cases h
  · split at h
    · cases h
    · rename_i hv
      simp only at h
      split at h
      · cases h
      · split at h
        · cases h
        · split at h
          · cases h
          · split at h
            · cases h
            · split at h
              · cases h
              · injection h with h; subst h
                exact ⟨by simpa using hv, rfl⟩

theorem enrichTargets_labels {glob dur defaults} (ts : List (Option TargetDTO)) :
    ∀ (pkg0 pkg : Bytes) (done res : List Target), normPkg pkg = normPkg pkg0 →
      (∀ d ∈ done, GoodLabel pkg0 d.label) →
      enrichTargets glob dur defaults pkg done ts = .ok res → ∀ d ∈ res, GoodLabel pkg0 d.label := by
  induction ts with
  | nil =>
    intro pkg0 pkg done res _ hd h
    simp [enrichTargets] at h; subst h
    intro d hdm; exact hd d (by simpa using hdm)
  | cons t rest ih =>
    intro pkg0 pkg done res hp hd h
    cases t with
    | none => simp [enrichTargets] at h
    | some t =>
      simp only [enrichTargets] at h
      split at h
      · cases h
      · rename_i tg htg
        have g := enrichTarget_label htg
        refine ih pkg0 (normPkg pkg) (tg :: done) res (by rw [normPkg_idem, hp]) ?_ h
        intro d hdm
        rcases List.mem_cons.1 hdm with e | e
        · subst e; exact ⟨g.1, by rw [g.2, hp]⟩
        · exact hd d e

theorem enrichAliases_labels (targets : List Target) (as : List (Option AliasDTO)) :
    ∀ (pkg0 pkg : Bytes) (done res : List Alias), normPkg pkg = normPkg pkg0 →
      (∀ d ∈ done, GoodLabel pkg0 d.label) →
      enrichAliases targets pkg done as = .ok res → ∀ d ∈ res, GoodLabel pkg0 d.label := by
  induction as with
  | nil =>
    intro pkg0 pkg done res _ hd h
    simp [enrichAliases] at h; subst h
    intro d hdm; exact hd d (by simpa using hdm)
  | cons a rest ih =>
    intro pkg0 pkg done res hp hd h
    cases a with
    | none => simp [enrichAliases] at h
    | some a =>
      simp only [enrichAliases] at h
      split at h
      · cases h
      · split at h
        · cases h
        · rename_i hv
          split at h
          · cases h
          · refine ih pkg0 (normPkg pkg) _ res (by rw [normPkg_idem, hp]) ?_ h
            intro d hdm
            rcases List.mem_cons.1 hdm with e | e
            · subst e; exact ⟨by simpa using hv, by simp [hp]⟩
            · exact hd d e

theorem enrich_labels {glob dur pkgPath dto p} (h : enrich glob dur pkgPath dto = .ok p) :
    (∀ t ∈ p.targets, GoodLabel pkgPath t.label) ∧ (∀ a ∈ p.aliases, GoodLabel pkgPath a.label) := by
  unfold enrich at h
  cases hts : enrichTargets glob dur dto.defaultPlatforms pkgPath [] dto.targets with
  | error e => rw [hts] at h; cases h
  | ok ts =>
    rw [hts] at h
    simp only at h
    generalize hpk : (if dto.targets.isEmpty = true then pkgPath else normPkg pkgPath) = pkg' at h
    have hnp : normPkg pkg' = normPkg pkgPath := by
      subst hpk
      split
      · rfl
      · exact normPkg_idem pkgPath
    cases has : enrichAliases ts pkg' [] dto.aliases with
    | error e => rw [has] at h; cases h
    | ok as =>
      rw [has] at h
      injection h with h; subst h
      exact ⟨enrichTargets_labels dto.targets pkgPath pkgPath [] ts rfl (by simp) hts,
        enrichAliases_labels ts dto.aliases pkgPath pkg' [] as hnp (by simp) has⟩

end Grog.Loader
