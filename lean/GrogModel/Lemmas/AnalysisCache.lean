/-
  The memo table of `getAncestorSet` is transparent: with it (`ancLoopC`, `orderedC`, `hasConflictC`)
  every "ordered by dependency" query has the same answer as without (`ancLoop`, `ordered`,
  `hasConflict`), in whatever order the queries are made.
-/
import GrogModel.Lemmas.AnalysisSpec
namespace Grog.Analysis
open Grog Spec

theorem potSum_subset (pred : Label → List Label) {s s' : List Label} (h : ∀ x ∈ s, x ∈ s') :
    ∀ W, potSum pred s' W ≤ potSum pred s W := by
  intro W
  induction W with
  | nil => simp [potSum]
  | cons z Z ih =>
    simp only [potSum]
    by_cases hz : z ∈ s
    · simp only [hz, h z hz, if_true]; omega
    · simp only [hz, if_false]
      split <;> omega

section loop
variable (pred : Label → List Label) (cache : Cache)

theorem ancLoopC_sound (R : Label → Prop) (hR : ∀ x y, R x → y ∈ pred x → R y)
    (hC : ∀ x anc, cacheGet cache x = some anc → R x → ∀ y ∈ anc, R y) :
    ∀ (fuel : Nat) (stack set : List Label), (∀ x ∈ stack, R x) → (∀ x ∈ set, R x) →
      ∀ x ∈ ancLoopC pred cache fuel stack set, R x := by
  intro fuel
  induction fuel with
  | zero => intro stack set _ hs x hx; simp only [ancLoopC] at hx; exact hs x hx
  | succ f ih =>
    intro stack set hst hs x hx
    cases stack with
    | nil => simp only [ancLoopC] at hx; exact hs x hx
    | cons y st =>
      have hy : R y := hst y List.mem_cons_self
      have hst' : ∀ z ∈ st, R z := fun z hz => hst z (List.mem_cons_of_mem _ hz)
      simp only [ancLoopC] at hx
      split at hx
      · exact ih st set hst' hs x hx
      · split at hx
        · rename_i anc hanc
          refine ih st (anc ++ y :: set) hst' ?_ x hx
          intro z hz
          rcases List.mem_append.mp hz with hz | hz
          · exact hC y anc hanc hy z hz
          · rcases List.mem_cons.mp hz with rfl | hz
            · exact hy
            · exact hs z hz
        · refine ih (pred y ++ st) (y :: set) ?_ ?_ x hx
          · intro z hz
            rcases List.mem_append.mp hz with hz | hz
            · exact hR y z hy hz
            · exact hst' z hz
          · intro z hz
            rcases List.mem_cons.mp hz with rfl | hz
            · exact hy
            · exact hs z hz

theorem ancLoopC_closed (V : List Label) (hV : ∀ x y, y ∈ pred x → y ∈ V)
    (hC : ∀ x anc, cacheGet cache x = some anc →
      (∀ z ∈ pred x, z ∈ anc) ∧ (∀ y ∈ anc, ∀ z ∈ pred y, z ∈ anc)) :
    ∀ (fuel : Nat) (stack set : List Label), (∀ x ∈ stack, x ∈ V) →
      (∀ y ∈ set, ∀ z ∈ pred y, z ∈ set ∨ z ∈ stack) → ancPot pred V stack set ≤ fuel →
      (∀ x ∈ set, x ∈ ancLoopC pred cache fuel stack set) ∧
      (∀ x ∈ stack, x ∈ ancLoopC pred cache fuel stack set) ∧
      (∀ y ∈ ancLoopC pred cache fuel stack set, ∀ z ∈ pred y, z ∈ ancLoopC pred cache fuel stack set) := by
  intro fuel
  induction fuel with
  | zero =>
    intro stack set _ hinv hpot
    have : stack = [] := by
      cases stack with
      | nil => rfl
      | cons a b => simp [ancPot] at hpot
    subst this
    simp only [ancLoopC]
    refine ⟨fun x hx => hx, ?_, ?_⟩
    · intro x hx; cases hx
    intro y hy z hz
    rcases hinv y hy z hz with h | h
    · exact h
    · exact nomatch h
  | succ f ih =>
    intro stack set hsV hinv hpot
    cases stack with
    | nil =>
      simp only [ancLoopC]
      refine ⟨fun x hx => hx, ?_, ?_⟩
      · intro x hx; cases hx
      intro y hy z hz
      rcases hinv y hy z hz with h | h
      · exact h
      · exact nomatch h
    | cons x st =>
      have hstV : ∀ z ∈ st, z ∈ V := fun z hz => hsV z (List.mem_cons_of_mem _ hz)
      simp only [ancLoopC]
      split
      · rename_i hxs
        have hinv' : ∀ y ∈ set, ∀ z ∈ pred y, z ∈ set ∨ z ∈ st := by
          intro y hy z hz
          rcases hinv y hy z hz with h | h
          · exact .inl h
          · rcases List.mem_cons.mp h with rfl | h
            · exact .inl hxs
            · exact .inr h
        have hpot' : ancPot pred V st set ≤ f := by
          simp only [ancPot, List.length_cons] at hpot ⊢; omega
        obtain ⟨h1, h2, h3⟩ := ih st set hstV hinv' hpot'
        refine ⟨h1, ?_, h3⟩
        intro z hz
        rcases List.mem_cons.mp hz with rfl | hz
        · exact h1 _ hxs
        · exact h2 z hz
      · rename_i hxs
        have hxV : x ∈ V := hsV x List.mem_cons_self
        split
        · rename_i anc hanc
          obtain ⟨hc1, hc2⟩ := hC x anc hanc
          have hinv' : ∀ y ∈ anc ++ x :: set, ∀ z ∈ pred y, z ∈ anc ++ x :: set ∨ z ∈ st := by
            intro y hy z hz
            rcases List.mem_append.mp hy with hy | hy
            · exact .inl (List.mem_append_left _ (hc2 y hy z hz))
            · rcases List.mem_cons.mp hy with rfl | hy
              · exact .inl (List.mem_append_left _ (hc1 z hz))
              · rcases hinv y hy z hz with h | h
                · exact .inl (List.mem_append_right _ (List.mem_cons_of_mem _ h))
                · rcases List.mem_cons.mp h with rfl | h
                  · exact .inl (List.mem_append_right _ List.mem_cons_self)
                  · exact .inr h
          have hpot' : ancPot pred V st (anc ++ x :: set) ≤ f := by
            have h1 := potSum_mark pred hxs V hxV
            have h2 := potSum_subset pred (s := x :: set) (s' := anc ++ x :: set)
              (fun z hz => List.mem_append_right _ hz) V
            simp only [ancPot, List.length_cons] at hpot ⊢
            omega
          obtain ⟨h1, h2, h3⟩ := ih st (anc ++ x :: set) hstV hinv' hpot'
          refine ⟨fun z hz => h1 z (List.mem_append_right _ (List.mem_cons_of_mem _ hz)), ?_, h3⟩
          intro z hz
          rcases List.mem_cons.mp hz with rfl | hz
          · exact h1 _ (List.mem_append_right _ List.mem_cons_self)
          · exact h2 z hz
        · have hsV' : ∀ z ∈ pred x ++ st, z ∈ V := by
            intro z hz
            rcases List.mem_append.mp hz with hz | hz
            · exact hV x z hz
            · exact hstV z hz
          have hinv' : ∀ y ∈ x :: set, ∀ z ∈ pred y, z ∈ x :: set ∨ z ∈ pred x ++ st := by
            intro y hy z hz
            rcases List.mem_cons.mp hy with rfl | hy
            · exact .inr (List.mem_append_left _ hz)
            · rcases hinv y hy z hz with h | h
              · exact .inl (List.mem_cons_of_mem _ h)
              · rcases List.mem_cons.mp h with rfl | h
                · exact .inl List.mem_cons_self
                · exact .inr (List.mem_append_right _ h)
          have hpot' : ancPot pred V (pred x ++ st) (x :: set) ≤ f := by
            have := potSum_mark pred hxs V hxV
            simp only [ancPot, List.length_cons, List.length_append] at hpot ⊢
            omega
          obtain ⟨h1, h2, h3⟩ := ih (pred x ++ st) (x :: set) hsV' hinv' hpot'
          refine ⟨fun z hz => h1 z (List.mem_cons_of_mem _ hz), ?_, h3⟩
          intro z hz
          rcases List.mem_cons.mp hz with rfl | hz
          · exact h1 _ List.mem_cons_self
          · exact h2 z (List.mem_append_right _ hz)

end loop

/-- every memoised set is the exact set of transitive dependencies of its key -/
def CacheOK (ns : List Node) (c : Cache) : Prop :=
  ∀ l s, cacheGet c l = some s → ∀ b, b ∈ s ↔ Reach ns l b

theorem cacheOK_nil (ns : List Node) : CacheOK ns [] := by
  intro l s h; simp [cacheGet] at h

theorem cacheGet_cons (a : Label) (s : List Label) (c : Cache) (l : Label) :
    cacheGet ((a, s) :: c) l = if a = l then some s else cacheGet c l := by
  unfold cacheGet
  simp only [List.find?_cons]
  by_cases h : a = l
  · simp [h]
  · have : (a == l) = false := by simpa using h
    simp [this, h]

theorem getAncestorSet_spec {ns : List Node} (hnd : NoDuplicate ns) (hdef : DepsDefined ns)
    {c : Cache} (hc : CacheOK ns c) (a : Label) :
    (∀ b, b ∈ (getAncestorSet ns c a).1 ↔ Reach ns a b) ∧ CacheOK ns (getAncestorSet ns c a).2 := by
  unfold getAncestorSet
  cases hg : cacheGet c a with
  | some s => exact ⟨hc a s hg, hc⟩
  | none =>
    simp only
    have hV : ∀ x y, y ∈ preds ns x → y ∈ ns.map Node.label := by
      intro x y hy
      obtain ⟨n, hn, rfl⟩ := hdef x y ((mem_preds hnd).mp hy)
      exact List.mem_map_of_mem hn
    have hmem : ∀ b, b ∈ ancLoopC (preds ns) c (ancFuel ns) (preds ns a) [] ↔ Reach ns a b := by
      intro b
      constructor
      · intro h
        rw [← tpath_preds_iff hnd]
        refine ancLoopC_sound (preds ns) c (fun x => TPath (stepOf (preds ns)) a x) ?_ ?_ _ _ _ ?_ ?_ b h
        · intro x y hx hy; exact hx.snoc hy
        · intro x anc hanc hx y hy
          have := (hc x anc hanc y).mp hy
          exact hx.trans ((tpath_preds_iff hnd).mpr this)
        · intro x hx; exact .single hx
        · intro x hx; cases hx
      · intro h
        rw [← tpath_preds_iff hnd] at h
        have hpot : ancPot (preds ns) (ns.map Node.label) (preds ns a) [] ≤ ancFuel ns := by
          unfold ancPot ancFuel
          rw [potSum_labels hnd ns (fun m hm => hm)]
          have : (preds ns a).length ≤ (ns.map fun n => n.deps.length + 1).sum := by
            unfold preds
            cases hl : lookup ns a with
            | none => simp
            | some n => exact length_le_sum (lookup_some hl).1
          omega
        have hC : ∀ x anc, cacheGet c x = some anc →
            (∀ z ∈ preds ns x, z ∈ anc) ∧ (∀ y ∈ anc, ∀ z ∈ preds ns y, z ∈ anc) := by
          intro x anc hanc
          refine ⟨?_, ?_⟩
          · intro z hz
            exact (hc x anc hanc z).mpr (.single ((mem_preds hnd).mp hz))
          · intro y hy z hz
            exact (hc x anc hanc z).mpr (((hc x anc hanc y).mp hy).snoc ((mem_preds hnd).mp hz))
        obtain ⟨_, h2, h3⟩ := ancLoopC_closed (preds ns) c (ns.map Node.label) hV hC (ancFuel ns) (preds ns a) []
          (fun x hx => hV a x hx) (fun y hy => by cases hy) hpot
        cases h with
        | single h => exact h2 b h
        | cons h hp =>
          exact TPath.closed (S := (· ∈ ancLoopC (preds ns) c (ancFuel ns) (preds ns a) []))
            (fun x y hx hxy => h3 x hx y hxy) hp (h2 _ h)
    refine ⟨hmem, ?_⟩
    intro l s hl b
    rw [cacheGet_cons] at hl
    split at hl
    · rename_i hal
      subst hal
      simp only [Option.some.injEq] at hl
      subst hl
      exact hmem b
    · exact hc l s hl b

/-- the answer of `targetsAreOrdered` does not depend on the memo table -/
theorem orderedC_spec {ns : List Node} (hnd : NoDuplicate ns) (hdef : DepsDefined ns) (cfg : Cfg)
    {c : Cache} (hc : CacheOK ns c) (a b : Label) :
    (orderedC cfg ns c a b).1 = ordered cfg ns a b ∧ CacheOK ns (orderedC cfg ns c a b).2 := by
  unfold orderedC ordered
  split
  · rename_i h
    simp [h, hc]
  · rename_i h
    have hf : (cfg.skipSelf && a == b) = false := by simpa using h
    obtain ⟨h1, hc1⟩ := getAncestorSet_spec hnd hdef hc a
    simp only [hf, Bool.false_or]
    split
    · rename_i hb
      have : b ∈ ancestors ns a := by
        rw [mem_ancestors hnd hdef]
        exact (h1 b).mp (List.contains_iff_mem.mp hb)
      simp [this, hc1]
    · rename_i hb
      obtain ⟨h2, hc2⟩ := getAncestorSet_spec hnd hdef hc1 b
      have hA : (ancestors ns a).contains b = false := by
        rw [Bool.eq_false_iff]
        intro hh
        rw [List.contains_iff_mem, mem_ancestors hnd hdef] at hh
        exact hb (List.contains_iff_mem.mpr ((h1 b).mpr hh))
      refine ⟨?_, hc2⟩
      simp only [hA, Bool.false_or]
      rw [Bool.eq_iff_iff, List.contains_iff_mem, List.contains_iff_mem, h2 a, mem_ancestors hnd hdef]

/-! ### the stateful loops compute what the pure loops compute -/

section folds
variable {α : Type} (q : Cache → α → α → Bool × Cache) (p : α → α → Bool) (OK : Cache → Prop)

theorem rowC_spec (hq : ∀ c x y, OK c → (q c x y).1 = p x y ∧ OK (q c x y).2) (x : α) :
    ∀ (ys : List α) (st : Bool × Cache), OK st.2 →
      (rowC q x ys st).1 = (st.1 || ys.any (p x)) ∧ OK (rowC q x ys st).2 := by
  intro ys
  induction ys with
  | nil => intro st h; simp [rowC, h]
  | cons y r ih =>
    intro st h
    obtain ⟨h1, h2⟩ := hq st.2 x y h
    have := ih (st.1 || (q st.2 x y).1, (q st.2 x y).2) h2
    simp only [rowC, List.foldl_cons] at this ⊢
    refine ⟨?_, this.2⟩
    rw [this.1, h1]
    simp [Bool.or_assoc]

theorem pairsC_spec (hq : ∀ c x y, OK c → (q c x y).1 = p x y ∧ OK (q c x y).2) :
    ∀ (l : List α) (st : Bool × Cache), OK st.2 →
      (pairsC q l st).1 = (st.1 || pairsAny p l) ∧ OK (pairsC q l st).2 := by
  intro l
  induction l with
  | nil => intro st h; simp [pairsC, pairsAny, h]
  | cons x xs ih =>
    intro st h
    obtain ⟨h1, h2⟩ := rowC_spec q p OK hq x xs st h
    obtain ⟨h3, h4⟩ := ih (rowC q x xs st) h2
    simp only [pairsC, pairsAny]
    rw [h3, h1]
    exact ⟨by simp [Bool.or_assoc], h4⟩

theorem crossC_spec (hq : ∀ c x y, OK c → (q c x y).1 = p x y ∧ OK (q c x y).2) (fs : List α) :
    ∀ (ds : List α) (st : Bool × Cache), OK st.2 →
      (ds.foldl (fun st d => rowC q d fs st) st).1 = (st.1 || ds.any fun d => fs.any (p d)) ∧
      OK (ds.foldl (fun st d => rowC q d fs st) st).2 := by
  intro ds
  induction ds with
  | nil => intro st h; simp [h]
  | cons d r ih =>
    intro st h
    obtain ⟨h1, h2⟩ := rowC_spec q p OK hq d fs st h
    obtain ⟨h3, h4⟩ := ih (rowC q d fs st) h2
    simp only [List.foldl_cons, List.any_cons]
    rw [h3, h1]
    exact ⟨by simp [Bool.or_assoc], h4⟩

end folds

/-- **the memo table is transparent**: conflict detection with it equals conflict detection without -/
theorem hasConflictC_eq {ns : List Node} (hnd : NoDuplicate ns) (hdef : DepsDefined ns) (cfg : Cfg) (ws : Bytes) :
    hasConflictC cfg ws ns = hasConflict cfg ws ns := by
  have hsame : ∀ c (r s : Rec), CacheOK ns c →
      (sameKeyC cfg ns c r s).1 = (r.path == s.path && !ordered cfg ns r.owner s.owner) ∧
      CacheOK ns (sameKeyC cfg ns c r s).2 := by
    intro c r s hc
    unfold sameKeyC
    split
    · rename_i hp
      obtain ⟨h1, h2⟩ := orderedC_spec hnd hdef cfg hc r.owner s.owner
      simp [hp, h1, h2]
    · rename_i hp
      simp [hp, hc]
  have hdd : ∀ c (r s : Rec), CacheOK ns c →
      (dirDirC cfg ns c r s).1 = (!ordered cfg ns r.owner s.owner && Paths.pathsOverlap cfg.dotRoot cfg.resolve r.path s.path) ∧
      CacheOK ns (dirDirC cfg ns c r s).2 := by
    intro c r s hc
    obtain ⟨h1, h2⟩ := orderedC_spec hnd hdef cfg hc r.owner s.owner
    simp [dirDirC, h1, h2]
  have hdf : ∀ c (d f : Rec), CacheOK ns c →
      (dirFileC cfg ns c d f).1 = (!ordered cfg ns d.owner f.owner && Paths.pathWithin cfg.dotRoot cfg.resolve f.path d.path) ∧
      CacheOK ns (dirFileC cfg ns c d f).2 := by
    intro c d f hc
    obtain ⟨h1, h2⟩ := orderedC_spec hnd hdef cfg hc d.owner f.owner
    simp [dirFileC, h1, h2]
  unfold hasConflictC hasConflict
  simp only
  obtain ⟨a1, b1⟩ := pairsC_spec _ _ (CacheOK ns) hsame (dockerRecs (targetsOf ns)) (false, []) (cacheOK_nil ns)
  obtain ⟨a2, b2⟩ := pairsC_spec _ _ (CacheOK ns) hsame (fileRecs cfg ws (targetsOf ns)) _ b1
  obtain ⟨a3, b3⟩ := pairsC_spec _ _ (CacheOK ns) hdd (dirRecs cfg ws (targetsOf ns)) _ b2
  obtain ⟨a4, _⟩ := crossC_spec _ _ (CacheOK ns) hdf (fileRecs cfg ws (targetsOf ns)) (dirRecs cfg ws (targetsOf ns)) _ b3
  rw [a4, a3, a2, a1]
  simp

end Grog.Analysis
