import GrogModel.Label
namespace Grog

/-! ### takeWhile / dropWhile at the first colon -/

theorem ne_colon_of_notMem {l : Bytes} (h : cColon ∉ l) : ∀ a ∈ l, (a != cColon) = true := by
  intro a ha
  simp only [bne_iff_ne, ne_eq]
  intro e; subst e; exact h ha

theorem takeWhile_colon_append {l r : Bytes} (h : cColon ∉ l) :
    (l ++ cColon :: r).takeWhile (· != cColon) = l := by
  rw [List.takeWhile_append_of_pos (ne_colon_of_notMem h)]
  simp [List.takeWhile]

theorem dropWhile_colon_append {l r : Bytes} (h : cColon ∉ l) :
    (l ++ cColon :: r).dropWhile (· != cColon) = cColon :: r := by
  rw [List.dropWhile_append_of_pos (ne_colon_of_notMem h)]
  simp [List.dropWhile]

theorem takeWhile_colon_self {l : Bytes} (h : cColon ∉ l) :
    l.takeWhile (· != cColon) = l := by
  have := List.takeWhile_append_of_pos (l₂ := []) (ne_colon_of_notMem h)
  simpa using this

theorem dropWhile_colon_self {l : Bytes} (h : cColon ∉ l) :
    l.dropWhile (· != cColon) = [] := by
  have := List.dropWhile_append_of_pos (l₂ := []) (ne_colon_of_notMem h)
  simpa using this

theorem colon_notMem_takeWhile (l : Bytes) : cColon ∉ l.takeWhile (· != cColon) := by
  intro h
  have ha := List.all_takeWhile (p := (· != cColon)) (l := l)
  rw [List.all_eq_true] at ha
  have := ha _ h
  simp at this

/-! ### findDots -/

theorem dots3_isPrefixOf_iff (l : Bytes) : dots3.isPrefixOf l = true ↔ ∃ r, l = 46 :: 46 :: 46 :: r := by
  rw [List.isPrefixOf_iff_prefix]
  constructor
  · rintro ⟨r, hr⟩; exact ⟨r, by rw [← hr]; rfl⟩
  · rintro ⟨r, rfl⟩; exact ⟨r, rfl⟩

theorem findDots_cons_none {c : UInt8} {t : Bytes} :
    findDots (c :: t) = none ↔ dots3.isPrefixOf (c :: t) = false ∧ findDots t = none := by
  simp only [findDots]
  cases h : dots3.isPrefixOf (c :: t) <;> simp

theorem findDots_nil : findDots [] = none := rfl

/-- no occurrence in `p` ⇒ the first occurrence in `p ++ "/..."` is right after the slash -/
theorem findDots_append_slash_dots (p : Bytes) (h : findDots p = none) :
    findDots (p ++ cSlash :: dots3) = some (p.length + 1) := by
  induction p with
  | nil => decide
  | cons c t ih =>
    obtain ⟨h1, h2⟩ := findDots_cons_none.mp h
    have ih' := ih h2
    have hnp : dots3.isPrefixOf (c :: (t ++ cSlash :: dots3)) = false := by
      rw [Bool.eq_false_iff]
      intro hp
      obtain ⟨r, hr⟩ := (dots3_isPrefixOf_iff _).mp hp
      have : dots3.isPrefixOf (c :: t) = true := by
        match t, hr with
        | [], hr => simp [cSlash] at hr
        | [d], hr => simp [cSlash] at hr
        | d :: e :: t', hr =>
          simp at hr
          obtain ⟨rfl, rfl, rfl, _⟩ := hr
          simp [dots3, List.isPrefixOf]
      rw [h1] at this; contradiction
    show findDots (c :: (t ++ cSlash :: dots3)) = _
    simp only [findDots, hnp, ih']
    simp

theorem findDots_append_none {a b : Bytes} (h : findDots (a ++ b) = none) : findDots a = none := by
  induction a with
  | nil => rfl
  | cons c t ih =>
    have h' : findDots (c :: (t ++ b)) = none := h
    obtain ⟨h1, h2⟩ := findDots_cons_none.mp h'
    refine findDots_cons_none.mpr ⟨?_, ih h2⟩
    rw [Bool.eq_false_iff]
    intro hp
    obtain ⟨r, hr⟩ := (dots3_isPrefixOf_iff _).mp hp
    have : dots3.isPrefixOf (c :: (t ++ b)) = true := by
      rw [← List.cons_append, hr]; simp [dots3, List.isPrefixOf]
    rw [h1] at this; contradiction

theorem findDots_take_none {l : Bytes} {i : Nat} (h : findDots l = some i) : findDots (l.take i) = none := by
  induction l generalizing i with
  | nil => simp [findDots] at h
  | cons c t ih =>
    simp only [findDots] at h
    split at h
    · simp at h; subst h; rfl
    · rename_i hnp
      cases hft : findDots t with
      | none => simp [hft] at h
      | some k =>
        simp [hft] at h; subst h
        simp only [List.take_succ_cons]
        refine findDots_cons_none.mpr ⟨?_, ih hft⟩
        rw [Bool.eq_false_iff]
        intro hp
        obtain ⟨r, hr⟩ := (dots3_isPrefixOf_iff _).mp hp
        apply hnp
        have hl : c :: t = (c :: t.take k) ++ t.drop k := by simp
        rw [hl, hr]; simp [dots3, List.isPrefixOf]

theorem findDots_lt_length {l : Bytes} {i : Nat} (h : findDots l = some i) : i + 3 ≤ l.length := by
  induction l generalizing i with
  | nil => simp [findDots] at h
  | cons c t ih =>
    simp only [findDots] at h
    split at h
    · rename_i hp
      obtain ⟨r, hr⟩ := (dots3_isPrefixOf_iff _).mp hp
      simp at h; subst h; rw [hr]; simp
    · cases hft : findDots t with
      | none => simp [hft] at h
      | some k =>
        simp [hft] at h; subst h
        have := ih hft
        simp; omega

/-! ### trimSlashes -/

theorem trimSlashes_getLast (p : Bytes) : (trimSlashes p).getLast? ≠ some cSlash := by
  unfold trimSlashes
  rw [List.getLast?_reverse]
  intro h
  have hd := List.head?_dropWhile_not (· == cSlash) p.reverse
  rw [h] at hd
  simp at hd

theorem trimSlashes_eq_self {p : Bytes} (h : p.getLast? ≠ some cSlash) : trimSlashes p = p := by
  unfold trimSlashes
  have : p.reverse.dropWhile (· == cSlash) = p.reverse := by
    cases hr : p.reverse with
    | nil => rfl
    | cons a r =>
      have ha : p.getLast? = some a := by
        rw [← List.head?_reverse, hr]; rfl
      rw [ha] at h
      simp only [List.dropWhile]
      have : (a == cSlash) = false := by
        rw [beq_eq_false_iff_ne]; intro e; apply h; rw [e]
      rw [this]
  rw [this, List.reverse_reverse]

theorem trimSlashes_append_slash (p : Bytes) : trimSlashes (p ++ [cSlash]) = trimSlashes p := by
  unfold trimSlashes
  simp

theorem trimSlashes_prefix (p : Bytes) : ∃ r, p = trimSlashes p ++ r := by
  unfold trimSlashes
  refine ⟨(p.reverse.takeWhile (· == cSlash)).reverse, ?_⟩
  rw [← List.reverse_append, List.takeWhile_append_dropWhile, List.reverse_reverse]

theorem findDots_trimSlashes {p : Bytes} (h : findDots p = none) : findDots (trimSlashes p) = none := by
  obtain ⟨r, hr⟩ := trimSlashes_prefix p
  rw [hr] at h
  exact findDots_append_none h

theorem colon_notMem_trimSlashes {p : Bytes} (h : cColon ∉ p) : cColon ∉ trimSlashes p := by
  obtain ⟨r, hr⟩ := trimSlashes_prefix p
  intro hm; apply h; rw [hr]; exact List.mem_append_left _ hm

theorem take_length_succ_append (p : Bytes) (x : UInt8) (r : Bytes) :
    (p ++ x :: r).take (p.length + 1) = p ++ [x] := by
  induction p with
  | nil => simp
  | cons a t ih => simpa using ih

theorem normPrefix_append_slash {p : Bytes} (h : p.getLast? ≠ some cSlash) :
    normPrefix (p ++ [cSlash]) = p := by
  rw [normPrefix, trimSlashes_append_slash, trimSlashes_eq_self h]

theorem normPrefix_eq_self {p : Bytes} (h : p.getLast? ≠ some cSlash) : normPrefix p = p := by
  rw [normPrefix, trimSlashes_eq_self h]

/-- `List.mapM` in `Option`: fails iff one element fails; otherwise the result lists the images in order. -/
theorem mapM_option_spec {α β : Type} (f : α → Option β) (ss : List α) :
    (ss.mapM f = none ↔ ∃ s ∈ ss, f s = none) ∧
    (∀ qs, ss.mapM f = some qs →
      qs.length = ss.length ∧ ∀ i (h : i < ss.length) (h' : i < qs.length), f ss[i] = some qs[i]) := by
  induction ss with
  | nil => simp
  | cons a t ih =>
    obtain ⟨ih1, ih2⟩ := ih
    cases ha : f a with
    | none =>
      constructor
      · simp [List.mapM_cons, ha]
      · intro qs h; simp [List.mapM_cons, ha] at h
    | some pa =>
      cases ht : t.mapM f with
      | none =>
        constructor
        · simp only [List.mapM_cons, ha, ht]
          simp only [List.mem_cons, exists_eq_or_imp, ha]
          simpa using ih1.mp ht
        · intro qs h; simp [List.mapM_cons, ha, ht] at h
      | some v =>
        obtain ⟨hl, hi⟩ := ih2 v ht
        constructor
        · simp only [List.mapM_cons, ha, ht]
          constructor
          · intro h; simp at h
          · rintro ⟨s, hs, hp⟩
            rcases List.mem_cons.mp hs with rfl | hs
            · simp [ha] at hp
            · have := ih1.mpr ⟨s, hs, hp⟩
              simp [ht] at this
        · intro qs h
          simp [List.mapM_cons, ha, ht] at h
          subst h
          refine ⟨by simp [hl], ?_⟩
          intro i h1 h2
          cases i with
          | zero => simpa using ha
          | succ j => simpa using hi j (by simpa using h1) (by simpa using h2)

end Grog
