/-
  The constraint pass (`CheckTargetConstraints`) against `Spec`: inputs, outputs, alias resolution
  and the test/testonly dependency rules; and the graph stage as a whole.
-/
import GrogModel.Lemmas.AnalysisCache
namespace Grog.Analysis
open Grog Grog.Paths Spec

/-! ## inputs and outputs -/

theorem inputErrors_nil {t : Target} : inputErrors Cfg.current t = [] ↔ ∀ i ∈ t.checkedInputs, ¬ InputEscapes i := by
  unfold inputErrors
  simp only [Cfg.current, if_true]
  rw [List.filterMap_eq_nil_iff]
  constructor
  · intro h i hi
    have := h i hi
    by_cases ha : isAbs i = true
    · simp [ha] at this
    · have ha' : isAbs i = false := by simpa using ha
      simp only [ha', Bool.false_eq_true, if_false] at this
      rintro (h1 | h1)
      · exact ha h1
      · rw [← triesToEscape_rel ha'] at h1
        simp [h1] at this
  · intro h i hi
    have hn := h i hi
    have ha' : isAbs i = false := by
      cases hh : isAbs i
      · rfl
      · exact absurd (.inl hh) hn
    have : triesToEscape i = false := by
      cases hh : triesToEscape i
      · rfl
      · exact absurd (.inr ((triesToEscape_rel ha').mp hh)) hn
    simp [ha', this]

theorem outputErrors_nil {ws : Bytes} (hws : isAbs ws = true) {t : Target} :
    outputErrors Cfg.current ws t = [] ↔ ∀ o ∈ t.outs, ¬ OutputEscapes ws t o := by
  unfold outputErrors checkedOuts
  rw [List.filterMap_eq_nil_iff]
  simp only [List.mem_map, List.mem_filter, Cfg.current, Bool.true_and, Bool.or_eq_true, decide_eq_true_eq]
  constructor
  · intro h o ho hesc
    obtain ⟨hk, hbad⟩ := hesc
    have hk' : o.kind = .file ∨ o.kind = .dir := by
      cases hkk : o.kind <;> simp_all
    have := h o.ident ⟨o, ⟨ho, hk'⟩, rfl⟩
    rcases hbad with hb | hb
    · simp [hb] at this
    · by_cases ha : isAbs o.ident = true
      · simp [ha] at this
      · have ha' : isAbs o.ident = false := by simpa using ha
        simp only [ha', Bool.false_eq_true, if_false] at this
        have hw : isWithinWorkspace ws t.label.pkg o.ident = false := by
          cases hh : isWithinWorkspace ws t.label.pkg o.ident
          · rfl
          · exact absurd ((isWithinWorkspace_abs hws).mp hh) hb
        simp [hw] at this
  · rintro h _ ⟨o, ⟨ho, hk⟩, rfl⟩
    have hn := h o ho
    have hk' : o.kind ≠ .docker := by
      rcases hk with hk | hk <;> simp [hk]
    have ha' : isAbs o.ident = false := by
      cases hh : isAbs o.ident
      · rfl
      · exact absurd ⟨hk', .inl hh⟩ hn
    have hw : isWithinWorkspace ws t.label.pkg o.ident = true := by
      cases hh : isWithinWorkspace ws t.label.pkg o.ident
      · exfalso
        apply hn
        refine ⟨hk', .inr ?_⟩
        intro hp
        have := (isWithinWorkspace_abs hws).mpr hp
        rw [hh] at this; cases this
      · rfl
    simp [ha', hw]

/-! ## alias resolution -/

/-- the alias labels passed on the way from a label to the target it resolves to -/
inductive RChain (ns : List Node) : Label → List Label → Target → Prop
  | target {t} : Node.target t ∈ ns → RChain ns t.label [] t
  | alias {a L t} : Node.alias a ∈ ns → RChain ns a.actual L t → RChain ns a.label (a.label :: L) t

theorem resolvesTo_chain {ns : List Node} {d : Label} {u : Target} (h : ResolvesTo ns d u) :
    ∃ L, RChain ns d L u := by
  induction h with
  | target ht => exact ⟨[], .target ht⟩
  | alias ha _ ih => obtain ⟨L, hL⟩ := ih; exact ⟨_, .alias ha hL⟩

theorem chain_resolve {ns : List Node} (hnd : NoDuplicate ns) {d : Label} {L : List Label} {u : Target}
    (h : RChain ns d L u) : ∀ f, L.length < f → resolve ns f d = some u := by
  induction h with
  | @target t ht =>
    intro f hf
    cases f with
    | zero => cases hf
    | succ f =>
      have : lookup ns t.label = some (Node.target t) := lookup_mem hnd (n := Node.target t) ht
      simp [resolve, this]
  | @alias a L t ha _ ih =>
    intro f hf
    cases f with
    | zero => cases hf
    | succ f =>
      have : lookup ns a.label = some (Node.alias a) := lookup_mem hnd (n := Node.alias a) ha
      simp only [resolve, this]
      exact ih f (by simp at hf; omega)

theorem chain_mem_reach {ns : List Node} {d : Label} {L : List Label} {u : Target} (h : RChain ns d L u) :
    ∀ x ∈ L, x = d ∨ Reach ns d x := by
  induction h with
  | target _ => intro x hx; cases hx
  | @alias a L t ha _ ih =>
    intro x hx
    have hdep : Dep ns a.label a.actual := ⟨Node.alias a, ha, rfl, by simp [Node.deps]⟩
    rcases List.mem_cons.mp hx with rfl | hx
    · exact .inl rfl
    · rcases ih x hx with rfl | hr
      · exact .inr (.single hdep)
      · exact .inr (.cons hdep hr)

theorem chain_nodup {ns : List Node} (hnc : NoCycle ns) {d : Label} {L : List Label} {u : Target}
    (h : RChain ns d L u) : L.Nodup := by
  induction h with
  | target _ => exact List.nodup_nil
  | @alias a L t ha hc ih =>
    refine List.nodup_cons.mpr ⟨?_, ih⟩
    intro hm
    have hdep : Dep ns a.label a.actual := ⟨Node.alias a, ha, rfl, by simp [Node.deps]⟩
    rcases chain_mem_reach hc _ hm with he | hr
    · exact hnc a.label (.single (he ▸ hdep))
    · exact hnc a.label (.cons hdep hr)

theorem chain_subset {ns : List Node} {d : Label} {L : List Label} {u : Target} (h : RChain ns d L u) :
    ∀ x ∈ L, x ∈ ns.map Node.label := by
  induction h with
  | target _ => intro x hx; cases hx
  | @alias a L t ha _ ih =>
    intro x hx
    rcases List.mem_cons.mp hx with rfl | hx
    · exact List.mem_map_of_mem (f := Node.label) ha
    · exact ih x hx

theorem resolve_sound {ns : List Node} : ∀ (f : Nat) (d : Label) (u : Target),
    resolve ns f d = some u → ResolvesTo ns d u := by
  intro f
  induction f with
  | zero => intro d u h; simp [resolve] at h
  | succ f ih =>
    intro d u h
    simp only [resolve] at h
    cases hl : lookup ns d with
    | none => simp [hl] at h
    | some n =>
      obtain ⟨hn, rfl⟩ := lookup_some hl
      cases n with
      | target t =>
        simp only [hl, Option.some.injEq] at h
        subst h
        exact .target hn
      | alias a =>
        simp only [hl] at h
        exact .alias hn (ih _ _ h)

/-- `resolveDependencyTarget` follows aliases to the target -/
theorem resolve_iff {ns : List Node} (hnd : NoDuplicate ns) (hnc : NoCycle ns) {d : Label} {u : Target} :
    resolve ns (ns.length + 1) d = some u ↔ ResolvesTo ns d u := by
  constructor
  · exact resolve_sound _ _ _
  · intro h
    obtain ⟨L, hL⟩ := resolvesTo_chain h
    apply chain_resolve hnd hL
    have := (chain_nodup hnc hL).length_le_of_subset (fun x hx => chain_subset hL x hx)
    simp at this
    omega

theorem badDep_iff {t u : Target} : badDep t u = true ↔ BadDep t u := by
  unfold badDep BadDep
  cases u.isTest <;> cases t.isTest <;> cases u.testonly <;> cases t.testonly <;> simp

theorem depErrors_nil {ns : List Node} (hnd : NoDuplicate ns) (hnc : NoCycle ns) {t : Target} :
    depErrors ns t = [] ↔ ∀ d ∈ t.deps, ∀ u, ResolvesTo ns d u → ¬ BadDep t u := by
  unfold depErrors
  rw [List.filterMap_eq_nil_iff]
  constructor
  · intro h d hd u hr hb
    have := h d hd
    rw [(resolve_iff hnd hnc).mpr hr] at this
    simp [badDep_iff.mpr hb] at this
  · intro h d hd
    cases hr : resolve ns (ns.length + 1) d with
    | none => rfl
    | some u =>
      have hn := h d hd u ((resolve_iff hnd hnc).mp hr)
      have : badDep t u = false := by
        cases hb : badDep t u
        · rfl
        · exact absurd (badDep_iff.mp hb) hn
      simp [this]

/-! ## the constraint pass as a whole -/

theorem constraintErrors_nil_targets {ws : Bytes} (hws : isAbs ws = true) {ns : List Node} :
    (targetsOf ns).flatMap (targetErrors Cfg.current ws) = [] ↔
      (∀ t, Node.target t ∈ ns → ∀ i ∈ t.checkedInputs, ¬ InputEscapes i) ∧
      (∀ t, Node.target t ∈ ns → ∀ o ∈ t.outs, ¬ OutputEscapes ws t o) ∧
      (∀ t, Node.target t ∈ ns → t.isTest = true → t.hasCmd = true) := by
  rw [List.flatMap_eq_nil_iff]
  simp only [mem_targetsOf, targetErrors, List.append_eq_nil_iff, inputErrors_nil, outputErrors_nil hws]
  constructor
  · intro h
    refine ⟨fun t ht => (h t ht).1.1, fun t ht => (h t ht).1.2, ?_⟩
    intro t ht hte
    have := (h t ht).2
    cases hc : t.hasCmd
    · simp [hte, hc] at this
    · rfl
  · rintro ⟨h1, h2, h3⟩ t ht
    refine ⟨⟨h1 t ht, h2 t ht⟩, ?_⟩
    cases hte : t.isTest
    · simp
    · simp [h3 t ht hte]

theorem constraintErrors_nil {ws : Bytes} (hws : isAbs ws = true) {ns : List Node}
    (hnd : NoDuplicate ns) (hnc : NoCycle ns) :
    constraintErrors Cfg.current ws ns = [] ↔
      (∀ t, Node.target t ∈ ns → ∀ i ∈ t.checkedInputs, ¬ InputEscapes i) ∧
      (∀ t, Node.target t ∈ ns → ∀ o ∈ t.outs, ¬ OutputEscapes ws t o) ∧
      (∀ t, Node.target t ∈ ns → t.isTest = true → t.hasCmd = true) ∧
      ¬ BadTestDep ns := by
  unfold constraintErrors
  rw [List.append_eq_nil_iff, constraintErrors_nil_targets hws, List.flatMap_eq_nil_iff]
  simp only [mem_targetsOf, depErrors_nil hnd hnc, and_assoc]
  constructor
  · rintro ⟨h1, h2, h3, h4⟩
    refine ⟨h1, h2, h3, ?_⟩
    rintro ⟨t, d, u, ht, hd, hr, hb⟩
    exact h4 t ht d hd u hr hb
  · rintro ⟨h1, h2, h3, h4⟩
    refine ⟨h1, h2, h3, ?_⟩
    intro t ht d hd u hr hb
    exact h4 ⟨t, d, u, ht, hd, hr, hb⟩

/-- from an empty error list alone: no output is absolute or leaves the workspace -/
theorem constraintErrors_nil_outputs {ws : Bytes} (hws : isAbs ws = true) {ns : List Node}
    (h : constraintErrors Cfg.current ws ns = []) :
    ∀ t, Node.target t ∈ ns → ∀ o ∈ t.outs, ¬ OutputEscapes ws t o := by
  unfold constraintErrors at h
  rw [List.append_eq_nil_iff] at h
  exact ((constraintErrors_nil_targets hws).mp h.1).2.1

theorem relOuts_of_outputs {ws : Bytes} {ns : List Node}
    (hpk : ∀ t, Node.target t ∈ ns → isAbs t.label.pkg = false)
    (hout : ∀ t, Node.target t ∈ ns → ∀ o ∈ t.outs, ¬ OutputEscapes ws t o) : RelOuts ns := by
  refine ⟨hpk, ?_⟩
  intro t ht o ho hk
  cases hh : isAbs o.ident
  · rfl
  · exact absurd ⟨hk, .inl hh⟩ (hout t ht o ho)

/-! ## the graph stage as a whole -/

theorem buildGraph_none_iff {ws : Bytes} (hws : isAbs ws = true) {ns : List Node} (hnd : NoDuplicate ns)
    (hrel : RelOuts ns) :
    buildGraph Cfg.current ws ns = none ↔ DepsDefined ns ∧ NoCycle ns ∧ ¬ Conflict ws ns := by
  unfold buildGraph
  have hfc := findCycle_spec ns
  constructor
  · intro h
    cases he : edgeErrors ns with
    | some k => simp [he] at h
    | none =>
      have hdef := (edgeErrors_none.mp he).1
      simp only [he] at h
      revert hfc h
      cases findCycle ns <;> simp only
      · intro _ h; cases h
      · intro hnc h
        refine ⟨hdef, hnc, ?_⟩
        intro hc
        rw [← hasConflict_iff hws hnd hdef hrel, ← hasConflictC_eq hnd hdef] at hc
        simp [hc] at h
      · intro hf; exact hf.elim
  · rintro ⟨hdef, hnc, hcf⟩
    have hself : ∀ n ∈ ns, n.label ∉ n.deps := by
      intro n hn hm
      exact hnc n.label (.single ⟨n, hn, rfl, hm⟩)
    rw [edgeErrors_none.mpr ⟨hdef, hself⟩]
    simp only
    revert hfc
    cases findCycle ns <;> simp only
    · intro h; exact absurd hnc h
    · intro _
      have : hasConflictC Cfg.current ws ns = false := by
        rw [hasConflictC_eq hnd hdef]
        cases hh : hasConflict Cfg.current ws ns
        · rfl
        · exact absurd ((hasConflict_iff hws hnd hdef hrel).mp hh) hcf
      simp [this]
    · intro hf; exact hf.elim

end Grog.Analysis
