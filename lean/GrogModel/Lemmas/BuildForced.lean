/-
  Build-level (whole invocation) facts in mode `all` that need no assumption on the key: what a step leaves alone,
  where a target of the order is processed, and that a target whose dependencies succeeded is *reached* with the
  statuses / taint it had at the start. Used by the history-level statements of C13 / C14. Core Lean only.
-/
import GrogModel.Lemmas.BuildInv
set_option linter.unusedSectionVars false
set_option linter.unusedVariables false
set_option linter.unusedSimpArgs false
namespace Grog.Build
open Grog Grog.Exec

variable {κ : Type} [DecidableEq κ]

/-- one step: statuses and taints of the other targets are left alone, the log only grows, a successful status carries
    an output hash, and a failed step leaves the taint of its own target alone -/
theorem step_basic (P : Params κ) (cfg : Cfg) (defs : Defs) (fuel : Nat) (t : Target) (s : BState κ) (hm : cfg.minimal = false) :
    (∀ l, l ≠ t.label → (buildTarget P cfg defs fuel t s).st l = s.st l) ∧
    (∀ l, l ≠ t.label → (buildTarget P cfg defs fuel t s).cache.taint l = s.cache.taint l) ∧
    ((buildTarget P cfg defs fuel t s).log = s.log ∨ (buildTarget P cfg defs fuel t s).log = t.label :: s.log) ∧
    (∀ ts, (buildTarget P cfg defs fuel t s).st t.label = some ts → ts.ok = true → ∃ oh, ts.oh = some oh) ∧
    (∀ ts, (buildTarget P cfg defs fuel t s).st t.label = some ts → ts.ok = false →
      (buildTarget P cfg defs fuel t s).cache.taint t.label = s.cache.taint t.label) ∧
    (∃ ts, (buildTarget P cfg defs fuel t s).st t.label = some ts) := by
  have hcase := buildTarget_all P cfg defs fuel t s hm
  cases hcase with
  | depFailed h e =>
    rw [e]
    exact ⟨fun l hl => upd_other _ _ _ _ hl, fun _ _ => rfl, Or.inl rfl,
      fun ts h1 h2 => by simp [failT, failStat] at h1; subst h1; simp at h2, fun _ _ _ => rfl, ⟨failStat, by simp [failT]⟩⟩
  | noHash h h2 e =>
    rw [e]
    exact ⟨fun l hl => upd_other _ _ _ _ hl, fun _ _ => rfl, Or.inl rfl,
      fun ts h1 h2 => by simp [failT, failStat] at h1; subst h1; simp at h2, fun _ _ _ => rfl, ⟨failStat, by simp [failT]⟩⟩
  | hit ohs h h2 e =>
    obtain ⟨r, fs', _, _, _, _, _, _, hs1⟩ := tryHit_all_some hm e
    rw [hs1]
    exact ⟨fun l hl => upd_other _ _ _ _ hl, fun _ _ => rfl, Or.inl rfl,
      fun ts h1 _ => by simp at h1; subst h1; exact ⟨_, rfl⟩,
      fun ts h1 h2 => by simp at h1; subst h1; simp at h2, ⟨_, upd_same _ _ _⟩⟩
  | ran ohs h h2 h3 e =>
    obtain ⟨_, _, _, ovs, _, _, _, htaint, hst⟩ := execTarget_true e
    have hlog := execTarget_log P cfg defs t (P.K (keyState t s.fs ohs)) (s.cache.taint t.label) s
    rw [e] at hlog
    refine ⟨fun l hl => by rw [hst]; exact upd_other _ _ _ _ hl, fun l hl => ?_, Or.inr hlog,
      fun ts h1 _ => by rw [hst, upd_same] at h1; simp at h1; subst h1; exact ⟨_, rfl⟩,
      fun ts h1 h2 => by rw [hst, upd_same] at h1; simp at h1; subst h1; simp at h2, ⟨_, by rw [hst, upd_same]⟩⟩
    rw [htaint]; split
    · exact upd_other _ _ _ _ hl
    · rfl
  | failed ohs s2 h h2 h3 e e2 =>
    obtain ⟨hc, hst, _⟩ := execTarget_false e
    have hlog := execTarget_log P cfg defs t (P.K (keyState t s.fs ohs)) (s.cache.taint t.label) s
    rw [e] at hlog
    rw [e2]
    refine ⟨fun l hl => by simp only [failT]; rw [upd_other _ _ _ _ hl, hst], fun l _ => by simp only [failT]; rw [hc],
      Or.inr (by simp only [failT]; exact hlog),
      fun ts h1 h2 => by simp [failT, failStat] at h1; subst h1; simp at h2,
      fun _ _ _ => by simp only [failT]; rw [hc], ⟨failStat, by simp [failT]⟩⟩

theorem run_cons (P : Params κ) (cfg : Cfg) (defs : Defs) (fuel : Nat) (l : Lbl) (rest : List Lbl) (s : BState κ) :
    run P cfg defs fuel (l :: rest) s = run P cfg defs fuel rest (stepTarget P cfg defs fuel s l) := by
  simp [run, List.foldl_cons]

theorem run_append (P : Params κ) (cfg : Cfg) (defs : Defs) (fuel : Nat) (a b : List Lbl) (s : BState κ) :
    run P cfg defs fuel (a ++ b) s = run P cfg defs fuel b (run P cfg defs fuel a s) := by
  simp [run, List.foldl_append]

/-- a run over labels other than `l` leaves the status and the taint of `l` alone; the log only grows -/
theorem run_frame (P : Params κ) (cfg : Cfg) (defs : Defs) (fuel : Nat) (hm : cfg.minimal = false)
    (hlab : ∀ l t, defs l = some t → t.label = l) :
    ∀ (rest : List Lbl) (s : BState κ),
      (∀ l, l ∉ rest → (run P cfg defs fuel rest s).st l = s.st l ∧ (run P cfg defs fuel rest s).cache.taint l = s.cache.taint l) ∧
      (∀ x ∈ s.log, x ∈ (run P cfg defs fuel rest s).log) := by
  intro rest
  induction rest with
  | nil => intro s; exact ⟨fun _ _ => ⟨rfl, rfl⟩, fun _ h => h⟩
  | cons a rest ih =>
    intro s
    rw [run_cons]
    obtain ⟨ih1, ih2⟩ := ih (stepTarget P cfg defs fuel s a)
    have hstep : (∀ l, l ≠ a → (stepTarget P cfg defs fuel s a).st l = s.st l ∧
        (stepTarget P cfg defs fuel s a).cache.taint l = s.cache.taint l) ∧ (∀ x ∈ s.log, x ∈ (stepTarget P cfg defs fuel s a).log) := by
      unfold stepTarget
      cases hd : defs a with
      | none => exact ⟨fun _ _ => ⟨rfl, rfl⟩, fun _ h => h⟩
      | some t =>
        obtain ⟨h1, h2, h3, _, _, _⟩ := step_basic P cfg defs fuel t s hm
        have hl := hlab a t hd
        refine ⟨fun l hl' => ⟨h1 l (by rw [hl]; exact hl'), h2 l (by rw [hl]; exact hl')⟩, fun x hx => ?_⟩
        rcases h3 with e | e <;> rw [e]
        · exact hx
        · exact List.mem_cons_of_mem _ hx
    refine ⟨fun l hl => ?_, fun x hx => ih2 x (hstep.2 x hx)⟩
    have hla : l ≠ a := fun e => hl (by simp [e])
    have hlr : l ∉ rest := fun e => hl (by simp [e])
    obtain ⟨e1, e2⟩ := ih1 l hlr
    obtain ⟨e3, e4⟩ := hstep.1 l hla
    exact ⟨by rw [e1, e3], by rw [e2, e4]⟩

/-- every successful status of a run that started without statuses carries an output hash -/
theorem run_ok_oh (P : Params κ) (cfg : Cfg) (defs : Defs) (fuel : Nat) (hm : cfg.minimal = false)
    (hlab : ∀ l t, defs l = some t → t.label = l) :
    ∀ (rest : List Lbl) (s : BState κ), (∀ l ts, s.st l = some ts → ts.ok = true → ∃ oh, ts.oh = some oh) →
      ∀ l ts, (run P cfg defs fuel rest s).st l = some ts → ts.ok = true → ∃ oh, ts.oh = some oh := by
  intro rest
  induction rest with
  | nil => intro s h; exact h
  | cons a rest ih =>
    intro s h
    rw [run_cons]
    apply ih
    intro l ts hts hok
    unfold stepTarget at hts
    cases hd : defs a with
    | none => rw [hd] at hts; exact h l ts hts hok
    | some t =>
      rw [hd] at hts
      obtain ⟨h1, _, _, h4, _, _⟩ := step_basic P cfg defs fuel t s hm
      by_cases e : l = t.label
      · subst e; exact h4 ts hts hok
      · rw [h1 l e] at hts; exact h l ts hts hok

/-- **where a target of the order is processed.** In a build over a well-formed order, the target `l` is handed to the
    step in a state `s0` (the run over the targets before it) in which its taint is the one the build started with, and in
    which its dependencies have the statuses they have at the end of the build; the final log contains the log after that
    step, the final status of `l` is the one that step wrote and — for taints — nothing after the step touches `l`'s taint. -/
theorem reached {P : Params κ} {cfg : Cfg} (hm : cfg.minimal = false) (w : World κ) {order : List Lbl} (hwf : WF w.defs order)
    (l : Lbl) (hl : l ∈ order) (t : Target) (ht : w.defs l = some t) :
    ∃ s0 : BState κ, s0.cache.taint l = w.cache.taint l ∧
      (∀ d ∈ t.deps, s0.st d = (build P cfg w order).st d) ∧
      (∀ d ts, s0.st d = some ts → ts.ok = true → ∃ oh, ts.oh = some oh) ∧
      (∀ x ∈ (buildTarget P cfg w.defs (fuelFor order) t s0).log, x ∈ (build P cfg w order).log) ∧
      (build P cfg w order).st l = (buildTarget P cfg w.defs (fuelFor order) t s0).st l ∧
      (build P cfg w order).cache.taint l = (buildTarget P cfg w.defs (fuelFor order) t s0).cache.taint l := by
  obtain ⟨pre, suf, ho⟩ := List.append_of_mem hl
  have hnd := hwf.nodup; rw [ho] at hnd
  have hlpre : l ∉ pre := fun h => by
    have := (List.nodup_append.1 hnd).2.2 l h l (by simp); exact this rfl
  have hlsuf : l ∉ suf := by
    have := (List.nodup_append.1 hnd).2.1
    exact (List.nodup_cons.1 this).1
  have hb : build P cfg w order = run P cfg w.defs (fuelFor order) suf
      (buildTarget P cfg w.defs (fuelFor order) t (run P cfg w.defs (fuelFor order) pre (start w))) := by
    show run P cfg w.defs (fuelFor order) order (start w) = _
    generalize fuelFor order = fuel
    rw [ho, run_append, run_cons]
    simp only [stepTarget, ht]
  refine ⟨run P cfg w.defs (fuelFor order) pre (start w), ?_, ?_, ?_, ?_, ?_, ?_⟩
  · exact ((run_frame P cfg w.defs (fuelFor order) hm hwf.label pre (start w)).1 l hlpre).2
  · intro d hd
    have hdpre : d ∈ pre := hwf.topo pre l suf ho t ht d hd
    have hdl : d ≠ t.label := by
      rw [hwf.label l t ht]; exact fun e => hlpre (e ▸ hdpre)
    have hdsuf : d ∉ suf := fun h => by
      have := (List.nodup_append.1 hnd).2.2 d hdpre d (by simp [h]); exact this rfl
    rw [hb, ((run_frame P cfg w.defs (fuelFor order) hm hwf.label suf _).1 d hdsuf).1,
      (step_basic P cfg w.defs (fuelFor order) t _ hm).1 d hdl]
  · exact run_ok_oh P cfg w.defs (fuelFor order) hm hwf.label pre (start w) (fun l ts h _ => by simp [start] at h)
  · intro x hx
    rw [hb]; exact (run_frame P cfg w.defs (fuelFor order) hm hwf.label suf _).2 x hx
  · rw [hb]; exact ((run_frame P cfg w.defs (fuelFor order) hm hwf.label suf _).1 l hlsuf).1
  · rw [hb]; exact ((run_frame P cfg w.defs (fuelFor order) hm hwf.label suf _).1 l hlsuf).2

/-- a build over a duplicate-free order, split at one of its targets -/
theorem build_split (P : Params κ) (cfg : Cfg) (w : World κ) {order : List Lbl} (hnd : order.Nodup)
    (l : Lbl) (hl : l ∈ order) (t : Target) (ht : w.defs l = some t) :
    ∃ pre suf, order = pre ++ l :: suf ∧ l ∉ pre ∧ l ∉ suf ∧
      build P cfg w order = run P cfg w.defs (fuelFor order) suf
        (buildTarget P cfg w.defs (fuelFor order) t (run P cfg w.defs (fuelFor order) pre (start w))) := by
  obtain ⟨pre, suf, ho⟩ := List.append_of_mem hl
  have hnd' := hnd; rw [ho] at hnd'
  have hlpre : l ∉ pre := fun h => by
    have := (List.nodup_append.1 hnd').2.2 l h l (by simp); exact this rfl
  have hlsuf : l ∉ suf := by
    have := (List.nodup_append.1 hnd').2.1
    exact (List.nodup_cons.1 this).1
  refine ⟨pre, suf, ho, hlpre, hlsuf, ?_⟩
  show run P cfg w.defs (fuelFor order) order (start w) = _
  generalize fuelFor order = fuel
  rw [ho, run_append, run_cons]
  simp only [stepTarget, ht]

end Grog.Build
