/-
  The build invariant: cache soundness + "the output hash of every finished target describes what is in
  the workspace" + lock-step simulation of the cache-free specification (mode `all`).
-/
import GrogModel.Lemmas.BuildBasic
set_option linter.unusedSectionVars false
set_option linter.unusedSimpArgs false
set_option linter.unusedVariables false
namespace Grog.Build
open Grog Grog.Exec

variable {κ : Type} [DecidableEq κ]

/-- the result stored for a key-state whose command produced `ovs` (`nc`: no-cache / cache-disabled path) -/
def mkRes (nc : Bool) (ks : KeyState κ) (k : κ) (ovs : Outs) : Result κ :=
  { oh := if ks.outs.isEmpty then .self k else if nc then .nocache ovs else .outs ovs,
    outs := if nc then [] else ovs }

/-- **the backbone invariant**: every stored result is what the command returns on the view its key-state encodes -/
def CacheSound (P : Params κ) (c : Cache κ) : Prop :=
  ∀ k r, c.res k = some r → ∃ ks : KeyState κ, P.K ks = k ∧ ks.cmd.writes = ks.outs ∧
    (P.run ks.cmd (viewOf ks)).exit0 = true ∧ ∃ nc : Bool, r = mkRes nc ks k (P.run ks.cmd (viewOf ks)).outs

/-- assumptions on the parameters: injective key, commands write exactly the outputs they name and nothing else -/
structure Good (P : Params κ) : Prop where
  inj : ∀ a b, P.K a = P.K b → a = b
  complete : ∀ c v, (P.run c v).exit0 = true → (P.run c v).outs.map (·.1) = c.writes
  hermetic : ∀ c v, (P.run c v).sets = []

/-- what is admissible: which key-states the key function is required to separate (`ks`), which targets (`tgt`) and
    which file contents (`val`) give admissible key-states. For the real key (`Hash.key`, C09) these are the size
    conditions "every hashed component is shorter than 2^64 bytes" and "fingerprint keys are distinct". -/
structure AdmSpec (κ : Type) where
  ks : KeyState κ → Prop
  tgt : Target → Prop
  val : Val → Prop
  /-- which dependency output hashes occur (the key only has to separate key-states built from these) -/
  oh : OH κ → Prop

def AdmSpec.triv : AdmSpec κ := ⟨fun _ => True, fun _ => True, fun _ => True, fun _ => True⟩

/-- `CacheSound` relative to an admissibility specification: the key-state behind every entry is admissible -/
def CacheSoundK (P : Params κ) (A : AdmSpec κ) (c : Cache κ) : Prop :=
  ∀ k r, c.res k = some r → ∃ ks : KeyState κ, A.ks ks ∧ P.K ks = k ∧ ks.cmd.writes = ks.outs ∧
    (P.run ks.cmd (viewOf ks)).exit0 = true ∧ ∃ nc : Bool, r = mkRes nc ks k (P.run ks.cmd (viewOf ks)).outs

/-- what the proofs need of the key function, instead of injectivity on all key-states: on admissible key-states
    equal keys force the same label, the same "has outputs" and **the same result of the command**
    (the real key identifies states that differ only in the order / duplicates of inputs, the order of outputs,
    dependency hashes and fingerprint entries: the command's result does not depend on those). -/
structure GoodK (P : Params κ) (A : AdmSpec κ) : Prop where
  inj : ∀ a b, A.ks a → A.ks b → P.K a = P.K b →
    a.label = b.label ∧ a.outs.isEmpty = b.outs.isEmpty ∧ P.run a.cmd (viewOf a) = P.run b.cmd (viewOf b)
  complete : ∀ c v, (P.run c v).exit0 = true → (P.run c v).outs.map (·.1) = c.writes
  hermetic : ∀ c v, (P.run c v).sets = []
  admKs : ∀ t fs (ohs : List (OH κ)), A.tgt t → (∀ p ∈ t.inputs, ∀ v, fs p = some v → A.val v) →
    (∀ oh ∈ ohs, A.oh oh) → ohs.length = t.hdeps.length → A.ks (keyState t fs ohs)
  /-- key-states of different targets have different keys (needs no admissibility of the dependency hashes:
      the label is framed into the key by itself) -/
  sepLbl : ∀ t fs (ohs : List (OH κ)) t' fs' (ohs' : List (OH κ)), A.tgt t → A.tgt t' →
    (∀ p ∈ t.inputs, ∀ v, fs p = some v → A.val v) → (∀ p ∈ t'.inputs, ∀ v, fs' p = some v → A.val v) →
    ohs.length = t.hdeps.length → ohs'.length = t'.hdeps.length →
    P.K (keyState t fs ohs) = P.K (keyState t' fs' ohs') → t.label = t'.label
  /-- the output hash a successful run of an admissible key-state exposes to dependants is admissible again -/
  ohOut : ∀ ks, A.ks ks → (P.run ks.cmd (viewOf ks)).exit0 = true → ∀ nc : Bool,
    A.oh (mkRes nc ks (P.K ks) (P.run ks.cmd (viewOf ks)).outs).oh

theorem GoodK_of_Good {P : Params κ} (h : Good P) : GoodK P AdmSpec.triv :=
  ⟨fun a b _ _ hk => by cases h.inj a b hk; exact ⟨rfl, rfl, rfl⟩, h.complete, h.hermetic, fun _ _ _ _ _ _ _ => trivial,
   fun t fs ohs t' fs' ohs' _ _ _ _ _ _ hk => by
     have := h.inj _ _ hk
     exact congrArg KeyState.label this,
   fun _ _ _ _ => trivial⟩

theorem cacheSoundK_triv {P : Params κ} {c : Cache κ} : CacheSoundK P AdmSpec.triv c ↔ CacheSound P c := by
  constructor
  · intro h k r hr; obtain ⟨ks, _, h1, h2, h3, h4⟩ := h k r hr; exact ⟨ks, h1, h2, h3, h4⟩
  · intro h k r hr; obtain ⟨ks, h1, h2, h3, h4⟩ := h k r hr; exact ⟨ks, trivial, h1, h2, h3, h4⟩

theorem mkRes_congr (nc : Bool) (a b : KeyState κ) (k : κ) (ovs : Outs) (h : a.outs.isEmpty = b.outs.isEmpty) :
    mkRes nc a k ovs = mkRes nc b k ovs := by simp only [mkRes, h]

def outPaths (t : Target) : List Path := t.outs.map (·.path)

/-- well-formedness of the part of the workspace a build processes -/
structure WF (defs : Defs) (order : List Lbl) : Prop where
  nodup : order.Nodup
  defined : ∀ l ∈ order, ∃ t, defs l = some t
  label : ∀ l t, defs l = some t → t.label = l
  hdeps : ∀ l ∈ order, ∀ t, defs l = some t → t.hdeps = t.deps ∧ t.cmd.writes = t.outs ∧ (outPaths t).Nodup
  topo : ∀ pre l suf, order = pre ++ l :: suf → ∀ t, defs l = some t → ∀ d ∈ t.deps, d ∈ pre
  outsDisj : ∀ l₁ ∈ order, ∀ l₂ ∈ order, l₁ ≠ l₂ → ∀ t₁ t₂, defs l₁ = some t₁ → defs l₂ = some t₂ →
      ∀ p ∈ outPaths t₁, p ∉ outPaths t₂
  inputsOff : ∀ l ∈ order, ∀ t, defs l = some t → ∀ l' ∈ order, ∀ t', defs l' = some t' → ∀ p ∈ t.inputs, p ∉ outPaths t'
  checksOff : ∀ l ∈ order, ∀ t, defs l = some t → ∀ l' ∈ order, ∀ t', defs l' = some t' → ∀ c ∈ t.checks, c.1 ∉ outPaths t'

/-- the output hash of a finished target describes the declared outputs as they are in the workspace -/
def OhMatches (t : Target) (oh : OH κ) (fs : FS) : Prop :=
  match oh with
  | .outs ovs => ovs.map (·.1) = t.outs ∧ ∀ ov ∈ ovs, fs ov.1.path = some ov.2
  | .nocache ovs => ovs.map (·.1) = t.outs ∧ ∀ ov ∈ ovs, fs ov.1.path = some ov.2
  | .self _ => t.outs = []

theorem OhMatches_congr {t : Target} {oh : OH κ} {fs fs' : FS} (h : ∀ p ∈ outPaths t, fs p = fs' p)
    (hm : OhMatches t oh fs) : OhMatches t oh fs' := by
  cases oh with
  | self k => exact hm
  | outs ovs =>
    obtain ⟨h1, h2⟩ := hm
    refine ⟨h1, fun ov hov => ?_⟩
    rw [← h _ (by rw [outPaths, ← h1]; simp only [List.map_map, List.mem_map]; exact ⟨ov, hov, rfl⟩)]
    exact h2 ov hov
  | nocache ovs =>
    obtain ⟨h1, h2⟩ := hm
    refine ⟨h1, fun ov hov => ?_⟩
    rw [← h _ (by rw [outPaths, ← h1]; simp only [List.map_map, List.mem_map]; exact ⟨ov, hov, rfl⟩)]
    exact h2 ov hov

/-- what a finished dependency contributes to the view, read from the workspace, is what its hash encodes -/
theorem ohVals_eq {defs : Defs} {d : Lbl} {dt : Target} {oh : OH κ} {fs : FS} (hd : defs d = some dt)
    (hm : OhMatches dt oh fs) : (outPathsOf defs d).map (fun p => (p, fs p)) = ohVals oh := by
  have key : ∀ ovs : Outs, ovs.map (·.1) = dt.outs → (∀ ov ∈ ovs, fs ov.1.path = some ov.2) →
      (outPathsOf defs d).map (fun p => (p, fs p)) = ovs.map (fun ov => (ov.1.path, some ov.2)) := by
    intro ovs h1 h2
    simp only [outPathsOf, hd, ← h1, List.map_map]
    apply List.map_congr_left
    intro ov hov
    simp [h2 ov hov]
  cases oh with
  | self k => simp only [OhMatches] at hm; simp [outPathsOf, hd, hm, ohVals]
  | outs ovs => exact key ovs hm.1 hm.2
  | nocache ovs => exact key ovs hm.1 hm.2

theorem depOhs_length {st : Lbl → Option (TStat κ)} : ∀ {deps : List Lbl} {ohs : List (OH κ)}, depOhs st deps = some ohs → ohs.length = deps.length
  | [], ohs, h => by simp [depOhs] at h; subst h; rfl
  | d :: ds, ohs, h => by
    simp only [depOhs] at h
    split at h
    · rename_i a r _ hr
      simp only [Option.some.injEq] at h; subst h
      simp [depOhs_length hr]
    · cases h

/-- the per-dependency facts the invariant provides -/
def DepsDone (defs : Defs) (s : BState κ) (deps : List Lbl) : Prop :=
  ∀ d ∈ deps, ∀ ts, s.st d = some ts → ts.ok = true → ∃ dt oh, defs d = some dt ∧ ts.oh = some oh ∧ OhMatches dt oh s.fs

theorem depsOk_mem {st : Lbl → Option (TStat κ)} {deps : List Lbl} (h : depsOk st deps = true) :
    ∀ d ∈ deps, ∃ ts, st d = some ts ∧ ts.ok = true := by
  intro d hd
  simp only [depsOk, List.all_eq_true] at h
  have := h d hd
  split at this
  · rename_i ds hds; exact ⟨ds, hds, this⟩
  · cases this

/-- the labels paired with the dependency hashes do not change what the key-state's view contains -/
theorem zip_flatMap_snd {α β γ : Type} (f : β → List γ) : ∀ (ls : List α) (l : List β), l.length = ls.length →
    (ls.zip l).flatMap (fun d => f d.2) = l.flatMap f
  | [], [], _ => rfl
  | [], _ :: _, h => by simp at h
  | _ :: _, [], h => by simp at h
  | a :: ls, b :: l, h => by
    simp only [List.zip_cons_cons, List.flatMap_cons]
    rw [zip_flatMap_snd f ls l (by simpa using h)]

theorem viewOf_keyState (t : Target) (fs : FS) (ohs : List (OH κ)) (h : ohs.length = t.hdeps.length) :
    viewOf (keyState t fs ohs) = { inputs := t.inputs.map (fun p => (p, fs p)), deps := ohs.flatMap ohVals } := by
  simp only [viewOf, keyState, zip_flatMap_snd ohVals t.hdeps ohs h]

/-- the dependency hashes folded into a key are admissible if every available one is -/
theorem depOhs_adm {A : AdmSpec κ} {st : Lbl → Option (TStat κ)} : ∀ {deps : List Lbl} {ohs : List (OH κ)}, depOhs st deps = some ohs →
    (∀ d ∈ deps, ∀ oh, ohOf st d = some oh → A.oh oh) → ∀ oh ∈ ohs, A.oh oh
  | [], ohs, h, _ => by simp [depOhs] at h; subst h; intro oh ho; cases ho
  | d :: ds, ohs, h, ha => by
    simp only [depOhs] at h
    split at h
    · rename_i a r ha' hr
      simp only [Option.some.injEq] at h; subst h
      intro oh ho
      rcases List.mem_cons.1 ho with rfl | ho
      · exact ha d (by simp) _ ha'
      · exact depOhs_adm hr (fun d' hd' => ha d' (by simp [hd'])) oh ho
    · cases h

/-- dependencies fine ⇒ their hashes are available and the view read from the workspace is the view the key-state encodes -/
theorem view_eq {defs : Defs} {s : BState κ} {deps : List Lbl} (hok : depsOk s.st deps = true) (hdd : DepsDone defs s deps) :
    ∃ ohs, depOhs s.st deps = some ohs ∧
      (deps.flatMap (outPathsOf defs)).map (fun p => (p, s.fs p)) = ohs.flatMap ohVals := by
  induction deps with
  | nil => exact ⟨[], rfl, rfl⟩
  | cons d ds ih =>
    have hok' : depsOk s.st ds = true := by
      simp only [depsOk, List.all_cons, Bool.and_eq_true] at hok ⊢; exact hok.2
    obtain ⟨ohs, h1, h2⟩ := ih hok' (fun d' hd' => hdd d' (by simp [hd']))
    obtain ⟨ts, hts, htok⟩ := depsOk_mem hok d (by simp)
    obtain ⟨dt, oh, hdt, hoh, hm⟩ := hdd d (by simp) ts hts htok
    refine ⟨oh :: ohs, ?_, ?_⟩
    · simp [depOhs, ohOf, hts, hoh, h1]
    · simp only [List.flatMap_cons, List.map_append, h2, ohVals_eq hdt hm]

/-- reading back what a complete command wrote gives exactly what it wrote -/
theorem collect_writeOuts (fs : FS) (ovs : Outs) (outs : List OutDef) (h : ovs.map (·.1) = outs)
    (hn : (outs.map (·.path)).Nodup) : collect (writeOuts fs ovs) outs = some ovs := by
  have hn' : (ovs.map (·.1.path)).Nodup := by rw [← h, List.map_map] at hn; exact hn
  have hget : ∀ ov ∈ ovs, writeOuts fs ovs ov.1.path = some ov.2 := fun ov hov => writeOuts_get ovs fs hn' ov hov
  clear hn hn'
  generalize writeOuts fs ovs = fs' at hget
  induction ovs generalizing outs with
  | nil => simp at h; subst h; rfl
  | cons ov l ih =>
    simp only [List.map_cons] at h; subst h
    simp only [collect, hget ov (by simp), ih _ rfl (fun ov' h' => hget ov' (by simp [h']))]

end Grog.Build

namespace Grog.Build
open Grog Grog.Exec
variable {κ : Type} [DecidableEq κ]

/-- workspace after the command of `t` ran in `fs` (specification side) -/
def fsA (run : Cmd → View → RunRes) (defs : Defs) (t : Target) (fs : FS) : FS :=
  writeSets (writeOuts fs (run t.cmd (viewAt defs t fs)).outs) (run t.cmd (viewAt defs t fs)).sets

def depsAllOk (c : Spec.CState) (t : Target) : Bool := t.deps.all fun d => c.ok d == some true

/-- when the specification marks `t` successful -/
def cleanOk (run : Cmd → View → RunRes) (defs : Defs) (t : Target) (c : Spec.CState) : Bool :=
  depsAllOk c t && (run t.cmd (viewAt defs t c.fs)).exit0 && checksPass (fsA run defs t c.fs) t.checks &&
    (collect (fsA run defs t c.fs) t.outs).isSome

theorem cleanTarget_spec (run : Cmd → View → RunRes) (defs : Defs) (t : Target) (c : Spec.CState) :
    ∃ fs', Spec.cleanTarget run defs t c = { fs := fs', ok := upd c.ok t.label (some (cleanOk run defs t c)) } ∧
      (fs' = c.fs ∨ (fs' = fsA run defs t c.fs ∧ (run t.cmd (viewAt defs t c.fs)).exit0 = true)) ∧
      (cleanOk run defs t c = true → fs' = fsA run defs t c.fs) := by
  unfold Spec.cleanTarget cleanOk depsAllOk
  by_cases h1 : (t.deps.all fun d => c.ok d == some true) = false
  · exact ⟨c.fs, by simp [h1], Or.inl rfl, by simp [h1]⟩
  · have h1' : (t.deps.all fun d => c.ok d == some true) = true := by simpa using h1
    by_cases h2 : (run t.cmd (viewAt defs t c.fs)).exit0 = false
    · exact ⟨c.fs, by simp [h1', h2], Or.inl rfl, by simp [h2]⟩
    · have h2' : (run t.cmd (viewAt defs t c.fs)).exit0 = true := by simpa using h2
      by_cases h3 : checksPass (fsA run defs t c.fs) t.checks = false
      · refine ⟨fsA run defs t c.fs, ?_, Or.inr ⟨rfl, h2'⟩, fun _ => rfl⟩
        have h3' := h3; unfold fsA at h3'
        simp [h1', h2', h3, h3', fsA]
      · have h3' : checksPass (fsA run defs t c.fs) t.checks = true := by simpa using h3
        have h3'' := h3'; unfold fsA at h3''
        refine ⟨fsA run defs t c.fs, ?_, Or.inr ⟨rfl, h2'⟩, fun _ => rfl⟩
        cases h4 : collect (fsA run defs t c.fs) t.outs with
        | none => have h4' := h4; unfold fsA at h4'; simp [h1', h2', h3', h3'', h4, h4', fsA]
        | some ovs => have h4' := h4; unfold fsA at h4'; simp [h1', h2', h3', h3'', h4, h4', fsA]

/-- with a hermetic, complete command the workspace changes only at the declared outputs -/
theorem fsA_offK {P : Params κ} {A : AdmSpec κ} (hG : GoodK P A) (defs : Defs) (t : Target) (fs : FS) (hw : t.cmd.writes = t.outs)
    (p : Path) (hp : p ∉ outPaths t) (hx : (P.run t.cmd (viewAt defs t fs)).exit0 = true) : fsA P.run defs t fs p = fs p := by
  unfold fsA
  rw [hG.hermetic]
  simp only [writeSets]
  apply writeOuts_not_mem
  have := hG.complete _ _ hx
  rw [hw] at this
  simp only [outPaths] at hp
  rw [← this, List.map_map] at hp
  exact hp

theorem fsA_eqK {P : Params κ} {A : AdmSpec κ} (hG : GoodK P A) (defs : Defs) (t : Target) (fs : FS) :
    fsA P.run defs t fs = writeOuts fs (P.run t.cmd (viewAt defs t fs)).outs := by
  unfold fsA; rw [hG.hermetic]; rfl

theorem fsA_off {P : Params κ} (hG : Good P) (defs : Defs) (t : Target) (fs : FS) (hw : t.cmd.writes = t.outs)
    (p : Path) (hp : p ∉ outPaths t) (hx : (P.run t.cmd (viewAt defs t fs)).exit0 = true) : fsA P.run defs t fs p = fs p :=
  fsA_offK (GoodK_of_Good hG) defs t fs hw p hp hx

theorem fsA_eq {P : Params κ} (hG : Good P) (defs : Defs) (t : Target) (fs : FS) :
    fsA P.run defs t fs = writeOuts fs (P.run t.cmd (viewAt defs t fs)).outs := fsA_eqK (GoodK_of_Good hG) defs t fs

theorem fsAfter_eq_fsA (P : Params κ) (defs : Defs) (t : Target) (fs : FS) : fsAfter P defs t fs = fsA P.run defs t fs := rfl

end Grog.Build

namespace Grog.Build
open Grog Grog.Exec
variable {κ : Type} [DecidableEq κ]

/-- the invariant of a build in mode `all`, in lock step with the cache-free specification -/
structure InvK (P : Params κ) (A : AdmSpec κ) (defs : Defs) (order : List Lbl) (s : BState κ) (c : Spec.CState) (done : List Lbl) : Prop where
  sound : CacheSoundK P A s.cache
  inOk : ∀ l ∈ order, ∀ t, defs l = some t → ∀ p ∈ t.inputs, ∀ v, s.fs p = some v → A.val v
  dep : ∀ l ∈ done, ∀ ts, s.st l = some ts → ts.ok = true →
    ∃ t oh, defs l = some t ∧ ts.oh = some oh ∧ OhMatches t oh s.fs ∧ A.oh oh
  fsOff : ∀ p, (∀ l ∈ order, ∀ t, defs l = some t → p ∉ outPaths t) → s.fs p = c.fs p
  okIff : ∀ l ∈ done, (∃ ts, s.st l = some ts ∧ ts.ok = true) ↔ c.ok l = some true
  fsOut : ∀ l ∈ done, c.ok l = some true → ∀ t, defs l = some t → ∀ p ∈ outPaths t, s.fs p = c.fs p

theorem all_congr_mem {α : Type} (l : List α) (f g : α → Bool) (h : ∀ a ∈ l, f a = g a) : l.all f = l.all g := by
  induction l with
  | nil => rfl
  | cons a l ih => simp only [List.all_cons]; rw [h a (by simp), ih (fun b hb => h b (by simp [hb]))]

theorem depsOk_iff {P : Params κ} {A : AdmSpec κ} {defs : Defs} {order : List Lbl} {s : BState κ} {c : Spec.CState} {done : List Lbl}
    (hI : InvK P A defs order s c done) (t : Target) (hd : ∀ d ∈ t.deps, d ∈ done) : depsOk s.st t.deps = depsAllOk c t := by
  unfold depsOk depsAllOk
  apply all_congr_mem
  intro d hdm
  have := hI.okIff d (hd d hdm)
  cases hs : s.st d with
  | none =>
    simp only [hs] at this ⊢
    cases hc : c.ok d with
    | none => rfl
    | some b =>
      cases b with
      | false => rfl
      | true => rw [hc] at this; obtain ⟨ts, h, _⟩ := this.2 rfl; cases h
  | some ds =>
    simp only [hs] at this ⊢
    cases hk : ds.ok with
    | true =>
      have := this.1 ⟨ds, rfl, hk⟩
      simp [this]
    | false =>
      cases hc : c.ok d with
      | none => rfl
      | some b =>
        cases b with
        | false => rfl
        | true =>
          rw [hc] at this; obtain ⟨ts, h, hk'⟩ := this.2 rfl
          simp only [Option.some.injEq] at h; subst h; rw [hk] at hk'; cases hk'

theorem view_agree {P : Params κ} {A : AdmSpec κ} {defs : Defs} {order : List Lbl} {s : BState κ} {c : Spec.CState} {done : List Lbl}
    (hI : InvK P A defs order s c done) (hwf : WF defs order) (l : Lbl) (hl : l ∈ order) (t : Target) (ht : defs l = some t)
    (hd : ∀ d ∈ t.deps, d ∈ done) (hdo : ∀ d ∈ done, d ∈ order) (hok : depsOk s.st t.deps = true) :
    viewAt defs t s.fs = viewAt defs t c.fs := by
  unfold viewAt
  congr 1
  · apply List.map_congr_left
    intro p hp
    rw [hI.fsOff p (fun l' hl' t' ht' => hwf.inputsOff l hl t ht l' hl' t' ht' p hp)]
  · apply List.map_congr_left
    intro p hp
    simp only [List.mem_flatMap] at hp
    obtain ⟨d, hdm, hpd⟩ := hp
    have hcok : c.ok d = some true := by
      have h1 := depsOk_iff hI t hd
      rw [hok] at h1
      have := List.all_eq_true.1 h1.symm d hdm
      simpa using this
    cases hdt : defs d with
    | none => simp [outPathsOf, hdt] at hpd
    | some dt =>
      have : p ∈ outPaths dt := by simpa [outPathsOf, hdt, outPaths] using hpd
      rw [hI.fsOut d (hd d hdm) hcok dt hdt p this]

/-- **the step**: processing the next target of the order preserves the invariant -/
theorem step_invK {P : Params κ} {A : AdmSpec κ} (hG : GoodK P A) (hfx : P.fx.gateChecks = true) {cfg : Cfg} (hm : cfg.minimal = false)
    {defs : Defs} {order : List Lbl} (hwf : WF defs order) (hT : ∀ l ∈ order, ∀ t, defs l = some t → A.tgt t) (fuel : Nat)
    (pre : List Lbl) (l : Lbl) (suf : List Lbl) (ho : order = pre ++ l :: suf) (t : Target) (ht : defs l = some t)
    {s : BState κ} {c : Spec.CState} (hI : InvK P A defs order s c pre) :
    InvK P A defs order (buildTarget P cfg defs fuel t s) (Spec.cleanTarget P.run defs t c) (pre ++ [l]) := by
  -- bookkeeping about the order
  have hlo : l ∈ order := by rw [ho]; simp
  have hpo : ∀ d ∈ pre, d ∈ order := fun d hd => by rw [ho]; simp [hd]
  have hnd := hwf.nodup; rw [ho] at hnd
  have hlpre : l ∉ pre := fun h => by
    have := (List.nodup_append.1 hnd).2.2 l h l (by simp); exact this rfl
  have hlab : t.label = l := hwf.label l t ht
  obtain ⟨hhd, hwr, hnod⟩ := hwf.hdeps l hlo t ht
  have hdeps : ∀ d ∈ t.deps, d ∈ pre := hwf.topo pre l suf ho t ht
  have hne : ∀ l' ∈ pre, l' ≠ l := fun l' h e => hlpre (e ▸ h)
  -- paths of other targets are not touched by t
  have hdisj : ∀ l' ∈ pre, ∀ t', defs l' = some t' → ∀ p ∈ outPaths t', p ∉ outPaths t :=
    fun l' hl' t' ht' p hp => hwf.outsDisj l' (hpo l' hl') l hlo (hne l' hl') t' t ht' ht p hp
  have hDD : DepsDone defs s t.deps := fun d hd ts hts hk => by
    obtain ⟨dt, oh, h1, h2, h3, _⟩ := hI.dep d (hdeps d hd) ts hts hk
    exact ⟨dt, oh, h1, h2, h3⟩
  obtain ⟨fsc, hc', hfsc, hfscok⟩ := cleanTarget_spec P.run defs t c
  have hdi := depsOk_iff hI t hdeps
  -- generic re-establishment from a summary of the step
  have finish : ∀ (s' : BState κ) (ts' : TStat κ),
      s'.st = upd s.st l (some ts') → (∀ p, p ∉ outPaths t → s'.fs p = s.fs p) → (∀ p, p ∉ outPaths t → fsc p = c.fs p) →
      CacheSoundK P A s'.cache → (ts'.ok = true → ∃ oh, ts'.oh = some oh ∧ OhMatches t oh s'.fs ∧ A.oh oh) →
      ts'.ok = cleanOk P.run defs t c → (ts'.ok = true → ∀ p ∈ outPaths t, s'.fs p = fsc p) →
      InvK P A defs order s' (Spec.cleanTarget P.run defs t c) (pre ++ [l]) := by
    intro s' ts' hst hfs hfc hsound hoh hokeq hout
    rw [hc']
    refine ⟨hsound, ?_, ?_, ?_, ?_, ?_⟩
    · intro l' hl' t' ht' p hp v hv
      rw [hfs p (hwf.inputsOff l' hl' t' ht' l hlo t ht p hp)] at hv
      exact hI.inOk l' hl' t' ht' p hp v hv
    · intro l' hl' ts hts hk
      rcases List.mem_append.1 hl' with hl' | hl'
      · rw [hst, upd_other _ _ _ _ (hne l' hl')] at hts
        obtain ⟨t', oh, ht', hoh', hm', hao⟩ := hI.dep l' hl' ts hts hk
        exact ⟨t', oh, ht', hoh', OhMatches_congr (fun p hp => (hfs p (hdisj l' hl' t' ht' p hp)).symm) hm', hao⟩
      · simp only [List.mem_singleton] at hl'; subst hl'
        rw [hst, upd_same] at hts
        simp only [Option.some.injEq] at hts; subst hts
        obtain ⟨oh, h1, h2⟩ := hoh hk
        exact ⟨t, oh, ht, h1, h2⟩
    · intro p hp
      have hpt : p ∉ outPaths t := hp l hlo t ht
      show s'.fs p = fsc p
      rw [hfs p hpt, hfc p hpt]; exact hI.fsOff p hp
    · intro l' hl'
      rcases List.mem_append.1 hl' with hl' | hl'
      · show (∃ ts, s'.st l' = some ts ∧ ts.ok = true) ↔ upd c.ok t.label _ l' = some true
        rw [hst, upd_other _ _ _ _ (hne l' hl'), hlab, upd_other _ _ _ _ (hne l' hl')]
        exact hI.okIff l' hl'
      · simp only [List.mem_singleton] at hl'; subst hl'
        show (∃ ts, s'.st l' = some ts ∧ ts.ok = true) ↔ upd c.ok t.label _ l' = some true
        rw [hst, upd_same, hlab, upd_same, ← hokeq]
        constructor
        · rintro ⟨ts, h1, h2⟩; simp only [Option.some.injEq] at h1; subst h1; rw [h2]
        · intro h; simp only [Option.some.injEq] at h; exact ⟨ts', rfl, h⟩
    · intro l' hl' hcok t' ht' p hp
      rcases List.mem_append.1 hl' with hl' | hl'
      · have hcok' : c.ok l' = some true := by
          have : upd c.ok t.label (some (cleanOk P.run defs t c)) l' = some true := hcok
          rwa [hlab, upd_other _ _ _ _ (hne l' hl')] at this
        have hpt := hdisj l' hl' t' ht' p hp
        show s'.fs p = fsc p
        rw [hfs p hpt, hfc p hpt]; exact hI.fsOut l' hl' hcok' t' ht' p hp
      · simp only [List.mem_singleton] at hl'; subst hl'
        have : upd c.ok t.label (some (cleanOk P.run defs t c)) l' = some true := hcok
        rw [hlab, upd_same] at this
        simp only [Option.some.injEq] at this
        rw [ht] at ht'; simp only [Option.some.injEq] at ht'; subst ht'
        exact hout (by rw [hokeq, this]) p hp
  -- the specification side leaves everything outside t's outputs alone
  have hfc : ∀ p, p ∉ outPaths t → fsc p = c.fs p := by
    intro p hp
    rcases hfsc with h | h
    · rw [h]
    · rw [h.1]; exact fsA_offK hG defs t c.fs hwr p hp h.2
  -- facts shared by the cases in which the dependencies are fine
  have common : depsOk s.st t.deps = true →
      ∃ ohs, depOhs s.st t.hdeps = some ohs ∧ viewOf (keyState t s.fs ohs) = viewAt defs t s.fs ∧
        viewAt defs t s.fs = viewAt defs t c.fs ∧ depsAllOk c t = true := by
    intro hok
    obtain ⟨ohs, h1, h2⟩ := view_eq hok hDD
    refine ⟨ohs, by rw [hhd]; exact h1, ?_, view_agree hI hwf l hlo t ht hdeps hpo hok, by rw [← hdi]; exact hok⟩
    rw [viewOf_keyState t s.fs ohs (by rw [hhd]; exact depOhs_length h1)]
    simp only [viewAt, h2]
  -- what the command returns, and consequences of exit 0
  have runFacts : (P.run t.cmd (viewAt defs t s.fs)).exit0 = true → viewAt defs t s.fs = viewAt defs t c.fs →
      (P.run t.cmd (viewAt defs t s.fs)).outs.map (·.1) = t.outs ∧
      checksPass (fsA P.run defs t c.fs) t.checks = checksPass (fsA P.run defs t s.fs) t.checks ∧
      checksPass (fsA P.run defs t s.fs) t.checks = checksPass s.fs t.checks ∧
      collect (fsA P.run defs t s.fs) t.outs = some (P.run t.cmd (viewAt defs t s.fs)).outs ∧
      collect (fsA P.run defs t c.fs) t.outs = some (P.run t.cmd (viewAt defs t s.fs)).outs ∧
      (∀ p ∈ outPaths t, fsA P.run defs t s.fs p = fsA P.run defs t c.fs p) ∧
      (∀ ov ∈ (P.run t.cmd (viewAt defs t s.fs)).outs, fsA P.run defs t s.fs ov.1.path = some ov.2) := by
    intro hx hv
    have hmap : (P.run t.cmd (viewAt defs t s.fs)).outs.map (·.1) = t.outs := by rw [hG.complete _ _ hx, hwr]
    have hxc : (P.run t.cmd (viewAt defs t c.fs)).exit0 = true := by rw [← hv]; exact hx
    have hnod' : ((P.run t.cmd (viewAt defs t s.fs)).outs.map (·.1.path)).Nodup := by
      have := hnod; rw [outPaths, ← hmap, List.map_map] at this; exact this
    refine ⟨hmap, ?_, ?_, ?_, ?_, ?_, ?_⟩
    · apply checksPass_congr
      intro ck hck
      have hoff : ∀ l' ∈ order, ∀ t', defs l' = some t' → ck.1 ∉ outPaths t' :=
        fun l' hl' t' ht' => hwf.checksOff l hlo t ht l' hl' t' ht' ck hck
      rw [fsA_offK hG defs t c.fs hwr _ (hoff l hlo t ht) hxc, fsA_offK hG defs t s.fs hwr _ (hoff l hlo t ht) hx]
      exact (hI.fsOff _ hoff).symm
    · apply checksPass_congr
      intro ck hck
      exact fsA_offK hG defs t s.fs hwr _ (hwf.checksOff l hlo t ht l hlo t ht ck hck) hx
    · rw [fsA_eqK hG]; exact collect_writeOuts _ _ _ hmap hnod
    · rw [fsA_eqK hG, ← hv]; exact collect_writeOuts _ _ _ hmap hnod
    · intro p hp
      rw [fsA_eqK hG, fsA_eqK hG, ← hv]
      apply writeOuts_agree
      rw [outPaths, ← hmap, List.map_map] at hp; exact hp
    · intro ov hov
      rw [fsA_eqK hG]; exact writeOuts_get _ _ hnod' ov hov
  have hadm : depsOk s.st t.deps = true → ∀ ohs : List (OH κ), depOhs s.st t.hdeps = some ohs → A.ks (keyState t s.fs ohs) := by
    intro hok ohs ho
    refine hG.admKs t s.fs ohs (hT l hlo t ht) (hI.inOk l hlo t ht) (depOhs_adm ho ?_) (depOhs_length ho)
    intro d hd oh hoh
    rw [hhd] at hd
    obtain ⟨ts, hts, hk⟩ := depsOk_mem hok d hd
    obtain ⟨_, oh', _, hoh', _, hao⟩ := hI.dep d (hdeps d hd) ts hts hk
    simp only [ohOf, hts] at hoh
    rw [hoh] at hoh'; simp only [Option.some.injEq] at hoh'; subst hoh'
    exact hao
  have hcase := buildTarget_all P cfg defs fuel t s hm
  cases hcase with
  | depFailed h e =>
    refine finish _ failStat (by rw [e, ← hlab]; rfl) (fun p _ => by rw [e]; rfl) hfc (by rw [e]; exact hI.sound)
      (fun h' => by simp [failStat] at h') ?_ (fun h' => by simp [failStat] at h')
    simp only [failStat, cleanOk, ← hdi, h, Bool.false_and]
  | noHash h h2 e =>
    obtain ⟨ohs, h1, _⟩ := common h
    rw [h1] at h2; cases h2
  | hit ohs h h2 e =>
    obtain ⟨ohs', h1, hview, hvc, hdall⟩ := common h
    rw [h1] at h2; simp only [Option.some.injEq] at h2; subst h2
    obtain ⟨r, fs', hr, _, _, _, hchk, hrest, hs1⟩ := tryHit_all_some hm e
    obtain ⟨hval, _, hfs'⟩ := restore_some hrest
    obtain ⟨ks, hka, hK, hkw, hkx, nc, hres⟩ := hI.sound _ r hr
    obtain ⟨_, hemp, hrun⟩ := hG.inj ks (keyState t s.fs ohs') hka (hadm h ohs' h1) hK
    have hview' : viewOf (keyState t s.fs ohs') = viewAt defs t s.fs := hview
    have hrun' : P.run ks.cmd (viewOf ks) = P.run t.cmd (viewAt defs t s.fs) := by rw [hrun, hview']; rfl
    rw [hrun'] at hkx hres
    rw [mkRes_congr nc ks (keyState t s.fs ohs') _ _ hemp] at hres
    obtain ⟨hmap, hck1, hck2, hcol1, hcol2, hag, hget⟩ := runFacts hkx hvc
    -- the stored outputs are what the command returns
    have hrouts : r.outs = (P.run t.cmd (viewAt defs t s.fs)).outs := by
      rw [hres]; simp only [mkRes]
      cases nc with
      | false => simp only [Bool.false_eq_true, ↓reduceIte]
      | true =>
        simp only [↓reduceIte]
        have : t.outs = [] := by rw [hres] at hval; simpa [mkRes] using hval.symm
        rw [this] at hmap
        exact (List.map_eq_nil_iff.1 hmap).symm
    have hsfs : (buildTarget P cfg defs fuel t s).fs = fsA P.run defs t s.fs := by
      rw [hs1]; simp only; rw [hfs', hrouts, fsA_eqK hG]
    have hpre : checksPass s.fs t.checks = true := by
      rcases hchk with h' | h'
      · exact h'
      · rw [hfx] at h'; cases h'
    refine finish _ { ok := true, key := some (P.K (keyState t s.fs ohs')), oh := some r.oh, loaded := true }
      (by rw [hs1, ← hlab]) ?_ hfc (by rw [hs1]; exact hI.sound) ?_ ?_ ?_
    · intro p hp; rw [hsfs]; exact fsA_offK hG defs t s.fs hwr p hp hkx
    · intro _
      have hao : A.oh r.oh := by
        have := hG.ohOut (keyState t s.fs ohs') (hadm h ohs' h1) (by rw [hview']; exact hkx) nc
        rw [hview'] at this
        rw [hres]; exact this
      refine ⟨r.oh, rfl, ?_, hao⟩
      rw [hsfs, hres]
      by_cases he : t.outs.isEmpty = true
      · have : (mkRes nc (keyState t s.fs ohs') (P.K (keyState t s.fs ohs')) (P.run t.cmd (viewAt defs t s.fs)).outs).oh
            = OH.self (P.K (keyState t s.fs ohs')) := by simp [mkRes, keyState, he]
        rw [this]; exact List.isEmpty_iff.1 he
      · cases nc with
        | true =>
          have : (mkRes true (keyState t s.fs ohs') (P.K (keyState t s.fs ohs')) (P.run t.cmd (viewAt defs t s.fs)).outs).oh
              = OH.nocache (P.run t.cmd (viewAt defs t s.fs)).outs := by simp [mkRes, keyState, he]
          rw [this]; exact ⟨hmap, hget⟩
        | false =>
          have : (mkRes false (keyState t s.fs ohs') (P.K (keyState t s.fs ohs')) (P.run t.cmd (viewAt defs t s.fs)).outs).oh
              = OH.outs (P.run t.cmd (viewAt defs t s.fs)).outs := by simp [mkRes, keyState, he]
          rw [this]; exact ⟨hmap, hget⟩
    · show true = cleanOk P.run defs t c
      simp only [cleanOk, hdall, ← hvc, hkx, hck1, hck2, hpre, hcol2, Option.isSome_some, Bool.and_self]
    · intro _ p hp
      have hck : cleanOk P.run defs t c = true := by
        simp only [cleanOk, hdall, ← hvc, hkx, hck1, hck2, hpre, hcol2, Option.isSome_some, Bool.and_self]
      rw [hsfs, hfscok hck]; exact hag p hp
  | ran ohs h h2 h3 e =>
    obtain ⟨ohs', h1, hview, hvc, hdall⟩ := common h
    rw [h1] at h2; simp only [Option.some.injEq] at h2; subst h2
    obtain ⟨hx, hfs, hc, ovs, hcol, hres, _, _, hst⟩ := execTarget_true e
    obtain ⟨hmap, hck1, hck2, hcol1, hcol2, hag, hget⟩ := runFacts hx hvc
    rw [fsAfter_eq_fsA] at hfs
    have hovs : ovs = (P.run t.cmd (viewAt defs t s.fs)).outs := by
      rw [hfs, hcol1] at hcol; simpa using hcol.symm
    have hck : cleanOk P.run defs t c = true := by
      rw [hfs] at hc
      simp only [cleanOk, hdall, ← hvc, hx, hck1, hc, hcol2, Option.isSome_some, Bool.and_self]
    refine finish _ _ (by rw [hst, ← hlab]) ?_ hfc ?_ ?_ hck.symm ?_
    · intro p hp; rw [hfs]; exact fsA_offK hG defs t s.fs hwr p hp hx
    · intro k' r' hr'
      rw [hres] at hr'
      by_cases hk : k' = P.K (keyState t s.fs ohs')
      · subst hk
        rw [upd_same] at hr'; simp only [Option.some.injEq] at hr'; subst hr'
        refine ⟨keyState t s.fs ohs', hadm h ohs' h1, rfl, hwr, by rw [hview]; exact hx, (t.noCache || !cfg.enableCache), ?_⟩
        have hk2 : (P.run (keyState t s.fs ohs').cmd (viewOf (keyState t s.fs ohs'))).outs = ovs := by
          rw [hview, hovs]; rfl
        rw [hk2]; rfl
      · rw [upd_other _ _ _ _ hk] at hr'; exact hI.sound k' r' hr'
    · intro _
      have hk2 : (P.run (keyState t s.fs ohs').cmd (viewOf (keyState t s.fs ohs'))).outs = ovs := by
        rw [hview, hovs]; rfl
      have hao := hG.ohOut (keyState t s.fs ohs') (hadm h ohs' h1) (by rw [hview]; exact hx) (t.noCache || !cfg.enableCache)
      rw [hk2] at hao
      refine ⟨_, rfl, ?_, hao⟩
      obtain ⟨hm1, hm2⟩ := collect_some hcol
      simp only [ohFor]
      split
      · rename_i he; exact List.isEmpty_iff.1 he
      · split
        · exact ⟨hm1, hm2⟩
        · exact ⟨hm1, hm2⟩
    · intro _ p hp; rw [hfs, hfscok hck]; exact hag p hp
  | failed ohs s2 h h2 h3 e e2 =>
    obtain ⟨ohs', h1, hview, hvc, hdall⟩ := common h
    obtain ⟨hc, hst, hwhy⟩ := execTarget_false e
    have hfs2 := execTarget_fs P cfg defs t (P.K (keyState t s.fs ohs)) (s.cache.taint t.label) s
    rw [e] at hfs2
    refine finish _ failStat (by rw [e2]; simp only [failT]; rw [hst, ← hlab]) ?_ hfc
      (by rw [e2]; simp only [failT]; rw [hc]; exact hI.sound) (fun h' => by simp [failStat] at h') ?_ (fun h' => by simp [failStat] at h')
    · intro p hp
      rw [e2]; simp only [failT]
      rcases hfs2 with h' | ⟨hx, h'⟩
      · rw [h']
      · rw [h', fsAfter_eq_fsA]; exact fsA_offK hG defs t s.fs hwr p hp hx
    · show false = cleanOk P.run defs t c
      by_cases hx : (P.run t.cmd (viewAt defs t s.fs)).exit0 = true
      · obtain ⟨hmap, hck1, hck2, hcol1, hcol2, hag, hget⟩ := runFacts hx hvc
        rcases hwhy with h' | h' | h'
        · rw [hx] at h'; cases h'
        · rw [fsAfter_eq_fsA] at h'
          simp only [cleanOk, hck1, h', Bool.and_false, Bool.false_and]
        · rw [fsAfter_eq_fsA, hcol1] at h'; cases h'
      · have hx' : (P.run t.cmd (viewAt defs t c.fs)).exit0 = false := by rw [← hvc]; simpa using hx
        simp only [cleanOk, hx', Bool.and_false, Bool.false_and]

end Grog.Build

namespace Grog.Build
open Grog Grog.Exec
variable {κ : Type} [DecidableEq κ]

/-- the specification processes the same order -/
def cleanRun (run : Cmd → View → RunRes) (defs : Defs) (order : List Lbl) (c : Spec.CState) : Spec.CState :=
  order.foldl (Spec.cleanStep run defs) c

theorem run_invK_aux {P : Params κ} {A : AdmSpec κ} (hG : GoodK P A) (hfx : P.fx.gateChecks = true) {cfg : Cfg} (hm : cfg.minimal = false)
    {defs : Defs} {order : List Lbl} (hwf : WF defs order) (hT : ∀ l ∈ order, ∀ t, defs l = some t → A.tgt t) (fuel : Nat) :
    ∀ (rest pre : List Lbl) (s : BState κ) (c : Spec.CState), order = pre ++ rest → InvK P A defs order s c pre →
      InvK P A defs order (run P cfg defs fuel rest s) (cleanRun P.run defs rest c) (pre ++ rest) := by
  intro rest
  induction rest with
  | nil => intro pre s c _ hI; simpa [run, cleanRun] using hI
  | cons l rest ih =>
    intro pre s c ho hI
    obtain ⟨t, ht⟩ := hwf.defined l (by rw [ho]; simp)
    have hstep := step_invK hG hfx hm hwf hT fuel pre l rest ho t ht hI
    have := ih (pre ++ [l]) (buildTarget P cfg defs fuel t s) (Spec.cleanTarget P.run defs t c) (by rw [ho]; simp) hstep
    simp only [run, cleanRun, List.foldl_cons, stepTarget, Spec.cleanStep, ht]
    simpa [run, cleanRun] using this

/-- the invariant holds after the whole build -/
theorem run_invK {P : Params κ} {A : AdmSpec κ} (hG : GoodK P A) (hfx : P.fx.gateChecks = true) {cfg : Cfg} (hm : cfg.minimal = false)
    {defs : Defs} {order : List Lbl} (hwf : WF defs order) (hT : ∀ l ∈ order, ∀ t, defs l = some t → A.tgt t) (fuel : Nat)
    (s : BState κ) (c : Spec.CState) (h0 : InvK P A defs order s c []) :
    InvK P A defs order (run P cfg defs fuel order s) (cleanRun P.run defs order c) order := by
  simpa using run_invK_aux hG hfx hm hwf hT fuel order [] s c (by simp) h0

/-- the start of a build satisfies the invariant against any specification workspace that agrees off the outputs -/
theorem inv_startK {P : Params κ} {A : AdmSpec κ} {defs : Defs} {order : List Lbl} (w : World κ) (hs : CacheSoundK P A w.cache) (fs0 : FS)
    (hag : ∀ p, (∀ l ∈ order, ∀ t, defs l = some t → p ∉ outPaths t) → w.fs p = fs0 p)
    (hin : ∀ l ∈ order, ∀ t, defs l = some t → ∀ p ∈ t.inputs, ∀ v, w.fs p = some v → A.val v) :
    InvK P A defs order (start w) { fs := fs0, ok := fun _ => none } [] :=
  ⟨hs, hin, fun l hl => by simp at hl, hag, fun l hl => by simp at hl, fun l hl => by simp at hl⟩

/-! ### the strict instance (key injective on all key-states): the statements used so far -/

/-- the invariant for parameters with a key that is injective on all key-states -/
structure Inv (P : Params κ) (defs : Defs) (order : List Lbl) (s : BState κ) (c : Spec.CState) (done : List Lbl) : Prop where
  sound : CacheSound P s.cache
  dep : ∀ l ∈ done, ∀ ts, s.st l = some ts → ts.ok = true → ∃ t oh, defs l = some t ∧ ts.oh = some oh ∧ OhMatches t oh s.fs
  fsOff : ∀ p, (∀ l ∈ order, ∀ t, defs l = some t → p ∉ outPaths t) → s.fs p = c.fs p
  okIff : ∀ l ∈ done, (∃ ts, s.st l = some ts ∧ ts.ok = true) ↔ c.ok l = some true
  fsOut : ∀ l ∈ done, c.ok l = some true → ∀ t, defs l = some t → ∀ p ∈ outPaths t, s.fs p = c.fs p

theorem inv_iff_invK {P : Params κ} {defs : Defs} {order : List Lbl} {s : BState κ} {c : Spec.CState} {done : List Lbl} :
    Inv P defs order s c done ↔ InvK P AdmSpec.triv defs order s c done :=
  ⟨fun h => ⟨cacheSoundK_triv.2 h.sound, fun _ _ _ _ _ _ _ _ => trivial,
      fun l hl ts hts hk => by obtain ⟨t, oh, h1, h2, h3⟩ := h.dep l hl ts hts hk; exact ⟨t, oh, h1, h2, h3, trivial⟩,
      h.fsOff, h.okIff, h.fsOut⟩,
   fun h => ⟨cacheSoundK_triv.1 h.sound,
      fun l hl ts hts hk => by obtain ⟨t, oh, h1, h2, h3, _⟩ := h.dep l hl ts hts hk; exact ⟨t, oh, h1, h2, h3⟩,
      h.fsOff, h.okIff, h.fsOut⟩⟩

theorem step_inv {P : Params κ} (hG : Good P) (hfx : P.fx.gateChecks = true) {cfg : Cfg} (hm : cfg.minimal = false)
    {defs : Defs} {order : List Lbl} (hwf : WF defs order) (fuel : Nat)
    (pre : List Lbl) (l : Lbl) (suf : List Lbl) (ho : order = pre ++ l :: suf) (t : Target) (ht : defs l = some t)
    {s : BState κ} {c : Spec.CState} (hI : Inv P defs order s c pre) :
    Inv P defs order (buildTarget P cfg defs fuel t s) (Spec.cleanTarget P.run defs t c) (pre ++ [l]) :=
  inv_iff_invK.2 (step_invK (GoodK_of_Good hG) hfx hm hwf (fun _ _ _ _ => trivial) fuel pre l suf ho t ht (inv_iff_invK.1 hI))

theorem run_inv_aux {P : Params κ} (hG : Good P) (hfx : P.fx.gateChecks = true) {cfg : Cfg} (hm : cfg.minimal = false)
    {defs : Defs} {order : List Lbl} (hwf : WF defs order) (fuel : Nat) :
    ∀ (rest pre : List Lbl) (s : BState κ) (c : Spec.CState), order = pre ++ rest → Inv P defs order s c pre →
      Inv P defs order (run P cfg defs fuel rest s) (cleanRun P.run defs rest c) (pre ++ rest) :=
  fun rest pre s c ho hI => inv_iff_invK.2
    (run_invK_aux (GoodK_of_Good hG) hfx hm hwf (fun _ _ _ _ => trivial) fuel rest pre s c ho (inv_iff_invK.1 hI))

theorem run_inv {P : Params κ} (hG : Good P) (hfx : P.fx.gateChecks = true) {cfg : Cfg} (hm : cfg.minimal = false)
    {defs : Defs} {order : List Lbl} (hwf : WF defs order) (fuel : Nat) (s : BState κ) (c : Spec.CState)
    (h0 : Inv P defs order s c []) :
    Inv P defs order (run P cfg defs fuel order s) (cleanRun P.run defs order c) order := by
  simpa using run_inv_aux hG hfx hm hwf fuel order [] s c (by simp) h0

theorem inv_start {P : Params κ} {defs : Defs} {order : List Lbl} (w : World κ) (hs : CacheSound P w.cache) (fs0 : FS)
    (hag : ∀ p, (∀ l ∈ order, ∀ t, defs l = some t → p ∉ outPaths t) → w.fs p = fs0 p) :
    Inv P defs order (start w) { fs := fs0, ok := fun _ => none } [] :=
  ⟨hs, fun l hl => by simp at hl, hag, fun l hl => by simp at hl, fun l hl => by simp at hl⟩

end Grog.Build
