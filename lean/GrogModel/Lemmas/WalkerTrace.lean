/-
  Trace-level lemmas about the walker model: phases never return to `parked`, hence a callback
  is entered at most once along any run.
-/
import GrogModel.Lemmas.Walker
namespace Grog.Walker

theorem step_phase_cases {c : Cfg} {s s' : State} {e : Ev} (hs : step c s e = some s') (m : Node) :
    s'.phase m = s.phase m ∨
    (m ∈ c.sel ∧
      ((s.phase m = .parked ∧ s'.phase m = .running ∧ e = .wake m) ∨
       (s.phase m = .parked ∧ s'.phase m = .exited) ∨
       (s.phase m = .running ∧ (s'.phase m = .returned true ∨ s'.phase m = .returned false ∨ s'.phase m = .aborted)) ∨
       (s.phase m = .returned true ∧ s'.phase m = .ok) ∨
       (s.phase m = .returned false ∧ s'.phase m = .failed))) := by
  cases e with
  | wake n => obtain ⟨a, b, d, rfl⟩ := step_wake.mp hs; simp only [set]; grind
  | cbReturn n r =>
    obtain ⟨a, b, d⟩ := step_cbReturn.mp hs
    rcases d with ⟨_, rfl⟩ | ⟨_, rfl⟩ | ⟨_, _, rfl⟩ | ⟨_, _, rfl⟩ <;> simp only [set] <;> grind
  | complete n =>
    obtain ⟨a, d⟩ := step_complete.mp hs
    rcases d with ⟨hp, rfl⟩ | ⟨hp, rfl⟩
    · simp only [completeOk_phase, set]; grind
    · simp only [completeFail_phase, set]; grind
  | exit n => obtain ⟨a, b, d, rfl⟩ := step_exit.mp hs; simp only [set]; grind
  | deliverCancel n => obtain ⟨a, b, rfl⟩ := step_deliverCancel.mp hs; simp
  | ctxCancel => obtain ⟨a, rfl⟩ := step_ctxCancel.mp hs; simp
  | walkReturn b =>
    obtain ⟨a, d⟩ := step_walkReturn.mp hs
    rcases d with ⟨_, _, rfl⟩ | ⟨_, _, rfl⟩ <;> simp

theorem step_notParked {c : Cfg} {s s' : State} {e : Ev} (hs : step c s e = some s') {n : Node}
    (h : s.phase n ≠ .parked) : s'.phase n ≠ .parked := by
  have := step_phase_cases hs n
  grind

theorem run_noWake {c : Cfg} {n : Node} (tr : List Ev) {s s' : State} (h : s.phase n ≠ .parked)
    (hr : run c s tr = some s') : tr.count (.wake n) = 0 := by
  induction tr generalizing s with
  | nil => simp
  | cons e es ih =>
    simp only [run] at hr
    cases hs : step c s e with
    | none => simp [hs] at hr
    | some s1 =>
      simp only [hs] at hr
      have hne : e ≠ .wake n := by
        intro he; subst he
        have := (step_wake.mp hs).2.1
        exact h this
      rw [List.count_cons_of_ne (Ne.symm hne |> fun h => by simpa [eq_comm] using hne)]
      exact ih (step_notParked hs h) hr

theorem run_wake_le_one {c : Cfg} {n : Node} (tr : List Ev) {s s' : State}
    (hr : run c s tr = some s') : tr.count (.wake n) ≤ 1 := by
  induction tr generalizing s with
  | nil => simp
  | cons e es ih =>
    simp only [run] at hr
    cases hs : step c s e with
    | none => simp [hs] at hr
    | some s1 =>
      simp only [hs] at hr
      by_cases he : e = .wake n
      · subst he
        obtain ⟨_, _, _, rfl⟩ := step_wake.mp hs
        have : es.count (.wake n) = 0 := run_noWake es (by simp [set]) hr
        simp [this]
      · rw [List.count_cons_of_ne (by simpa [eq_comm] using he)]
        exact ih hr

end Grog.Walker
