/-
  The memoised ancestor search of the output-conflict detection (`dfsMemo`, `getSet`, `targetsOrdered`,
  `pairLoop`): it never runs out of fuel, its sets stay duplicate-free and in range, and the whole pass costs
  at most `3·|pairs| + n·(1 + 2|E|(1+n))` steps.
-/
import GrogModel.Lemmas.GraphDfs
namespace Grog

theorem mem_foldl_union (l acc : List Nat) (x : Nat) :
    x ∈ l.foldl (fun acc x => if acc.contains x then acc else x :: acc) acc ↔ x ∈ acc ∨ x ∈ l := by
  induction l generalizing acc with
  | nil => simp
  | cons a t ih =>
    simp only [List.foldl_cons, List.mem_cons]
    rw [ih]
    by_cases h : a ∈ acc
    · simp only [List.contains_iff_mem, h, ↓reduceIte]
      constructor
      · rintro (h1 | h1); exact Or.inl h1; exact Or.inr (Or.inr h1)
      · rintro (h1 | rfl | h1); exact Or.inl h1; exact Or.inl h; exact Or.inr h1
    · simp only [List.contains_iff_mem, h, ↓reduceIte, List.mem_cons]
      constructor
      · rintro ((rfl | h1) | h1); exact Or.inr (Or.inl rfl); exact Or.inl h1; exact Or.inr (Or.inr h1)
      · rintro (h1 | rfl | h1); exact Or.inl (Or.inr h1); exact Or.inl (Or.inl rfl); exact Or.inr h1

theorem mem_unionInto {l vis : List Nat} {x : Nat} : x ∈ unionInto l vis ↔ x ∈ vis ∨ x ∈ l :=
  mem_foldl_union l vis x

theorem nodup_foldl_union (l acc : List Nat) (h : acc.Nodup) :
    (l.foldl (fun acc x => if acc.contains x then acc else x :: acc) acc).Nodup := by
  induction l generalizing acc with
  | nil => simpa
  | cons a t ih =>
    simp only [List.foldl_cons]
    apply ih
    by_cases ha : a ∈ acc
    · simpa [ha] using h
    · simp only [List.contains_iff_mem, ha, ↓reduceIte]
      exact List.nodup_cons.mpr ⟨ha, h⟩

theorem nodup_unionInto {l vis : List Nat} (h : vis.Nodup) : (unionInto l vis).Nodup :=
  nodup_foldl_union l vis h

/-- visiting more nodes never leaves more edges to push -/
theorem rem_mono (es : List Edge) {vis vis' : List Nat} (h : ∀ x ∈ vis, x ∈ vis') : rem es vis' ≤ rem es vis := by
  induction es with
  | nil => simp [rem]
  | cons e es ih =>
    simp only [rem] at ih ⊢
    by_cases h1 : e.1 ∈ vis
    · have h2 := h _ h1
      simp [h1, h2] at ih ⊢; omega
    · by_cases h2 : e.1 ∈ vis'
      · simp [h1, h2] at ih ⊢; omega
      · simp [h1, h2] at ih ⊢; omega

/-- the memo table only holds sets of at most `n` nodes, all `< n` -/
def MemoOK (n : Nat) (memo : Memo) : Prop :=
  ∀ v l, memo.get v = some l → l.length ≤ n ∧ ∀ x ∈ l, x < n

theorem memoOK_nil (n : Nat) : MemoOK n [] := by
  intro v l h; simp [Memo.get] at h

theorem memoOK_cons {n : Nat} {memo : Memo} (h : MemoOK n memo) (v : Nat) (set : List Nat)
    (hl : set.length ≤ n) (hr : ∀ x ∈ set, x < n) : MemoOK n ((v, set) :: memo) := by
  intro w l hw
  simp only [Memo.get] at hw
  by_cases hvw : v = w
  · simp [hvw] at hw; subst hw; exact ⟨hl, hr⟩
  · have : (v == w) = false := by simpa using hvw
    simp only [this] at hw
    exact h w l hw

/-- graph whose edges join nodes `< n` -/
def InRange (n : Nat) (es : List Edge) : Prop := ∀ e ∈ es, e.1 < n ∧ e.2 < n

theorem dfsMemo_spec (es : List Edge) (memo : Memo) (n : Nat) (hes : InRange n es) (hm : MemoOK n memo) :
    ∀ (fuel : Nat) (todo vis : List Nat), todo.length + rem es vis ≤ fuel →
      (∀ x ∈ todo, x < n) → vis.Nodup → (∀ x ∈ vis, x < n) →
      ∃ vis' c, dfsMemo es memo fuel todo vis = some (vis', c) ∧ vis'.Nodup ∧ (∀ x ∈ vis', x < n) ∧
        c ≤ (todo.length + rem es vis) * (1 + n) := by
  intro fuel
  induction fuel with
  | zero =>
    intro todo vis hf _ hnd hr
    cases todo with
    | nil => exact ⟨vis, 0, by simp [dfsMemo], hnd, hr, by omega⟩
    | cons a rest => simp at hf
  | succ fuel ih =>
    intro todo vis hf ht hnd hr
    cases todo with
    | nil => exact ⟨vis, 0, by simp [dfsMemo], hnd, hr, by omega⟩
    | cons a rest =>
      have ha : a < n := ht a (List.mem_cons_self ..)
      have hrest : ∀ x ∈ rest, x < n := fun x hx => ht x (List.mem_cons_of_mem _ hx)
      simp only [dfsMemo]
      by_cases hv : a ∈ vis
      · simp only [List.contains_iff_mem, hv, ↓reduceIte]
        obtain ⟨vis', c, h1, h2, h3, h4⟩ := ih rest vis (by simp only [List.length_cons] at hf; omega) hrest hnd hr
        refine ⟨vis', c + 1, by simp [h1], h2, h3, ?_⟩
        simp only [List.length_cons]
        have : (rest.length + 1 + rem es vis) * (1 + n) = (rest.length + rem es vis) * (1 + n) + (1 + n) := by
          rw [show rest.length + 1 + rem es vis = (rest.length + rem es vis) + 1 by omega, Nat.succ_mul]
        omega
      · simp only [List.contains_iff_mem, hv, ↓reduceIte]
        have hsplit := rem_split es vis a hv
        cases hget : memo.get a with
        | some l =>
          have hl := hm a l hget
          have hsub : ∀ x ∈ a :: vis, x ∈ unionInto l (a :: vis) := fun x hx => mem_unionInto.mpr (Or.inl hx)
          have hmono := rem_mono es hsub
          obtain ⟨vis', c, h1, h2, h3, h4⟩ := ih rest (unionInto l (a :: vis))
            (by simp only [List.length_cons] at hf; omega) hrest
            (nodup_unionInto (List.nodup_cons.mpr ⟨hv, hnd⟩))
            (by
              intro x hx
              rcases mem_unionInto.mp hx with h | h
              · rcases List.mem_cons.mp h with rfl | h
                · exact ha
                · exact hr x h
              · exact hl.2 x h)
          refine ⟨vis', c + 1 + l.length, by simp [h1], h2, h3, ?_⟩
          simp only [List.length_cons]
          have hle : (rest.length + rem es (unionInto l (a :: vis))) * (1 + n) ≤ (rest.length + rem es vis) * (1 + n) :=
            Nat.mul_le_mul_right _ (by omega)
          have : (rest.length + 1 + rem es vis) * (1 + n) = (rest.length + rem es vis) * (1 + n) + (1 + n) := by
            rw [show rest.length + 1 + rem es vis = (rest.length + rem es vis) + 1 by omega, Nat.succ_mul]
          have := hl.1
          omega
        | none =>
          obtain ⟨vis', c, h1, h2, h3, h4⟩ := ih (succs es a ++ rest) (a :: vis)
            (by simp only [List.length_append, List.length_cons] at hf ⊢; omega)
            (by
              intro x hx
              rcases List.mem_append.mp hx with h | h
              · exact (hes _ (mem_succs.mp h)).2
              · exact hrest x h)
            (List.nodup_cons.mpr ⟨hv, hnd⟩)
            (by
              intro x hx
              rcases List.mem_cons.mp hx with rfl | h
              · exact ha
              · exact hr x h)
          refine ⟨vis', c + 1, by simp [h1], h2, h3, ?_⟩
          simp only [List.length_append, List.length_cons] at h4 ⊢
          have heq : (succs es a).length + rest.length + rem es (a :: vis) = rest.length + rem es vis := by omega
          rw [heq] at h4
          have : (rest.length + 1 + rem es vis) * (1 + n) = (rest.length + rem es vis) * (1 + n) + (1 + n) := by
            rw [show rest.length + 1 + rem es vis = (rest.length + rem es vis) + 1 by omega, Nat.succ_mul]
          omega

/-- nodes `< n` that have no memo entry yet -/
def unmemo (n : Nat) (memo : Memo) : Nat := ((List.range n).filter (fun v => (memo.get v).isNone)).length

/-- cost of one cache miss: the lookup and the traversal -/
def missCost (n : Nat) (es : List Edge) : Nat := 1 + 2 * es.length * (1 + n)

theorem length_succs_le (es : List Edge) (v : Nat) : (succs es v).length ≤ es.length := by
  simp only [succs, List.length_map]; exact List.length_filter_le _ _

theorem unmemo_cons_lt {n : Nat} {memo : Memo} {v : Nat} (hv : v < n) (hnone : memo.get v = none) (set : List Nat) :
    unmemo n ((v, set) :: memo) + 1 ≤ unmemo n memo := by
  unfold unmemo
  -- the predicate after the insertion is the old one minus `v`
  have hsub : ∀ w, ((Memo.get ((v, set) :: memo) w).isNone) = ((memo.get w).isNone && !(w == v)) := by
    intro w
    simp only [Memo.get]
    by_cases hvw : v = w
    · subst hvw; simp [hnone]
    · have h1 : (v == w) = false := by simpa using hvw
      have h2 : (w == v) = false := by simpa using fun e => hvw e.symm
      simp [h1, h2]
  have : (List.range n).filter (fun w => (Memo.get ((v, set) :: memo) w).isNone) =
      ((List.range n).filter (fun w => (memo.get w).isNone)).filter (fun w => !(w == v)) := by
    rw [List.filter_filter]; congr 1; funext w; rw [hsub w, Bool.and_comm]
  rw [this]
  -- removing the member `v` from a list shortens it
  have hmem : v ∈ (List.range n).filter (fun w => (memo.get w).isNone) := by
    simp [List.mem_filter, List.mem_range, hv, hnone]
  generalize (List.range n).filter (fun w => (memo.get w).isNone) = L at hmem
  induction L with
  | nil => simp at hmem
  | cons a t ih =>
    by_cases hav : a = v
    · subst hav; simp only [List.filter_cons, beq_self_eq_true, Bool.not_true, Bool.false_eq_true, ↓reduceIte, List.length_cons]
      have := List.length_filter_le (fun w => !(w == a)) t
      omega
    · have hmem' : v ∈ t := by
        rcases List.mem_cons.mp hmem with h | h
        · exact absurd h.symm hav
        · exact h
      have h1 : (a == v) = false := by simpa using hav
      simp only [List.filter_cons, h1, Bool.not_false, ↓reduceIte, List.length_cons]
      have := ih hmem'
      omega

/-- potential of the pass: steps spent + what the remaining cache misses can still cost -/
def passPot (n : Nat) (es : List Edge) (st : PassSt) : Nat := st.cost + missCost n es * unmemo n st.memo

theorem getSet_spec (es : List Edge) (n : Nat) (hes : InRange n es) (st : PassSt) (hm : MemoOK n st.memo) (v : Nat) (hv : v < n) :
    ∃ set st', getSet es st v = some (set, st') ∧ MemoOK n st'.memo ∧ passPot n es st' ≤ passPot n es st + 1 := by
  unfold getSet
  cases hget : st.memo.get v with
  | some l =>
    exact ⟨l, _, rfl, hm, by simp only [passPot]; omega⟩
  | none =>
    have hlen := length_succs_le es v
    obtain ⟨set, c, h1, h2, h3, h4⟩ := dfsMemo_spec es st.memo n hes hm (2 * es.length) (succs es v) []
      (by rw [rem_nil]; omega) (fun x hx => (hes _ (mem_succs.mp hx)).2) (by simp) (by simp)
    simp only [h1]
    have hsz : set.length ≤ n := by
      have := List.Nodup.length_le_of_subset h2 (fun x hx => List.mem_range.mpr (h3 x hx))
      simpa using this
    refine ⟨set, _, rfl, memoOK_cons hm v set hsz h3, ?_⟩
    have hu := unmemo_cons_lt hv hget set
    rw [rem_nil] at h4
    have hc : c ≤ 2 * es.length * (1 + n) := Nat.le_trans h4 (Nat.mul_le_mul_right _ (by omega))
    simp only [passPot, missCost]
    have hmul : (1 + 2 * es.length * (1 + n)) * (unmemo n ((v, set) :: st.memo) + 1) ≤
        (1 + 2 * es.length * (1 + n)) * unmemo n st.memo := Nat.mul_le_mul_left _ hu
    rw [Nat.mul_succ] at hmul
    omega

theorem targetsOrdered_spec (es : List Edge) (n : Nat) (hes : InRange n es) (st : PassSt) (hm : MemoOK n st.memo)
    (a b : Nat) (ha : a < n) (hb : b < n) :
    ∃ r st', targetsOrdered es st a b = some (r, st') ∧ MemoOK n st'.memo ∧ passPot n es st' ≤ passPot n es st + 2 := by
  unfold targetsOrdered
  obtain ⟨sa, st1, h1, hm1, hp1⟩ := getSet_spec es n hes st hm a ha
  simp only [h1]
  by_cases hc : sa.contains b = true
  · simp only [hc, ↓reduceIte]; exact ⟨true, st1, rfl, hm1, by omega⟩
  · simp only [hc, Bool.false_eq_true, ↓reduceIte]
    obtain ⟨sb, st2, h2, hm2, hp2⟩ := getSet_spec es n hes st1 hm1 b hb
    simp only [h2]
    exact ⟨_, st2, rfl, hm2, by omega⟩

theorem pairLoop_spec (es : List Edge) (n : Nat) (hes : InRange n es) :
    ∀ (pairs : List (Nat × Nat)) (st : PassSt), MemoOK n st.memo → (∀ p ∈ pairs, p.1 < n ∧ p.2 < n) →
      ∃ st', pairLoop es pairs st = some st' ∧ MemoOK n st'.memo ∧
        passPot n es st' ≤ passPot n es st + 3 * pairs.length := by
  intro pairs
  induction pairs with
  | nil => intro st hm _; exact ⟨st, rfl, hm, by simp⟩
  | cons p rest ih =>
    intro st hm hp
    obtain ⟨a, b⟩ := p
    have hab := hp (a, b) (List.mem_cons_self ..)
    simp only [pairLoop]
    obtain ⟨r, st1, h1, hm1, hp1⟩ := targetsOrdered_spec es n hes { st with cost := st.cost + 1 } hm a b hab.1 hab.2
    simp only [h1]
    obtain ⟨st2, h2, hm2, hp2⟩ := ih st1 hm1 (fun q hq => hp q (List.mem_cons_of_mem _ hq))
    refine ⟨st2, h2, hm2, ?_⟩
    have : passPot n es { st with cost := st.cost + 1 } = passPot n es st + 1 := by simp [passPot]; omega
    simp only [List.length_cons]; omega

theorem unmemo_le (n : Nat) (memo : Memo) : unmemo n memo ≤ n := by
  unfold unmemo
  have := List.length_filter_le (fun v => (memo.get v).isNone) (List.range n)
  simpa using this

end Grog
