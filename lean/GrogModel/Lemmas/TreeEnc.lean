/-
  Facts about the Merkle encoding of a directory (`encList`, `children`, `childMap`) used by the
  round-trip theorem of C06.
-/
import GrogModel.Lemmas.TreeFS
namespace Grog

/-! ### association lists -/

theorem lookupE_of_mem {es : List (Name × Entry)} {m : Name} {e : Entry}
    (hnd : (namesOf es).Nodup) (h : (m, e) ∈ es) : lookupE es m = some e := by
  induction es with
  | nil => simp at h
  | cons hd t ih =>
    obtain ⟨k, c⟩ := hd
    simp only [namesOf, List.map_cons, List.nodup_cons] at hnd
    simp only [List.mem_cons, Prod.mk.injEq] at h
    rcases h with ⟨rfl, rfl⟩ | h
    · simp [lookupE]
    · have : k ≠ m := by
        intro hk; subst hk
        exact hnd.1 (List.mem_map.mpr ⟨(k, e), h, rfl⟩)
      simp only [lookupE, this, if_false]
      exact ih hnd.2 h

theorem mem_of_lookupE {es : List (Name × Entry)} {m : Name} {e : Entry}
    (h : lookupE es m = some e) : (m, e) ∈ es := by
  induction es with
  | nil => simp [lookupE] at h
  | cons hd t ih =>
    obtain ⟨k, c⟩ := hd
    simp only [lookupE] at h
    split at h
    · rename_i hk; subst hk; simp at h; subst h; simp
    · exact List.mem_cons_of_mem _ (ih h)

theorem lookupE_none_of_not_mem {es : List (Name × Entry)} {m : Name}
    (h : m ∉ namesOf es) : lookupE es m = none := by
  induction es with
  | nil => simp [lookupE]
  | cons hd t ih =>
    obtain ⟨k, c⟩ := hd
    simp only [namesOf, List.map_cons, List.mem_cons, not_or] at h
    have : k ≠ m := fun hk => h.1 hk.symm
    simp only [lookupE, this, if_false]
    exact ih h.2

theorem mem_names_of_lookupE {es : List (Name × Entry)} {m : Name} {e : Entry}
    (h : lookupE es m = some e) : m ∈ namesOf es :=
  List.mem_map.mpr ⟨(m, e), mem_of_lookupE h, rfl⟩

theorem lookup_of_key_mem {α β : Type} [BEq α] [LawfulBEq α] (l : List (α × β)) (d : α)
    (h : ∃ c, (d, c) ∈ l) : ∃ c, l.lookup d = some c ∧ (d, c) ∈ l := by
  induction l with
  | nil => simp at h
  | cons hd t ih =>
    obtain ⟨k, c0⟩ := hd
    by_cases hk : d = k
    · subst hk
      exact ⟨c0, by simp [List.lookup], by simp⟩
    · obtain ⟨c, hc⟩ := h
      simp only [List.mem_cons, Prod.mk.injEq] at hc
      rcases hc with ⟨h1, _⟩ | hc
      · exact absurd h1 hk
      · obtain ⟨c', hl, hm⟩ := ih ⟨c, hc⟩
        refine ⟨c', ?_, List.mem_cons_of_mem _ hm⟩
        have : (d == k) = false := by simpa using hk
        simp [List.lookup, this, hl]

/-! ### the three node lists of a directory message -/

section
variable (H : Bytes → Digest) (serD : Directory → Bytes)

def filesOf : List (Name × Entry) → List FileNode
  | [] => []
  | (n, .file b x) :: rest => ⟨n, H b, b.length, x⟩ :: filesOf rest
  | _ :: rest => filesOf rest

def dirsOf : List (Name × Entry) → List DirNode
  | [] => []
  | (n, .dir es) :: rest =>
    ⟨n, H (serD (encList H serD es).dir), (serD (encList H serD es).dir).length⟩ :: dirsOf rest
  | _ :: rest => dirsOf rest

def linksOf : List (Name × Entry) → List LinkNode
  | [] => []
  | (n, .link t) :: rest => ⟨n, t⟩ :: linksOf rest
  | _ :: rest => linksOf rest

theorem encList_dir (es : List (Name × Entry)) :
    (encList H serD es).dir = ⟨filesOf H es, dirsOf H serD es, linksOf es⟩ := by
  induction es with
  | nil => simp [encList, filesOf, dirsOf, linksOf]
  | cons hd t ih =>
    obtain ⟨n, e⟩ := hd
    cases e with
    | file b x => simp [encList, filesOf, dirsOf, linksOf, ih]
    | link tg => simp [encList, filesOf, dirsOf, linksOf, ih]
    | dir s => simp [encList, filesOf, dirsOf, linksOf, ih]

/-- node names of each kind come from entries of that kind -/
theorem mem_filesOf {es : List (Name × Entry)} {f : FileNode} (h : f ∈ filesOf H es) :
    ∃ b, (f.name, Entry.file b f.exec) ∈ es ∧ f.digest = H b := by
  induction es with
  | nil => simp [filesOf] at h
  | cons hd t ih =>
    obtain ⟨n, e⟩ := hd
    cases e with
    | file b x =>
      simp only [filesOf, List.mem_cons] at h
      rcases h with rfl | h
      · exact ⟨b, by simp, rfl⟩
      · obtain ⟨b', h1, h2⟩ := ih h; exact ⟨b', List.mem_cons_of_mem _ h1, h2⟩
    | link tg => simp only [filesOf] at h; obtain ⟨b', h1, h2⟩ := ih h; exact ⟨b', List.mem_cons_of_mem _ h1, h2⟩
    | dir s => simp only [filesOf] at h; obtain ⟨b', h1, h2⟩ := ih h; exact ⟨b', List.mem_cons_of_mem _ h1, h2⟩

theorem filesOf_mem {es : List (Name × Entry)} {n : Name} {b : Bytes} {x : Bool}
    (h : (n, Entry.file b x) ∈ es) : (⟨n, H b, b.length, x⟩ : FileNode) ∈ filesOf H es := by
  induction es with
  | nil => simp at h
  | cons hd t ih =>
    obtain ⟨k, e⟩ := hd
    simp only [List.mem_cons, Prod.mk.injEq] at h
    rcases h with ⟨rfl, rfl⟩ | h
    · simp [filesOf]
    · cases e <;> simp [filesOf, ih h]

theorem mem_dirsOf {es : List (Name × Entry)} {d : DirNode} (h : d ∈ dirsOf H serD es) :
    ∃ s, (d.name, Entry.dir s) ∈ es ∧ d.digest = H (serD (encList H serD s).dir) := by
  induction es with
  | nil => simp [dirsOf] at h
  | cons hd t ih =>
    obtain ⟨n, e⟩ := hd
    cases e with
    | dir s =>
      simp only [dirsOf, List.mem_cons] at h
      rcases h with rfl | h
      · exact ⟨s, by simp, rfl⟩
      · obtain ⟨s', h1, h2⟩ := ih h; exact ⟨s', List.mem_cons_of_mem _ h1, h2⟩
    | link tg => simp only [dirsOf] at h; obtain ⟨s', h1, h2⟩ := ih h; exact ⟨s', List.mem_cons_of_mem _ h1, h2⟩
    | file b x => simp only [dirsOf] at h; obtain ⟨s', h1, h2⟩ := ih h; exact ⟨s', List.mem_cons_of_mem _ h1, h2⟩

theorem dirsOf_mem {es : List (Name × Entry)} {n : Name} {s : List (Name × Entry)}
    (h : (n, Entry.dir s) ∈ es) :
    ∃ d ∈ dirsOf H serD es, d.name = n ∧ d.digest = H (serD (encList H serD s).dir) := by
  induction es with
  | nil => simp at h
  | cons hd t ih =>
    obtain ⟨k, e⟩ := hd
    simp only [List.mem_cons, Prod.mk.injEq] at h
    rcases h with ⟨rfl, rfl⟩ | h
    · exact ⟨⟨n, H (serD (encList H serD s).dir), (serD (encList H serD s).dir).length⟩, by simp [dirsOf], rfl, rfl⟩
    · obtain ⟨d, hd, h1, h2⟩ := ih h
      refine ⟨d, ?_, h1, h2⟩
      cases e <;> simp [dirsOf, hd]

theorem mem_linksOf {es : List (Name × Entry)} {l : LinkNode} (h : l ∈ linksOf es) :
    (l.name, Entry.link l.target) ∈ es := by
  induction es with
  | nil => simp [linksOf] at h
  | cons hd t ih =>
    obtain ⟨n, e⟩ := hd
    cases e with
    | link tg =>
      simp only [linksOf, List.mem_cons] at h
      rcases h with rfl | h
      · simp
      · exact List.mem_cons_of_mem _ (ih h)
    | dir s => simp only [linksOf] at h; exact List.mem_cons_of_mem _ (ih h)
    | file b x => simp only [linksOf] at h; exact List.mem_cons_of_mem _ (ih h)

theorem linksOf_mem {es : List (Name × Entry)} {n : Name} {t : Bytes}
    (h : (n, Entry.link t) ∈ es) : (⟨n, t⟩ : LinkNode) ∈ linksOf es := by
  induction es with
  | nil => simp at h
  | cons hd tl ih =>
    obtain ⟨k, e⟩ := hd
    simp only [List.mem_cons, Prod.mk.injEq] at h
    rcases h with ⟨rfl, rfl⟩ | h
    · simp [linksOf]
    · cases e <;> simp [linksOf, ih h]

/-- node names are sublists of the entry names, hence duplicate free when those are -/
theorem filesOf_names_sublist (es : List (Name × Entry)) :
    ((filesOf H es).map (·.name)).Sublist (namesOf es) := by
  induction es with
  | nil => simp [filesOf, namesOf]
  | cons hd t ih =>
    obtain ⟨n, e⟩ := hd
    cases e with
    | file b x => simpa [filesOf, namesOf] using ih
    | link tg => exact List.Sublist.cons _ ih
    | dir s => exact List.Sublist.cons _ ih

theorem dirsOf_names_sublist (es : List (Name × Entry)) :
    ((dirsOf H serD es).map (·.name)).Sublist (namesOf es) := by
  induction es with
  | nil => simp [dirsOf, namesOf]
  | cons hd t ih =>
    obtain ⟨n, e⟩ := hd
    cases e with
    | dir s => simpa [dirsOf, namesOf] using ih
    | link tg => exact List.Sublist.cons _ ih
    | file b x => exact List.Sublist.cons _ ih

theorem linksOf_names_sublist (es : List (Name × Entry)) :
    ((linksOf es).map (·.name)).Sublist (namesOf es) := by
  induction es with
  | nil => simp [linksOf, namesOf]
  | cons hd t ih =>
    obtain ⟨n, e⟩ := hd
    cases e with
    | link tg => simpa [linksOf, namesOf] using ih
    | dir s => exact List.Sublist.cons _ ih
    | file b x => exact List.Sublist.cons _ ih

/-- uploads, kids and depth of a sub-directory are part of those of the directory -/
theorem ups_of_file_mem {es : List (Name × Entry)} {n : Name} {b : Bytes} {x : Bool}
    (h : (n, Entry.file b x) ∈ es) : (H b, b) ∈ (encList H serD es).ups := by
  induction es with
  | nil => simp at h
  | cons hd t ih =>
    obtain ⟨k, e⟩ := hd
    simp only [List.mem_cons, Prod.mk.injEq] at h
    rcases h with ⟨rfl, rfl⟩ | h
    · simp [encList]
    · cases e <;> simp [encList, ih h]

theorem sub_of_dir_mem {es : List (Name × Entry)} {n : Name} {s : List (Name × Entry)}
    (h : (n, Entry.dir s) ∈ es) :
    (∀ u ∈ (encList H serD s).ups, u ∈ (encList H serD es).ups) ∧
    (∀ k ∈ (encList H serD s).kids, k ∈ (encList H serD es).kids) ∧
    (H (serD (encList H serD s).dir), (encList H serD s).dir) ∈ (encList H serD es).kids ∧
    depthList s + 1 ≤ depthList es := by
  induction es with
  | nil => simp at h
  | cons hd t ih =>
    obtain ⟨k, e⟩ := hd
    simp only [List.mem_cons, Prod.mk.injEq] at h
    rcases h with ⟨rfl, rfl⟩ | h
    · refine ⟨?_, ?_, ?_, ?_⟩
      · intro u hu; simp [encList, hu]
      · intro k hk; simp [encList, hk]
      · simp [encList]
      · simp only [depthList, Entry.depth]; omega
    · obtain ⟨h1, h2, h3, h4⟩ := ih h
      refine ⟨?_, ?_, ?_, ?_⟩
      · intro u hu; have := h1 u hu; cases e <;> simp [encList, this]
      · intro k hk; have := h2 k hk; cases e <;> simp [encList, this]
      · cases e <;> simp [encList, h3]
      · simp only [depthList]; omega

theorem kids_digest : (es : List (Name × Entry)) →
    ∀ k ∈ (encList H serD es).kids, k.1 = H (serD k.2)
  | [] => by simp [encList]
  | (_, .file _ _) :: rest => by simpa [encList] using kids_digest rest
  | (_, .link _) :: rest => by simpa [encList] using kids_digest rest
  | (_, .dir s) :: rest => by
    intro k hk
    simp only [encList, List.mem_append, List.mem_cons] at hk
    rcases hk with h | rfl | h
    · exact kids_digest s k h
    · rfl
    · exact kids_digest rest k h

end

end Grog
