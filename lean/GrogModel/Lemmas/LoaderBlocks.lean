/-
  File-level behaviour of the Makefile scanner on a sequence of annotated rules.
-/
import GrogModel.Lemmas.LoaderScan
namespace Grog.Loader
open Grog

/-- one annotated rule as it appears in a Makefile: the marker line, comment lines, the rule line -/
structure Block where
  marker : Bytes
  comments : List (Bytes × Bytes)     -- (line, its content after the `#`)
  rule : Bytes

def Block.lines (b : Block) : List Bytes := b.marker :: (b.comments.map (·.1) ++ [b.rule])
def Block.content (b : Block) : Bytes := joinNL (b.comments.map (·.2))
def Block.goal (b : Block) : Bytes := (trimSpace b.rule).takeWhile (· != cColon)

/-- the line shapes the scanner keys on -/
structure Block.WF (b : Block) : Prop where
  marker : sGrog.isPrefixOf (trimSpace b.marker) = true
  comments : ∀ p ∈ b.comments, trimSpace p.1 = cHash :: p.2
  ruleNotComment : ∃ c r, trimSpace b.rule = c :: r ∧ (c == cHash) = false

/-- the annotation a block denotes under a decoder (`none` = the YAML does not decode) -/
def Block.annotation (decode : Bytes → Option Annotation) (b : Block) : Option Annotation :=
  if b.content.length > 0 then decode b.content else some {}

theorem mkGo_comments (decode : Bytes → Option Annotation) (cs : List (Bytes × Bytes))
    (hcs : ∀ p ∈ cs, trimSpace p.1 = cHash :: p.2) :
    ∀ (ls : List Bytes) (ns : List Nat) (n : Nat) (rest : List Bytes) (acc : List TargetDTO) (found : Bool),
      ∃ ns', ns'.length = ns.length + cs.length ∧
        mkGo decode .cur (.inBlock ls ns) n (cs.map (·.1) ++ rest) acc found =
          mkGo decode .cur (.inBlock ((cs.map (·.2)).reverse ++ ls) ns') (n + cs.length) rest acc found := by
  induction cs with
  | nil => intro ls ns n rest acc found; exact ⟨ns, by simp, by simp⟩
  | cons p r ih =>
    intro ls ns n rest acc found
    have hp := hcs p (List.mem_cons_self ..)
    have hr : ∀ q ∈ r, trimSpace q.1 = cHash :: q.2 := fun q hq => hcs q (List.mem_cons_of_mem _ hq)
    obtain ⟨ns', hlen, heq⟩ := ih hr (p.2 :: ls) ((n + 1) :: ns) (n + 1) rest acc found
    refine ⟨ns', by simp at hlen ⊢; omega, ?_⟩
    have : (cHash == cHash) = true := by decide
    simp only [List.map_cons, List.cons_append, mkGo, hp, this, if_true]
    rw [heq]
    have e1 : n + 1 + r.length = n + (r.length + 1) := by omega
    simp [e1]

/-- the scan reaches the rule line of a well-formed block with all comment contents collected, in order,
    and as many line numbers -/
theorem mkGo_to_rule (decode : Bytes → Option Annotation) (b : Block) (wf : b.WF)
    (n : Nat) (rest : List Bytes) (acc : List TargetDTO) (found : Bool) :
    ∃ (nums : List Nat) (n' : Nat), nums.length = b.comments.length ∧
      mkGo decode .cur .outside n (b.lines ++ rest) acc found =
        match handleTarget decode .cur (b.comments.map (·.2)) nums b.rule n' with
        | .error e => ⟨acc.reverse, true, some e⟩
        | .ok tgt => mkGo decode .cur .outside n' rest (tgt :: acc) true := by
  obtain ⟨c, r, hrule, hc⟩ := wf.ruleNotComment
  obtain ⟨ns', hlen, heq⟩ := mkGo_comments decode b.comments wf.comments [] [] (n + 1) (b.rule :: rest) acc true
  refine ⟨ns'.reverse, n + 1 + b.comments.length + 1, by simpa using hlen, ?_⟩
  simp only [Block.lines, List.cons_append, mkGo, wf.marker, if_true, List.append_assoc, List.nil_append]
  rw [heq]
  simp only [mkGo, hrule, hc, List.append_nil, List.reverse_reverse, Bool.false_eq_true, if_false]
  generalize handleTarget decode MkVersion.cur _ _ _ _ = res
  cases res <;> rfl

theorem handleTarget_ok (decode : Bytes → Option Annotation) (b : Block) (a : Annotation)
    (ha : b.annotation decode = some a) (hcolon : cColon ∈ trimSpace b.rule) (nums : List Nat) (n' : Nat) :
    handleTarget decode .cur (b.comments.map (·.2)) nums b.rule n' = .ok (mkTarget a b.goal) := by
  unfold handleTarget
  simp only [Block.annotation, Block.content] at ha
  by_cases hl : (joinNL (b.comments.map (·.2))).length > 0
  · simp only [hl, if_true] at ha
    simp [hl, ha, hcolon, Block.goal, bind, Except.bind, pure, Except.pure]
  · simp only [hl, if_false] at ha
    injection ha with ha; subst ha
    simp [hl, hcolon, Block.goal, bind, Except.bind, pure, Except.pure]

/-- what the scanner does with one well-formed block whose rule line has a colon and whose annotation
    decodes: exactly one DTO, `mkTarget` of the decoded annotation and the goal, and it goes on behind it. -/
theorem mkGo_block (decode : Bytes → Option Annotation) (b : Block) (wf : b.WF) (a : Annotation)
    (ha : b.annotation decode = some a) (hcolon : cColon ∈ trimSpace b.rule)
    (n : Nat) (rest : List Bytes) (acc : List TargetDTO) (found : Bool) :
    ∃ n', mkGo decode .cur .outside n (b.lines ++ rest) acc found =
      mkGo decode .cur .outside n' rest (mkTarget a b.goal :: acc) true := by
  obtain ⟨nums, n', _, heq⟩ := mkGo_to_rule decode b wf n rest acc found
  exact ⟨n', by rw [heq, handleTarget_ok decode b a ha hcolon]⟩

/-- k annotated rules ⇒ k DTOs, in order, each the `mkTarget` of its decoded annotation and its goal. -/
theorem mkGo_blocks (decode : Bytes → Option Annotation) (bs : List (Block × Annotation))
    (h : ∀ p ∈ bs, p.1.WF ∧ p.1.annotation decode = some p.2 ∧ cColon ∈ trimSpace p.1.rule) :
    ∀ (n : Nat) (acc : List TargetDTO) (found : Bool),
      mkGo decode .cur .outside n (bs.flatMap (·.1.lines)) acc found =
        ⟨acc.reverse ++ bs.map (fun p => mkTarget p.2 p.1.goal), found || !bs.isEmpty, none⟩ := by
  induction bs with
  | nil => intro n acc found; simp [mkGo]
  | cons p r ih =>
    intro n acc found
    obtain ⟨wf, ha, hc⟩ := h p (List.mem_cons_self ..)
    obtain ⟨n', hn'⟩ := mkGo_block decode p.1 wf p.2 ha hc n (r.flatMap (·.1.lines)) acc found
    simp only [List.flatMap_cons]
    rw [hn', ih (fun q hq => h q (List.mem_cons_of_mem _ hq))]
    simp

/-- a block whose annotation does not decode stops the scan with the YAML error -/
theorem mkGo_block_yaml_error (decode : Bytes → Option Annotation) (b : Block) (wf : b.WF)
    (ha : b.annotation decode = none)
    (n : Nat) (rest : List Bytes) (acc : List TargetDTO) (found : Bool) :
    ∃ x y, (mkGo decode .cur .outside n (b.lines ++ rest) acc found).err = some (.yaml x y) := by
  obtain ⟨nums, n', hlen, heq⟩ := mkGo_to_rule decode b wf n rest acc found
  simp only [Block.annotation, Block.content] at ha
  have hl : (joinNL (b.comments.map (·.2))).length > 0 := by
    by_cases hl : (joinNL (b.comments.map (·.2))).length > 0
    · exact hl
    · simp [hl] at ha
  simp only [hl, if_true] at ha
  have hne : b.comments ≠ [] := by
    intro e; rw [e] at hl; simp [joinNL] at hl
  have hns : nums ≠ [] := by
    intro e; subst e; simp at hlen; exact hne (List.length_eq_zero_iff.mp hlen.symm)
  obtain ⟨f, hf⟩ := idx_zero_ok hns
  obtain ⟨l, hlast⟩ := idx_last_ok hns
  have hh : handleTarget decode .cur (b.comments.map (·.2)) nums b.rule n' = .error (.yaml f l) := by
    unfold handleTarget
    simp [hl, ha, hf, hlast, bind, Except.bind, throw, throwThe, MonadExceptOf.throw]
  exact ⟨f, l, by rw [heq, hh]⟩

/-- an annotation block followed by a line that is not a rule (no colon) stops the scan with an error -/
theorem mkGo_block_no_colon_error (decode : Bytes → Option Annotation) (b : Block) (wf : b.WF) (a : Annotation)
    (ha : b.annotation decode = some a) (hcolon : cColon ∉ trimSpace b.rule)
    (n : Nat) (rest : List Bytes) (acc : List TargetDTO) (found : Bool) :
    ∃ x, (mkGo decode .cur .outside n (b.lines ++ rest) acc found).err = some (.noColon x) := by
  obtain ⟨nums, n', _, heq⟩ := mkGo_to_rule decode b wf n rest acc found
  have hh : handleTarget decode .cur (b.comments.map (·.2)) nums b.rule n' = .error (.noColon n') := by
    unfold handleTarget
    simp only [Block.annotation, Block.content] at ha
    by_cases hl : (joinNL (b.comments.map (·.2))).length > 0
    · simp only [hl, if_true] at ha
      simp [hl, ha, hcolon, bind, Except.bind, pure, Except.pure, throw, throwThe, MonadExceptOf.throw]
    · simp [hl, hcolon, bind, Except.bind, pure, Except.pure, throw, throwThe, MonadExceptOf.throw]
  exact ⟨n', by rw [heq, hh]⟩

end Grog.Loader
