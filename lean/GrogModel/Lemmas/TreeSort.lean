/-
  Order facts about `bytesLt` and the insertion sort used by `validateOutputs` (slices.Sort on strings).
-/
import GrogModel.Tree
namespace Grog

theorem u8_lt_iff (a b : UInt8) : (decide (a < b) = true) ↔ a.toNat < b.toNat := by
  simp [UInt8.lt_iff_toNat_lt]

theorem u8_eq_iff (a b : UInt8) : a = b ↔ a.toNat = b.toNat := by
  constructor
  · intro h; rw [h]
  · intro h; exact UInt8.toNat_inj.mp h

theorem bytesLt_cons (a b : UInt8) (as bs : Bytes) :
    bytesLt (a :: as) (b :: bs) = true ↔ a.toNat < b.toNat ∨ (a.toNat = b.toNat ∧ bytesLt as bs = true) := by
  simp only [bytesLt, Bool.or_eq_true, Bool.and_eq_true, beq_iff_eq, u8_lt_iff, u8_eq_iff]

theorem bytesLtT_irrefl (a : Bytes) : bytesLt a a = false := by
  induction a with
  | nil => rfl
  | cons x xs ih =>
    cases h : bytesLt (x :: xs) (x :: xs) with
    | false => rfl
    | true => rw [bytesLt_cons] at h; rcases h with h | ⟨_, h⟩ <;> simp_all

theorem bytesLtT_asymm (a b : Bytes) (h : bytesLt a b = true) : bytesLt b a = false := by
  induction a generalizing b with
  | nil => cases b <;> simp_all [bytesLt]
  | cons x xs ih =>
    cases b with
    | nil => simp [bytesLt] at h
    | cons y ys =>
      rw [bytesLt_cons] at h
      cases h2 : bytesLt (y :: ys) (x :: xs) with
      | false => rfl
      | true =>
        rw [bytesLt_cons] at h2
        rcases h with h | ⟨he, h⟩ <;> rcases h2 with h2 | ⟨he2, h2⟩
        · omega
        · omega
        · omega
        · have := ih ys h; simp_all

theorem bytesLtT_total (a b : Bytes) (h1 : bytesLt a b = false) (h2 : bytesLt b a = false) : a = b := by
  induction a generalizing b with
  | nil =>
    cases b with
    | nil => rfl
    | cons y ys => simp [bytesLt] at h1
  | cons x xs ih =>
    cases b with
    | nil => simp [bytesLt] at h2
    | cons y ys =>
      have n1 : ¬ (x.toNat < y.toNat ∨ (x.toNat = y.toNat ∧ bytesLt xs ys = true)) := by
        rw [← bytesLt_cons]; simp [h1]
      have n2 : ¬ (y.toNat < x.toNat ∨ (y.toNat = x.toNat ∧ bytesLt ys xs = true)) := by
        rw [← bytesLt_cons]; simp [h2]
      have hxy : x.toNat = y.toNat := by omega
      have e : x = y := (u8_eq_iff x y).mpr hxy
      subst e
      have t1 : bytesLt xs ys = false := by
        cases h : bytesLt xs ys with
        | false => rfl
        | true => exact absurd (Or.inr ⟨rfl, h⟩) n1
      have t2 : bytesLt ys xs = false := by
        cases h : bytesLt ys xs with
        | false => rfl
        | true => exact absurd (Or.inr ⟨rfl, h⟩) n2
      rw [ih ys t1 t2]

theorem bytesLtT_trans (a b c : Bytes) (h1 : bytesLt a b = true) (h2 : bytesLt b c = true) : bytesLt a c = true := by
  induction a generalizing b c with
  | nil =>
    cases c with
    | nil => cases b <;> simp [bytesLt] at h2
    | cons z zs => simp [bytesLt]
  | cons x xs ih =>
    cases b with
    | nil => simp [bytesLt] at h1
    | cons y ys =>
      cases c with
      | nil => simp [bytesLt] at h2
      | cons z zs =>
        rw [bytesLt_cons] at h1 h2 ⊢
        rcases h1 with h1 | ⟨e1, h1⟩ <;> rcases h2 with h2 | ⟨e2, h2⟩
        · left; omega
        · left; omega
        · left; omega
        · right; exact ⟨by omega, ih ys zs h1 h2⟩

/-- `a ≤ b` in the bytewise lexicographic order -/
def bytesLeT (a b : Bytes) : Prop := bytesLt b a = false

theorem bytesLeT_trans {a b c : Bytes} (h1 : bytesLeT a b) (h2 : bytesLeT b c) : bytesLeT a c := by
  unfold bytesLeT at *
  cases h : bytesLt c a with
  | false => rfl
  | true =>
    -- c < a ≤ b gives c < b, contradicting b ≤ c
    cases hab : bytesLt a b with
    | true => have := bytesLtT_trans c a b h hab; simp_all
    | false =>
      have : a = b := bytesLtT_total a b hab h1
      subst this; simp_all

theorem mem_insertSorted (x : Bytes) (l : List Bytes) : ∀ y, y ∈ insertSorted x l ↔ y = x ∨ y ∈ l := by
  induction l with
  | nil => simp [insertSorted]
  | cons z zs ih =>
    intro y
    simp only [insertSorted]
    split
    · simp only [List.mem_cons, ih]; constructor <;> (intro h; rcases h with h | h | h <;> simp [h])
    · simp

theorem insertSorted_pairwise (x : Bytes) (l : List Bytes) (h : l.Pairwise bytesLeT) :
    (insertSorted x l).Pairwise bytesLeT := by
  induction l with
  | nil => simp [insertSorted]
  | cons z zs ih =>
    simp only [List.pairwise_cons] at h
    simp only [insertSorted]
    split
    · rename_i hzx
      simp only [List.pairwise_cons]
      refine ⟨?_, ih h.2⟩
      intro y hy
      rcases (mem_insertSorted x zs y).mp hy with rfl | hy
      · exact bytesLtT_asymm _ _ hzx
      · exact h.1 y hy
    · rename_i hzx
      have hxz : bytesLeT x z := by simpa [bytesLeT] using hzx
      simp only [List.pairwise_cons, List.mem_cons]
      refine ⟨?_, h.1, h.2⟩
      intro y hy
      rcases hy with rfl | hy
      · exact hxz
      · exact bytesLeT_trans hxz (h.1 y hy)

theorem sortBytesT_pairwise (l : List Bytes) : (sortBytesT l).Pairwise bytesLeT := by
  induction l with
  | nil => simp [sortBytesT]
  | cons x xs ih => exact insertSorted_pairwise x _ ih

theorem insertSorted_perm (x : Bytes) (l : List Bytes) : (insertSorted x l).Perm (x :: l) := by
  induction l with
  | nil => simp [insertSorted]
  | cons z zs ih =>
    simp only [insertSorted]
    split
    · exact (List.Perm.cons z ih).trans (List.Perm.swap x z zs)
    · exact List.Perm.refl _

theorem sortBytesT_perm (l : List Bytes) : (sortBytesT l).Perm l := by
  induction l with
  | nil => simp [sortBytesT]
  | cons x xs ih => exact (insertSorted_perm x _).trans (List.Perm.cons x ih)

theorem sortBytesT_eq_of_perm {a b : List Bytes} (h : a.Perm b) : sortBytesT a = sortBytesT b := by
  apply List.Perm.eq_of_pairwise (le := bytesLeT)
  · intro x y _ _ h1 h2; exact bytesLtT_total x y h2 h1
  · exact sortBytesT_pairwise a
  · exact sortBytesT_pairwise b
  · exact (sortBytesT_perm a).trans (h.trans (sortBytesT_perm b).symm)

end Grog
