/-
  Rebuilding a directory from its Merkle encoding gives back the same listing (the core of C06).
-/
import GrogModel.Lemmas.TreeEnc
namespace Grog

/-! ### children list and children map -/

theorem mem_insertKid_old (k : Digest × Directory) (l : List (Digest × Directory)) :
    ∀ x ∈ l, x ∈ insertKid k l := by
  induction l with
  | nil => simp
  | cons hd t ih =>
    obtain ⟨d, c⟩ := hd
    intro x hx
    simp only [insertKid]
    split
    · exact hx
    · split
      · exact List.mem_cons_of_mem _ hx
      · simp only [List.mem_cons] at hx ⊢
        rcases hx with rfl | hx
        · exact Or.inl rfl
        · exact Or.inr (ih x hx)

theorem key_insertKid (k : Digest × Directory) (l : List (Digest × Directory)) :
    ∃ c, (k.1, c) ∈ insertKid k l := by
  induction l with
  | nil => exact ⟨k.2, by simp [insertKid]⟩
  | cons hd t ih =>
    obtain ⟨d, c⟩ := hd
    simp only [insertKid]
    split
    · rename_i h; subst h; exact ⟨c, by simp⟩
    · split
      · exact ⟨k.2, by simp⟩
      · obtain ⟨c', hc'⟩ := ih; exact ⟨c', List.mem_cons_of_mem _ hc'⟩

theorem mem_insertKid (k : Digest × Directory) (l : List (Digest × Directory)) :
    ∀ x ∈ insertKid k l, x = k ∨ x ∈ l := by
  induction l with
  | nil => simp [insertKid]
  | cons hd t ih =>
    obtain ⟨d, c⟩ := hd
    intro x hx
    simp only [insertKid] at hx
    split at hx
    · exact Or.inr hx
    · split at hx
      · simp only [List.mem_cons] at hx ⊢
        rcases hx with rfl | rfl | hx
        · exact Or.inl rfl
        · exact Or.inr (Or.inl rfl)
        · exact Or.inr (Or.inr hx)
      · simp only [List.mem_cons] at hx ⊢
        rcases hx with rfl | hx
        · exact Or.inr (Or.inl rfl)
        · rcases ih x hx with h | h
          · exact Or.inl h
          · exact Or.inr (Or.inr h)

theorem key_sortKids (l : List (Digest × Directory)) : ∀ k ∈ l, ∃ c, (k.1, c) ∈ sortKids l := by
  induction l with
  | nil => simp
  | cons hd t ih =>
    intro k hk
    simp only [List.mem_cons] at hk
    simp only [sortKids]
    rcases hk with rfl | hk
    · exact key_insertKid _ _
    · obtain ⟨c, hc⟩ := ih k hk
      exact ⟨c, mem_insertKid_old _ _ _ hc⟩

theorem mem_sortKids (l : List (Digest × Directory)) : ∀ x ∈ sortKids l, x ∈ l := by
  induction l with
  | nil => simp [sortKids]
  | cons hd t ih =>
    intro x hx
    simp only [sortKids] at hx
    rcases mem_insertKid _ _ x hx with rfl | h
    · simp
    · exact List.mem_cons_of_mem _ (ih x h)

section
variable (H : Bytes → Digest) (serD : Directory → Bytes)

/-- Every sub-directory is found in the children map of the restored tree under its digest, provided the digests of
    the occurring directory messages are collision free. -/
theorem childMap_lookup (kids : List (Digest × Directory))
    (hdig : ∀ k ∈ kids, k.1 = H (serD k.2))
    (hinj : ∀ a ∈ kids, ∀ b ∈ kids, H (serD a.2) = H (serD b.2) → a.2 = b.2) :
    ∀ k ∈ kids, (childMap H serD (children kids)).lookup k.1 = some k.2 := by
  intro k hk
  -- some binding with k's digest survives in the children list
  obtain ⟨c, hc⟩ := key_sortKids kids.reverse k (by simpa using hk)
  have hcm : (k.1, c) ∈ childMap H serD (children kids) := by
    have hck := mem_sortKids _ _ hc
    have : (k.1, c).1 = H (serD (k.1, c).2) := hdig _ (by simpa using hck)
    simp only [childMap, children, List.mem_reverse, List.mem_map]
    exact ⟨c, ⟨(k.1, c), hc, rfl⟩, by simpa using this.symm⟩
  obtain ⟨c', hl, hm⟩ := lookup_of_key_mem _ k.1 ⟨c, hcm⟩
  rw [hl]
  -- whatever is found under that digest is a kid with the same digest, hence the same message
  simp only [childMap, children, List.mem_reverse, List.mem_map] at hm
  obtain ⟨c2, ⟨x, hx, hx2⟩, heq⟩ := hm
  have hxk := mem_sortKids _ _ hx
  have hxk' : x ∈ kids := by simpa using hxk
  simp only [Prod.mk.injEq] at heq
  obtain ⟨h1, h2⟩ := heq
  subst h2; subst hx2
  have := hinj x hxk' k hk (by rw [h1, hdig k hk])
  rw [this]

end

/-! ### the three phases of loadDirectoryRecursive -/

theorem addFiles_spec (cas : Cas) (fs : List FileNode) (acc : List (Name × Entry)) (blob : FileNode → Bytes)
    (hcas : ∀ f ∈ fs, cas.get f.digest = some (blob f)) :
    ∃ acc', addFiles cas fs acc = .ok acc' ∧
      (∀ m, m ∉ fs.map (·.name) → lookupE acc' m = lookupE acc m) ∧
      ((fs.map (·.name)).Nodup → ∀ f ∈ fs, lookupE acc' f.name = some (.file (blob f) f.exec)) := by
  induction fs generalizing acc with
  | nil => exact ⟨acc, rfl, fun _ _ => rfl, fun _ f hf => by simp at hf⟩
  | cons f fs ih =>
    have hf := hcas f (by simp)
    obtain ⟨acc', h1, h2, h3⟩ := ih (setE acc f.name (.file (blob f) f.exec)) (fun g hg => hcas g (by simp [hg]))
    refine ⟨acc', by simp [addFiles, hf, h1], ?_, ?_⟩
    · intro m hm
      simp only [List.map_cons, List.mem_cons, not_or] at hm
      have hne : ¬ f.name = m := fun h => hm.1 h.symm
      rw [h2 m hm.2, lookupE_setE]
      simp [hne]
    · intro hnd g hg
      simp only [List.map_cons, List.nodup_cons] at hnd
      simp only [List.mem_cons] at hg
      rcases hg with rfl | hg
      · rw [h2 _ hnd.1, lookupE_setE_self]
      · exact h3 hnd.2 g hg

theorem addDirs_spec (cmap : List (Digest × Directory)) (build : Directory → Except Err Entry)
    (ds : List DirNode) (acc : List (Name × Entry)) (R : DirNode → Entry → Prop)
    (hb : ∀ d ∈ ds, ∃ c sub, cmap.lookup d.digest = some c ∧ build c = .ok sub ∧ R d sub) :
    ∃ acc', addDirs cmap build ds acc = .ok acc' ∧
      (∀ m, m ∉ ds.map (·.name) → lookupE acc' m = lookupE acc m) ∧
      ((ds.map (·.name)).Nodup → ∀ d ∈ ds, ∃ sub, lookupE acc' d.name = some sub ∧ R d sub) := by
  induction ds generalizing acc with
  | nil => exact ⟨acc, rfl, fun _ _ => rfl, fun _ d hd => by simp at hd⟩
  | cons d ds ih =>
    obtain ⟨c, sub, hc, hbs, hr⟩ := hb d (by simp)
    obtain ⟨acc', h1, h2, h3⟩ := ih (setE acc d.name sub) (fun g hg => hb g (by simp [hg]))
    refine ⟨acc', by simp [addDirs, hc, hbs, h1], ?_, ?_⟩
    · intro m hm
      simp only [List.map_cons, List.mem_cons, not_or] at hm
      have hne : ¬ d.name = m := fun h => hm.1 h.symm
      rw [h2 m hm.2, lookupE_setE]
      simp [hne]
    · intro hnd g hg
      simp only [List.map_cons, List.nodup_cons] at hnd
      simp only [List.mem_cons] at hg
      rcases hg with rfl | hg
      · exact ⟨sub, by rw [h2 _ hnd.1, lookupE_setE_self], hr⟩
      · exact h3 hnd.2 g hg

theorem addLinks_spec (ls : List LinkNode) (acc : List (Name × Entry)) :
    (∀ m, m ∉ ls.map (·.name) → lookupE (addLinks ls acc) m = lookupE acc m) ∧
    ((ls.map (·.name)).Nodup → ∀ l ∈ ls, lookupE (addLinks ls acc) l.name = some (.link l.target)) := by
  induction ls generalizing acc with
  | nil => exact ⟨fun _ _ => rfl, fun _ l hl => by simp at hl⟩
  | cons l ls ih =>
    obtain ⟨h2, h3⟩ := ih (setE acc l.name (.link l.target))
    refine ⟨?_, ?_⟩
    · intro m hm
      simp only [List.map_cons, List.mem_cons, not_or] at hm
      simp only [addLinks]
      have hne : ¬ l.name = m := fun h => hm.1 h.symm
      rw [h2 m hm.2, lookupE_setE]
      simp [hne]
    · intro hnd g hg
      simp only [List.map_cons, List.nodup_cons] at hnd
      simp only [List.mem_cons] at hg
      simp only [addLinks]
      rcases hg with rfl | hg
      · rw [h2 _ hnd.1, lookupE_setE_self]
      · exact h3 hnd.2 g hg

/-! ### well-formedness helpers -/

theorem entry_unique {es : List (Name × Entry)} {m : Name} {e1 e2 : Entry}
    (hnd : (namesOf es).Nodup) (h1 : (m, e1) ∈ es) (h2 : (m, e2) ∈ es) : e1 = e2 := by
  have a := lookupE_of_mem hnd h1
  have b := lookupE_of_mem hnd h2
  rw [a] at b; exact Option.some.inj b

theorem exists_of_mem_names {es : List (Name × Entry)} {m : Name} (h : m ∈ namesOf es) : ∃ e, (m, e) ∈ es := by
  simp only [namesOf, List.mem_map] at h
  obtain ⟨⟨k, e⟩, hm, rfl⟩ := h
  exact ⟨e, hm⟩

theorem wf_sub {es : List (Name × Entry)} {n : Name} {s : List (Name × Entry)}
    (h : WFList es) (hm : (n, Entry.dir s) ∈ es) : (Entry.dir s).WF := by
  induction es with
  | nil => simp at hm
  | cons hd t ih =>
    obtain ⟨k, e⟩ := hd
    simp only [WFList] at h
    simp only [List.mem_cons, Prod.mk.injEq] at hm
    rcases hm with ⟨rfl, rfl⟩ | hm
    · exact h.1
    · exact ih h.2 hm

/-! ### the round trip of the encoding -/

section
variable (H : Bytes → Digest) (serD : Directory → Bytes)

/-- **Rebuilding from the encoding.** For every well-formed entry list, every CAS that holds the uploads under their
    digests and every children map that resolves the sub-directory digests, `loadDirectoryRecursive` succeeds (given
    enough recursion budget) and produces a directory with exactly the same recursive listing. -/
theorem buildDir_enc (cas : Cas) (cmap : List (Digest × Directory)) :
    ∀ (fuel : Nat) (es : List (Name × Entry)), depthList es < fuel → (Entry.dir es).WF →
      (∀ u ∈ (encList H serD es).ups, cas.get u.1 = some u.2) →
      (∀ k ∈ (encList H serD es).kids, cmap.lookup k.1 = some k.2) →
      ∃ r, buildDir cas cmap fuel (encList H serD es).dir = .ok r ∧ r.Same (.dir es) := by
  intro fuel
  induction fuel with
  | zero => intro es h; omega
  | succ fuel ih =>
    intro es hdepth hwf hups hkids
    obtain ⟨hnd, hwfl⟩ : (namesOf es).Nodup ∧ WFList es := by simpa [Entry.WF] using hwf
    rw [encList_dir]
    -- phase 1: files
    let blob : FileNode → Bytes := fun f => (cas.get f.digest).getD []
    have hblob : ∀ n b x, (n, Entry.file b x) ∈ es → cas.get (H b) = some b := fun n b x hm =>
      hups _ (ups_of_file_mem H serD hm)
    have hcasF : ∀ f ∈ filesOf H es, cas.get f.digest = some (blob f) := by
      intro f hf
      obtain ⟨b, hm, hd⟩ := mem_filesOf H hf
      simp only [blob, hd, hblob _ _ _ hm, Option.getD_some]
    obtain ⟨a1, hA1, hA1o, hA1i⟩ := addFiles_spec cas (filesOf H es) [] blob hcasF
    -- phase 2: sub-directories
    let R : DirNode → Entry → Prop := fun d sub => ∀ s, (d.name, Entry.dir s) ∈ es → sub.Same (.dir s)
    have hbD : ∀ d ∈ dirsOf H serD es, ∃ c sub, cmap.lookup d.digest = some c ∧
        buildDir cas cmap fuel c = .ok sub ∧ R d sub := by
      intro d hd
      obtain ⟨s, hm, hdg⟩ := mem_dirsOf H serD hd
      obtain ⟨hsu, hsk, hkid, hdep⟩ := sub_of_dir_mem H serD hm
      obtain ⟨sub, hb, hsame⟩ := ih s (by omega) (wf_sub hwfl hm) (fun u hu => hups u (hsu u hu)) (fun k hk => hkids k (hsk k hk))
      refine ⟨(encList H serD s).dir, sub, ?_, hb, ?_⟩
      · rw [hdg]; exact hkids _ hkid
      · intro s' hm'
        have : Entry.dir s' = Entry.dir s := entry_unique hnd hm' hm
        cases this; exact hsame
    obtain ⟨a2, hA2, hA2o, hA2i⟩ := addDirs_spec cmap (buildDir cas cmap fuel) (dirsOf H serD es) a1 R hbD
    -- phase 3: links
    obtain ⟨hA3o, hA3i⟩ := addLinks_spec (linksOf es) a2
    refine ⟨.dir (addLinks (linksOf es) a2), by simp [buildDir, hA1, hA2], ?_⟩
    have ndF := List.Nodup.sublist (filesOf_names_sublist H es) hnd
    have ndD := List.Nodup.sublist (dirsOf_names_sublist H serD es) hnd
    have ndL := List.Nodup.sublist (linksOf_names_sublist es) hnd
    -- names of one kind do not occur among the nodes of another kind
    have notF : ∀ m e, (m, e) ∈ es → (∀ b x, e ≠ .file b x) → m ∉ (filesOf H es).map (·.name) := by
      intro m e hm hne hmem
      obtain ⟨f, hf, rfl⟩ := List.mem_map.mp hmem
      obtain ⟨b, hm2, _⟩ := mem_filesOf H hf
      exact hne b f.exec (entry_unique hnd hm hm2)
    have notD : ∀ m e, (m, e) ∈ es → (∀ s, e ≠ .dir s) → m ∉ (dirsOf H serD es).map (·.name) := by
      intro m e hm hne hmem
      obtain ⟨d, hd, rfl⟩ := List.mem_map.mp hmem
      obtain ⟨s, hm2, _⟩ := mem_dirsOf H serD hd
      exact hne s (entry_unique hnd hm hm2)
    have notL : ∀ m e, (m, e) ∈ es → (∀ t, e ≠ .link t) → m ∉ (linksOf es).map (·.name) := by
      intro m e hm hne hmem
      obtain ⟨l, hl, rfl⟩ := List.mem_map.mp hmem
      exact hne l.target (entry_unique hnd hm (mem_linksOf hl))
    intro p
    cases p with
    | nil => simp [Entry.nodeAt, Entry.node]
    | cons m p =>
      simp only [Entry.nodeAt, Entry.get_dir_cons]
      by_cases hmn : m ∈ namesOf es
      · obtain ⟨e, hme⟩ := exists_of_mem_names hmn
        rw [lookupE_of_mem hnd hme]
        cases e with
        | file b x =>
          have hf := filesOf_mem H hme
          have h1 := hA1i ndF _ hf
          have hb : blob ⟨m, H b, b.length, x⟩ = b := by simp [blob, hblob _ _ _ hme]
          rw [hA3o m (notL m _ hme (by simp)), hA2o m (notD m _ hme (by simp)), h1, hb]
        | link t =>
          have hl := linksOf_mem hme
          rw [hA3i ndL _ hl]
        | dir s =>
          obtain ⟨d, hd, hdn, _⟩ := dirsOf_mem H serD hme
          obtain ⟨sub, hsub, hR⟩ := hA2i ndD d hd
          rw [hdn] at hsub
          rw [hA3o m (notL m _ hme (by simp)), hsub]
          have := hR s (hdn ▸ hme) p
          simpa [Entry.nodeAt] using this
      · have hnone : lookupE es m = none := lookupE_none_of_not_mem hmn
        have nF : m ∉ (filesOf H es).map (·.name) := fun h => hmn ((filesOf_names_sublist H es).subset h)
        have nD : m ∉ (dirsOf H serD es).map (·.name) := fun h => hmn ((dirsOf_names_sublist H serD es).subset h)
        have nL : m ∉ (linksOf es).map (·.name) := fun h => hmn ((linksOf_names_sublist es).subset h)
        rw [hA3o m nL, hA2o m nD, hA1o m nF, hnone]
        simp [lookupE]

end

end Grog

namespace Grog

theorem Entry.Same.symm {a b : Entry} (h : a.Same b) : b.Same a := fun p => (h p).symm
theorem Entry.Same.trans {a b c : Entry} (h1 : a.Same b) (h2 : b.Same c) : a.Same c := fun p => (h1 p).trans (h2 p)
theorem Entry.Same.refl (a : Entry) : a.Same a := fun _ => rfl

section
variable (H : Bytes → Digest) (serD : Directory → Bytes) (serT : TreeMsg → Bytes)

theorem ups_form : (es : List (Name × Entry)) → ∀ u ∈ (encList H serD es).ups, u.1 = H u.2
  | [] => by simp [encList]
  | (_, .file _ _) :: rest => by
    intro u hu
    simp only [encList, List.mem_cons] at hu
    rcases hu with rfl | hu
    · rfl
    · exact ups_form rest u hu
  | (_, .link _) :: rest => by simpa [encList] using ups_form rest
  | (_, .dir s) :: rest => by
    intro u hu
    simp only [encList, List.mem_append] at hu
    rcases hu with h | h
    · exact ups_form s u h
    · exact ups_form rest u h

/-- the byte streams that are hashed when a directory is written -/
def streams (es : List (Name × Entry)) : List Bytes :=
  (encList H serD es).ups.map (·.2) ++ (encList H serD es).kids.map (fun k => serD k.2) ++ [serT (treeMsg H serD es)]

def CollisionFree (S : List Bytes) : Prop := ∀ x ∈ S, ∀ y ∈ S, H x = H y → x = y

/-- a marshalling function `f` is injective on the sub-directory messages of a tree -/
def InjOnKids (f : Directory → Bytes) (es : List (Name × Entry)) : Prop :=
  ∀ a ∈ (encList H serD es).kids, ∀ b ∈ (encList H serD es).kids, f a.2 = f b.2 → a.2 = b.2

/-- **The local-hash shortcut is sound**: if the directory currently at the destination hashes to the stored tree
    digest then it already has exactly the cached listing (no hash collision among the streams of the two trees). -/
theorem shortcut_sound (es es' : List (Name × Entry)) (hwf : (Entry.dir es).WF) (hwf' : (Entry.dir es').WF)
    (hserD : InjOnKids H serD serD es) (hserD' : InjOnKids H serD serD es')
    (hserT : serT (treeMsg H serD es') = serT (treeMsg H serD es) → treeMsg H serD es' = treeMsg H serD es)
    (hcf : CollisionFree H (streams H serD serT es ++ streams H serD serT es'))
    (hd : H (serT (treeMsg H serD es')) = H (serT (treeMsg H serD es))) :
    (Entry.dir es').Same (.dir es) := by
  have hm : treeMsg H serD es' = treeMsg H serD es := by
    apply hserT
    apply hcf _ (by simp [streams]) _ (by simp [streams]) hd
  have hroot : (encList H serD es').dir = (encList H serD es).dir := congrArg TreeMsg.root hm
  have hch : children (encList H serD es').kids = children (encList H serD es).kids := congrArg TreeMsg.children hm
  -- a CAS holding the uploads of both trees
  let casU : Cas := (encList H serD es').ups ++ (encList H serD es).ups
  have hcasU : ∀ u, u ∈ (encList H serD es').ups ∨ u ∈ (encList H serD es).ups → casU.get u.1 = some u.2 := by
    intro u hu
    have hmem : (u.1, u.2) ∈ casU := by simpa [casU] using hu
    obtain ⟨c, hl, hc⟩ := lookup_of_key_mem casU u.1 ⟨u.2, hmem⟩
    have hcu : (u.1, c) ∈ (encList H serD es').ups ∨ (u.1, c) ∈ (encList H serD es).ups := by simpa [casU] using hc
    have f1 : u.1 = H u.2 := by rcases hu with h | h <;> exact ups_form H serD _ u h
    have f2 : u.1 = H c := by rcases hcu with h | h <;> exact ups_form H serD _ (u.1, c) h
    have : c = u.2 := by
      apply hcf
      · rcases hcu with h | h
        · simp only [streams, List.mem_append, List.mem_map]; exact Or.inr (Or.inl (Or.inl ⟨_, h, rfl⟩))
        · simp only [streams, List.mem_append, List.mem_map]; exact Or.inl (Or.inl (Or.inl ⟨_, h, rfl⟩))
      · rcases hu with h | h
        · simp only [streams, List.mem_append, List.mem_map]; exact Or.inr (Or.inl (Or.inl ⟨_, h, rfl⟩))
        · simp only [streams, List.mem_append, List.mem_map]; exact Or.inl (Or.inl (Or.inl ⟨_, h, rfl⟩))
      · rw [← f1, ← f2]
    simp only [Cas.get, hl, this]
  -- sub-directory digests are collision free in each tree
  have hinj : ∀ (l : List (Name × Entry)), (l = es ∨ l = es') →
      ∀ a ∈ (encList H serD l).kids, ∀ b ∈ (encList H serD l).kids, H (serD a.2) = H (serD b.2) → a.2 = b.2 := by
    intro l hl a ha b hb hab
    have key : serD a.2 = serD b.2 → a.2 = b.2 := by
      rcases hl with rfl | rfl
      · exact hserD a ha b hb
      · exact hserD' a ha b hb
    apply key
    apply hcf _ _ _ _ hab
    · rcases hl with rfl | rfl
      · simp only [streams, List.mem_append, List.mem_map]; exact Or.inl (Or.inl (Or.inr ⟨a, ha, rfl⟩))
      · simp only [streams, List.mem_append, List.mem_map]; exact Or.inr (Or.inl (Or.inr ⟨a, ha, rfl⟩))
    · rcases hl with rfl | rfl
      · simp only [streams, List.mem_append, List.mem_map]; exact Or.inl (Or.inl (Or.inr ⟨b, hb, rfl⟩))
      · simp only [streams, List.mem_append, List.mem_map]; exact Or.inr (Or.inl (Or.inr ⟨b, hb, rfl⟩))
  let fuel := max (depthList es) (depthList es') + 1
  let cmap := childMap H serD (children (encList H serD es).kids)
  obtain ⟨r, hr, hsame⟩ := buildDir_enc H serD casU cmap fuel es (by omega) hwf
    (fun u hu => hcasU u (Or.inr hu))
    (childMap_lookup H serD _ (kids_digest H serD es) (hinj es (Or.inl rfl)))
  obtain ⟨r', hr', hsame'⟩ := buildDir_enc H serD casU cmap fuel es' (by omega) hwf'
    (fun u hu => hcasU u (Or.inl hu))
    (by rw [show cmap = childMap H serD (children (encList H serD es').kids) by simp [cmap, hch]]
        exact childMap_lookup H serD _ (kids_digest H serD es') (hinj es' (Or.inr rfl)))
  rw [hroot, hr] at hr'
  cases hr'
  exact hsame'.symm.trans hsame

end
end Grog

namespace Grog

/-! ### what `writeDir` leaves in the CAS -/

theorem Cas.get_write_of_get {c : Cas} {k : Digest} {v : Bytes} (d : Digest) (b : Bytes) (h : c.get k = some v) :
    (c.write d b).get k = some v := by
  unfold Cas.write
  split
  · exact h
  · simp only [Cas.get] at h ⊢
    rw [List.lookup_append]
    simp [h]

theorem Cas.get_write_self (c : Cas) (d : Digest) (b : Bytes) :
    (c.write d b).get d = some b ∨ ∃ b', c.get d = some b' ∧ (c.write d b).get d = some b' := by
  unfold Cas.write
  cases h : c.lookup d with
  | some b' => exact Or.inr ⟨b', h, by simp [Cas.get, h]⟩
  | none =>
    left
    simp only [Cas.get]
    rw [List.lookup_append]
    simp [h, List.lookup]

/-- `Agrees c l`: wherever `c` already has one of the digests of `l`, it has the content `l` wants there (true when `c`
    is content-addressed and the hash is collision free on the contents involved). -/
def Agrees (c : Cas) (l : List (Digest × Bytes)) : Prop := ∀ u ∈ l, ∀ b', c.get u.1 = some b' → b' = u.2

theorem writeBlobs_get (l : List (Digest × Bytes)) :
    ∀ (c : Cas), Agrees c l → (∀ u ∈ l, ∀ w ∈ l, u.1 = w.1 → u.2 = w.2) →
      (∀ u ∈ l, (writeBlobs c l).get u.1 = some u.2) ∧ (∀ k v, c.get k = some v → (writeBlobs c l).get k = some v) := by
  induction l with
  | nil => intro c _ _; exact ⟨fun u hu => by simp at hu, fun k v h => h⟩
  | cons hd t ih =>
    intro c hag hcons
    obtain ⟨d, b⟩ := hd
    have hstep : (c.write d b).get d = some b := by
      rcases Cas.get_write_self c d b with h | ⟨b', h1, h2⟩
      · exact h
      · have := hag (d, b) (by simp) b' h1
        simpa [this] using h2
    have hag' : Agrees (c.write d b) t := by
      intro u hu b' hb'
      by_cases hk : u.1 = d
      · rw [hk, hstep] at hb'
        have := hcons (d, b) (by simp) u (by simp [hu]) hk.symm
        simp at hb' this; rw [← hb', this]
      · -- the entry was already there
        have : c.get u.1 = some b' := by
          unfold Cas.write at hb'
          split at hb'
          · exact hb'
          · simp only [Cas.get] at hb' ⊢
            rw [List.lookup_append] at hb'
            cases hl : c.lookup u.1 with
            | some x => simpa [hl] using hb'
            | none =>
              have hne : (u.1 == d) = false := by simpa using hk
              simp [hl, List.lookup, hne] at hb'
        exact hag u (by simp [hu]) b' this
    obtain ⟨h1, h2⟩ := ih (c.write d b) hag' (fun u hu w hw => hcons u (by simp [hu]) w (by simp [hw]))
    simp only [writeBlobs]
    refine ⟨?_, fun k v h => h2 k v (Cas.get_write_of_get d b h)⟩
    intro u hu
    simp only [List.mem_cons] at hu
    rcases hu with rfl | hu
    · exact h2 d b hstep
    · exact h1 u hu

end Grog
