/-
  `Store.Sound` is an inductive invariant of the backend-operation transition system.
-/
import GrogModel.Store
namespace Grog.Store
open Grog

theorem sound_init (H : Bytes → Digest) : Sound H init := by
  constructor <;> simp [init, vis]

theorem vis_store {s : State} {pe : Pending} {d : Digest} (h : vis s d = true) : vis (store s pe) d = true := by
  unfold store vis at *
  cases pe.ns <;> simp <;> grind

theorem sound_store {H : Bytes → Digest} {s : State} (h : Sound H s) (pe : Pending)
    (hr : ∀ r ∈ pe.blob.refs, vis s r = true) (hk : pe.ns = .cas → H pe.blob.content = pe.key) :
    Sound H (store s pe) := by
  obtain ⟨h1, h2, h3, h4, h5⟩ := h
  have mono : ∀ d, vis s d = true → vis (store s pe) d = true := fun d => vis_store
  cases hns : pe.ns with
  | cas =>
    have hk' := hk hns
    constructor
    · intro d b hb; simp only [store, hns] at hb; grind
    · intro d b hb r hrm
      apply mono
      simp only [store, hns] at hb
      by_cases e : d = pe.key
      · simp [e] at hb; subst hb; exact hr r hrm
      · simp [e] at hb; exact h2 d b hb r hrm
    · intro k refs hk2 r hrm; apply mono; simp only [store, hns] at hk2; exact h3 k refs hk2 r hrm
    · intro p d hd; apply mono; simp only [store, hns] at hd; exact h4 p d hd
    · intro p q hq
      simp only [store, hns] at hq
      exact ⟨fun r hrm => mono r ((h5 p q hq).1 r hrm), (h5 p q hq).2⟩
  | target =>
    constructor
    · intro d b hb; simp only [store, hns] at hb; exact h1 d b hb
    · intro d b hb r hrm; apply mono; simp only [store, hns] at hb; exact h2 d b hb r hrm
    · intro k refs hk2 r hrm
      apply mono
      simp only [store, hns] at hk2
      by_cases e : k = pe.key
      · simp [e] at hk2; subst hk2; exact hr r hrm
      · simp [e] at hk2; exact h3 k refs hk2 r hrm
    · intro p d hd; apply mono; simp only [store, hns] at hd; exact h4 p d hd
    · intro p q hq
      simp only [store, hns] at hq
      exact ⟨fun r hrm => mono r ((h5 p q hq).1 r hrm), (h5 p q hq).2⟩

/-- dropping beliefs and in-flight operations of processes keeps soundness -/
theorem sound_forget {H : Bytes → Digest} {s : State} (h : Sound H s) (conf' : Pid → List Digest) (pend' : Pid → List Pending)
    (hc : ∀ p d, d ∈ conf' p → d ∈ s.conf p) (hp : ∀ p pe, pe ∈ pend' p → pe ∈ s.pend p) :
    Sound H { s with conf := conf', pend := pend' } := by
  obtain ⟨h1, h2, h3, h4, h5⟩ := h
  constructor
  · exact h1
  · exact h2
  · exact h3
  · intro p d hd; exact h4 p d (hc p d hd)
  · intro p pe hpe; exact h5 p pe (hp p pe hpe)

theorem sound_storeAll {H : Bytes → Digest} {s : State} (h : Sound H s) (l : List Pending)
    (hl : ∀ pe ∈ l, (∀ r ∈ pe.blob.refs, vis s r = true) ∧ (pe.ns = .cas → H pe.blob.content = pe.key)) :
    Sound H (storeAll s l) := by
  induction l generalizing s with
  | nil => exact h
  | cons pe rest ih =>
    simp only [storeAll]
    have hpe := hl pe (by simp)
    apply ih (sound_store h pe hpe.1 hpe.2)
    intro q hq
    have := hl q (by simp [hq])
    exact ⟨fun r hr => vis_store (this.1 r hr), this.2⟩

theorem storeAll_conf (s : State) (l : List Pending) : (storeAll s l).conf = s.conf ∧ (storeAll s l).pend = s.pend := by
  induction l generalizing s with
  | nil => simp [storeAll]
  | cons pe rest ih =>
    simp only [storeAll]
    have := ih (store s pe)
    unfold store at this ⊢
    cases pe.ns <;> simp_all

theorem sound_step {H : Bytes → Digest} {s s' : State} (h : Sound H s) (e : Ev) (hs : step H s e = some s') : Sound H s' := by
  cases e with
  | existsRes p ns k r =>
    cases r with
    | yes =>
      simp only [step] at hs
      split at hs
      · rename_i hh
        simp at hs; subst hs
        split
        · rename_i hns
          subst hns
          obtain ⟨h1, h2, h3, h4, h5⟩ := h
          constructor
          · exact h1
          · exact h2
          · exact h3
          · intro q d hd
            simp only [upd] at hd
            by_cases e : q = p
            · simp [e] at hd
              rcases hd with rfl | hd
              · simpa [has, vis] using hh
              · exact h4 p d hd
            · simp [e] at hd; exact h4 q d hd
          · exact h5
        · exact h
      · simp at hs
    | no => simp only [step] at hs; split at hs <;> simp at hs; subst hs; exact h
    | err => simp [step] at hs; subst hs; exact h
  | getRes p ns k r =>
    cases r with
    | yes => simp only [step] at hs; split at hs <;> simp at hs; subst hs; exact h
    | no => simp only [step] at hs; split at hs <;> simp at hs; subst hs; exact h
    | err => simp [step] at hs; subst hs; exact h
  | setBegin p op ns k content refs =>
    simp only [step] at hs
    split at hs
    · rename_i hg
      simp at hs; subst hs
      simp only [Bool.and_eq_true, List.all_eq_true, decide_eq_true_eq, Bool.or_eq_true, bne_iff_ne, ne_eq, beq_iff_eq] at hg
      obtain ⟨⟨hrefs, hkey⟩, _⟩ := hg
      obtain ⟨h1, h2, h3, h4, h5⟩ := h
      constructor
      · exact h1
      · exact h2
      · exact h3
      · exact h4
      · intro q pe hpe
        simp only [upd] at hpe
        by_cases e : q = p
        · simp [e] at hpe
          rcases hpe with rfl | hpe
          · refine ⟨fun r hr => h4 p r (hrefs r hr), ?_⟩
            intro hns
            simp at hns
            rcases hkey with hk | hk
            · exact absurd hns hk
            · exact hk
          · exact h5 p pe hpe
        · simp [e] at hpe; exact h5 q pe hpe
    · simp at hs
  | setEnd p op o =>
    simp only [step] at hs
    cases hf : (s.pend p).find? (fun pe => pe.op == op) with
    | none => simp [hf] at hs
    | some pe =>
      simp only [hf] at hs
      simp at hs; subst hs
      have hmem : pe ∈ s.pend p := List.mem_of_find?_eq_some hf
      have hpe := h.pendBacked p pe hmem
      -- step 1: forget the finished operation
      have s1 : Sound H { s with pend := upd s.pend p ((s.pend p).filter (fun q => q.op != op)) } := by
        apply sound_forget h
        · intro q d hd; exact hd
        · intro q x hx
          simp only [upd] at hx
          by_cases e : q = p
          · simp [e] at hx; exact e ▸ hx.1
          · simpa [e] using hx
      -- step 2: store unless not stored
      have s2 : Sound H (if o = .errNotStored then { s with pend := upd s.pend p ((s.pend p).filter (fun q => q.op != op)) }
          else store { s with pend := upd s.pend p ((s.pend p).filter (fun q => q.op != op)) } pe) := by
        split
        · exact s1
        · exact sound_store s1 pe hpe.1 hpe.2
      split
      · rename_i hc
        obtain ⟨ho, hns⟩ := by simpa using hc
        subst ho
        simp only [reduceCtorEq, if_false] at s2 ⊢
        have s3 := sound_store s1 pe hpe.1 hpe.2
        obtain ⟨h1, h2, h3, h4, h5⟩ := s3
        constructor
        · exact h1
        · exact h2
        · exact h3
        · intro q d hd
          simp only [upd] at hd
          by_cases e : q = p
          · simp [e] at hd
            rcases hd with rfl | hd
            · simp [store, hns, vis]
            · exact h4 p d hd
          · simp [e] at hd; exact h4 q d hd
        · exact h5
      · exact s2
  | crash p landed =>
    simp only [step] at hs
    simp at hs; subst hs
    have hsa : Sound H (storeAll s ((s.pend p).filter (fun pe => pe.op ∈ landed))) := by
      apply sound_storeAll h
      intro pe hpe
      exact h.pendBacked p pe (List.mem_filter.mp hpe).1
    obtain ⟨hc, hp⟩ := storeAll_conf s ((s.pend p).filter (fun pe => pe.op ∈ landed))
    apply sound_forget hsa
    · intro q d hd
      simp only [upd] at hd
      by_cases e : q = p <;> simp [e] at hd
      exact hd
    · intro q x hx
      simp only [upd] at hx
      by_cases e : q = p <;> simp [e] at hx
      exact hx

theorem sound_run {H : Bytes → Digest} {s s' : State} (h : Sound H s) (es : List Ev) (hr : run H s es = some s') : Sound H s' := by
  induction es generalizing s with
  | nil => simp [run] at hr; subst hr; exact h
  | cons e es ih =>
    simp only [run] at hr
    cases hst : step H s e with
    | none => simp [hst] at hr
    | some s1 => simp only [hst] at hr; exact ih (sound_step h e hst) hr

/-! ### contents: whatever is visible was passed to some `Set` -/

/-- every visible entry and every in-flight write carries a (key, content) pair satisfying `Q` -/
structure Carries (Q : NS → Bytes → Bytes → Prop) (s : State) : Prop where
  cas : ∀ d b, s.cas d = some b → Q .cas d b.content
  tgt : ∀ k b, s.tgt k = some b → Q .target k b.content
  pend : ∀ p pe, pe ∈ s.pend p → Q pe.ns pe.key pe.blob.content

/-- the `setBegin` events of a trace all carry pairs satisfying `Q` -/
def BeginsSatisfy (Q : NS → Bytes → Bytes → Prop) (es : List Ev) : Prop :=
  ∀ p op ns k c refs, Ev.setBegin p op ns k c refs ∈ es → Q ns k c

theorem carries_init (Q : NS → Bytes → Bytes → Prop) : Carries Q init := by
  constructor <;> simp [init]

theorem carries_store {Q : NS → Bytes → Bytes → Prop} {s : State} (h : Carries Q s) (pe : Pending)
    (hq : Q pe.ns pe.key pe.blob.content) : Carries Q (store s pe) := by
  obtain ⟨h1, h2, h3⟩ := h
  cases hns : pe.ns with
  | cas =>
    rw [hns] at hq
    constructor
    · intro d b hb
      simp only [store, hns] at hb
      split at hb
      · rename_i e; simp at hb; subst hb; subst e; exact hq
      · exact h1 d b hb
    · intro k b hb; simp only [store, hns] at hb; exact h2 k b hb
    · intro p q hq'; simp only [store, hns] at hq'; exact h3 p q hq'
  | target =>
    rw [hns] at hq
    constructor
    · intro d b hb; simp only [store, hns] at hb; exact h1 d b hb
    · intro k b hb
      simp only [store, hns] at hb
      split at hb
      · rename_i e; simp at hb; subst hb; subst e; exact hq
      · exact h2 k b hb
    · intro p q hq'; simp only [store, hns] at hq'; exact h3 p q hq'

theorem carries_storeAll {Q : NS → Bytes → Bytes → Prop} {s : State} (h : Carries Q s) (l : List Pending)
    (hl : ∀ pe ∈ l, Q pe.ns pe.key pe.blob.content) : Carries Q (storeAll s l) := by
  induction l generalizing s with
  | nil => exact h
  | cons pe rest ih =>
    simp only [storeAll]
    exact ih (carries_store h pe (hl pe (by simp))) (fun q hq => hl q (by simp [hq]))

theorem carries_forget {Q : NS → Bytes → Bytes → Prop} {s : State} (h : Carries Q s) (conf' : Pid → List Digest)
    (pend' : Pid → List Pending) (hp : ∀ p pe, pe ∈ pend' p → pe ∈ s.pend p) :
    Carries Q { s with conf := conf', pend := pend' } :=
  ⟨h.cas, h.tgt, fun p pe hpe => h.pend p pe (hp p pe hpe)⟩

theorem carries_step {H : Bytes → Digest} {Q : NS → Bytes → Bytes → Prop} {s s' : State} (h : Carries Q s) (e : Ev)
    (hq : ∀ p op ns k c refs, e = Ev.setBegin p op ns k c refs → Q ns k c)
    (hs : step H s e = some s') : Carries Q s' := by
  cases e with
  | existsRes p ns k r =>
    cases r with
    | yes =>
      simp only [step] at hs
      split at hs
      · simp at hs; subst hs
        split
        · exact ⟨h.cas, h.tgt, h.pend⟩
        · exact h
      · simp at hs
    | no => simp only [step] at hs; split at hs <;> simp at hs; subst hs; exact h
    | err => simp [step] at hs; subst hs; exact h
  | getRes p ns k r =>
    cases r with
    | yes => simp only [step] at hs; split at hs <;> simp at hs; subst hs; exact h
    | no => simp only [step] at hs; split at hs <;> simp at hs; subst hs; exact h
    | err => simp [step] at hs; subst hs; exact h
  | setBegin p op ns k content refs =>
    simp only [step] at hs
    split at hs
    · simp at hs; subst hs
      refine ⟨h.cas, h.tgt, ?_⟩
      intro q pe hpe
      simp only [upd] at hpe
      by_cases e : q = p
      · simp [e] at hpe
        rcases hpe with rfl | hpe
        · exact hq p op ns k content refs rfl
        · exact h.pend p pe hpe
      · simp [e] at hpe; exact h.pend q pe hpe
    · simp at hs
  | setEnd p op o =>
    simp only [step] at hs
    cases hf : (s.pend p).find? (fun pe => pe.op == op) with
    | none => simp [hf] at hs
    | some pe =>
      simp only [hf] at hs
      simp at hs; subst hs
      have hmem : pe ∈ s.pend p := List.mem_of_find?_eq_some hf
      have hpe := h.pend p pe hmem
      have s1 : Carries Q { s with pend := upd s.pend p ((s.pend p).filter (fun q => q.op != op)) } := by
        apply carries_forget h
        intro q x hx
        simp only [upd] at hx
        by_cases e : q = p
        · simp [e] at hx; exact e ▸ hx.1
        · simpa [e] using hx
      have s2 : Carries Q (if o = .errNotStored then { s with pend := upd s.pend p ((s.pend p).filter (fun q => q.op != op)) }
          else store { s with pend := upd s.pend p ((s.pend p).filter (fun q => q.op != op)) } pe) := by
        split
        · exact s1
        · exact carries_store s1 pe hpe
      split
      · exact ⟨s2.cas, s2.tgt, s2.pend⟩
      · exact s2
  | crash p landed =>
    simp only [step] at hs
    simp at hs; subst hs
    have hsa : Carries Q (storeAll s ((s.pend p).filter (fun pe => pe.op ∈ landed))) := by
      apply carries_storeAll h
      intro pe hpe
      exact h.pend p pe (List.mem_filter.mp hpe).1
    apply carries_forget hsa
    intro q x hx
    simp only [upd] at hx
    by_cases e : q = p <;> simp [e] at hx
    exact hx

theorem carries_run {H : Bytes → Digest} {Q : NS → Bytes → Bytes → Prop} {s s' : State} (h : Carries Q s) (es : List Ev)
    (hq : BeginsSatisfy Q es) (hr : run H s es = some s') : Carries Q s' := by
  induction es generalizing s with
  | nil => simp [run] at hr; subst hr; exact h
  | cons e es ih =>
    simp only [run] at hr
    cases hst : step H s e with
    | none => simp [hst] at hr
    | some s1 =>
      simp only [hst] at hr
      refine ih (carries_step h e ?_ hst) (fun p op ns k c refs hm => hq p op ns k c refs (List.mem_cons_of_mem _ hm)) hr
      intro p op ns k c refs he
      exact hq p op ns k c refs (by rw [he]; simp)

end Grog.Store
