/-
  Frame lemmas for the pure file system of GrogModel/Tree.lean: an operation along one path leaves every path that
  diverges from it (differs at some component) untouched. Used to show that the concrete restore refines `Exec.restore`.
-/
import GrogModel.Lemmas.TreeBuild
namespace Grog

theorem removeAll_cons_cons (es : List (Name × Entry)) (n y : Name) (ys : Path) :
    removeAll (.dir es) (n :: y :: ys) =
      match lookupE es n with
      | none => .ok (.dir es)
      | some c => match removeAll c (y :: ys) with
        | .ok c' => .ok (.dir (setE es n c'))
        | .error e => .error e := by
  simp only [removeAll]
  cases lookupE es n with
  | none => rfl
  | some c => cases removeAll c (y :: ys) <;> rfl

theorem setAt_cons_cons (es : List (Name × Entry)) (n y : Name) (ys : Path) (e : Entry) :
    setAt (.dir es) (n :: y :: ys) e =
      match lookupE es n with
      | none => .error .notExist
      | some c => match setAt c (y :: ys) e with
        | .ok c' => .ok (.dir (setE es n c'))
        | .error err => .error err := by
  simp only [setAt]
  cases lookupE es n with
  | none => rfl
  | some c => cases setAt c (y :: ys) e <;> rfl

theorem lookupE_setE_ne (es : List (Name × Entry)) {a b : Name} (e : Entry) (h : a ≠ b) :
    lookupE (setE es a e) b = lookupE es b := by simp [lookupE_setE, h]

theorem append_cons_ne_nil {α : Type} (c : List α) (a : α) (r : List α) : ∃ y ys, c ++ a :: r = y :: ys := by
  cases c with
  | nil => exact ⟨a, r, rfl⟩
  | cons x xs => exact ⟨x, xs ++ a :: r, rfl⟩

theorem removeAll_diverge (c : Path) (a b : Name) (r r' : Path) (hab : a ≠ b) :
    ∀ (fs fs' : Entry), removeAll fs (c ++ a :: r) = .ok fs' → fs'.get (c ++ b :: r') = fs.get (c ++ b :: r') := by
  induction c with
  | nil =>
    intro fs fs' h
    cases fs with
    | dir es =>
      cases r with
      | nil =>
        simp [removeAll] at h; subst h
        simp [Entry.get_dir_cons, lookupE_eraseE_ne es a b hab]
      | cons y ys =>
        simp only [List.nil_append, removeAll_cons_cons] at h
        cases hl : lookupE es a with
        | none => simp [hl] at h; subst h; rfl
        | some ch =>
          simp only [hl] at h
          cases hr : removeAll ch (y :: ys) with
          | error e => simp [hr] at h
          | ok ch' =>
            simp [hr] at h; subst h
            simp [Entry.get_dir_cons, lookupE_setE_ne es ch' hab]
    | file b0 x => simp [removeAll] at h
    | link t => simp [removeAll] at h
  | cons m c ih =>
    intro fs fs' h
    obtain ⟨y, ys, hy⟩ := append_cons_ne_nil c a r
    cases fs with
    | dir es =>
      simp only [List.cons_append, hy, removeAll_cons_cons] at h
      cases hl : lookupE es m with
      | none => simp [hl] at h; subst h; rfl
      | some ch =>
        simp only [hl] at h
        cases hr : removeAll ch (y :: ys) with
        | error e => simp [hr] at h
        | ok ch' =>
          simp [hr] at h; subst h
          rw [← hy] at hr
          simp only [List.cons_append, Entry.get_dir_cons, lookupE_setE_self, hl, Option.bind_some]
          exact ih ch ch' hr
    | file b0 x => simp [removeAll] at h
    | link t => simp [removeAll] at h

theorem setAt_diverge (c : Path) (a b : Name) (r r' : Path) (hab : a ≠ b) (e : Entry) :
    ∀ (fs fs' : Entry), setAt fs (c ++ a :: r) e = .ok fs' → fs'.get (c ++ b :: r') = fs.get (c ++ b :: r') := by
  induction c with
  | nil =>
    intro fs fs' h
    cases fs with
    | dir es =>
      cases r with
      | nil =>
        simp [setAt] at h; subst h
        simp [Entry.get_dir_cons, lookupE_setE_ne es e hab]
      | cons y ys =>
        simp only [List.nil_append, setAt_cons_cons] at h
        cases hl : lookupE es a with
        | none => simp [hl] at h
        | some ch =>
          simp only [hl] at h
          cases hr : setAt ch (y :: ys) e with
          | error e' => simp [hr] at h
          | ok ch' =>
            simp [hr] at h; subst h
            simp [Entry.get_dir_cons, lookupE_setE_ne es ch' hab]
    | file b0 x => simp [setAt] at h
    | link t => simp [setAt] at h
  | cons m c ih =>
    intro fs fs' h
    obtain ⟨y, ys, hy⟩ := append_cons_ne_nil c a r
    cases fs with
    | dir es =>
      simp only [List.cons_append, hy, setAt_cons_cons] at h
      cases hl : lookupE es m with
      | none => simp [hl] at h
      | some ch =>
        simp only [hl] at h
        cases hr : setAt ch (y :: ys) e with
        | error e' => simp [hr] at h
        | ok ch' =>
          simp [hr] at h; subst h
          rw [← hy] at hr
          simp only [List.cons_append, Entry.get_dir_cons, lookupE_setE_self, hl, Option.bind_some]
          exact ih ch ch' hr
    | file b0 x => simp [setAt] at h
    | link t => simp [setAt] at h

theorem mkdirAll_diverge (c : Path) (a b : Name) (r r' : Path) (hab : a ≠ b) :
    ∀ (fs fs' : Entry), mkdirAll fs (c ++ a :: r) = .ok fs' → fs'.get (c ++ b :: r') = fs.get (c ++ b :: r') := by
  induction c with
  | nil =>
    intro fs fs' h
    cases fs with
    | dir es =>
      simp only [List.nil_append, mkdirAll] at h
      cases hr : mkdirAll ((lookupE es a).getD (.dir [])) r with
      | error e => simp [hr] at h
      | ok ch' =>
        simp [hr] at h; subst h
        simp [Entry.get_dir_cons, lookupE_setE_ne es ch' hab]
    | file b0 x => simp [mkdirAll] at h
    | link t => simp [mkdirAll] at h
  | cons m c ih =>
    intro fs fs' h
    cases fs with
    | dir es =>
      simp only [List.cons_append, mkdirAll] at h
      cases hr : mkdirAll ((lookupE es m).getD (.dir [])) (c ++ a :: r) with
      | error e => simp [hr] at h
      | ok ch' =>
        simp [hr] at h; subst h
        have := ih _ ch' hr
        simp only [List.cons_append, Entry.get_dir_cons, lookupE_setE_self, Option.bind_some, this]
        cases hl : lookupE es m with
        | none =>
          obtain ⟨y, ys, hy⟩ := append_cons_ne_nil c b r'
          simp [hy, Entry.get_empty_dir_cons]
        | some ch => simp
    | file b0 x => simp [mkdirAll] at h
    | link t => simp [mkdirAll] at h

/-- two paths that differ at some component -/
def Diverge (p q : Path) : Prop := ∃ c a b r r', a ≠ b ∧ p = c ++ a :: r ∧ q = c ++ b :: r'

/-- **Frame of the directory restore**: whatever `restoreDir` does at the destination, a path that diverges from the
    destination (not the destination, not below it, not one of its ancestors) shows the same object afterwards. -/
theorem restoreDir_frame (H : Bytes → Digest) (serD : Directory → Bytes) (serT : TreeMsg → Bytes) (deT : Bytes → Option TreeMsg)
    (fuel : Nat) (td : Digest) (cas : Cas) (fs fs' : Entry) (p q : Path) (hd : Diverge p q)
    (h : restoreDir H serD serT deT fuel td cas fs p = .ok fs') : fs'.get q = fs.get q := by
  obtain ⟨c, a, b, r, r', hab, rfl, rfl⟩ := hd
  unfold restoreDir at h
  split at h
  · simp at h; subst h; rfl
  · split at h
    · simp at h
    · split at h
      · simp at h
      · split at h
        · simp at h
        · rename_i fs1 h1
          split at h
          · simp at h
          · rename_i fs2 h2
            split at h
            · simp at h
            · rename_i built _
              rw [setAt_diverge c a b r r' hab built fs2 fs' h, mkdirAll_diverge c a b r r' hab fs1 fs2 h2,
                removeAll_diverge c a b r r' hab fs fs1 h1]

/-- `MkdirAll q` leaves everything below `q` as it was -/
theorem mkdirAll_below (q : Path) (b : Name) (r' : Path) :
    ∀ (fs fs1 : Entry), mkdirAll fs q = .ok fs1 → fs1.get (q ++ b :: r') = fs.get (q ++ b :: r') := by
  induction q with
  | nil =>
    intro fs fs1 h
    cases fs with
    | dir es => simp [mkdirAll] at h; subst h; rfl
    | file b0 x => simp [mkdirAll] at h
    | link t => simp [mkdirAll] at h
  | cons m q ih =>
    intro fs fs1 h
    cases fs with
    | dir es =>
      simp only [mkdirAll] at h
      cases hr : mkdirAll ((lookupE es m).getD (.dir [])) q with
      | error e => simp [hr] at h
      | ok ch' =>
        simp [hr] at h; subst h
        have := ih _ ch' hr
        simp only [List.cons_append, Entry.get_dir_cons, lookupE_setE_self, Option.bind_some, this]
        cases hl : lookupE es m with
        | none =>
          obtain ⟨y, ys, hy⟩ := append_cons_ne_nil q b r'
          simp [hy, Entry.get_empty_dir_cons]
        | some ch => simp
    | file b0 x => simp [mkdirAll] at h
    | link t => simp [mkdirAll] at h

/-- the parent of `c ++ a :: r`: either `c` itself (then observed paths `c ++ b :: r'` are below it) or again a path
    through `a` -/
theorem mkdirAll_parent_diverge (c : Path) (a b : Name) (r r' : Path) (hab : a ≠ b) (fs fs1 : Entry)
    (h : mkdirAll fs (parentOf (c ++ a :: r)) = .ok fs1) : fs1.get (c ++ b :: r') = fs.get (c ++ b :: r') := by
  cases r with
  | nil =>
    have : parentOf (c ++ [a]) = c := by simp [parentOf]
    rw [this] at h
    exact mkdirAll_below c b r' fs fs1 h
  | cons y ys =>
    have : parentOf (c ++ a :: y :: ys) = c ++ a :: (y :: ys).dropLast := by
      simp only [parentOf]
      rw [List.dropLast_append_of_ne_nil (by simp)]
      simp [List.dropLast]
    rw [this] at h
    exact mkdirAll_diverge c a b _ r' hab fs fs1 h

theorem createFile_diverge (c : Path) (a b : Name) (r r' : Path) (hab : a ≠ b) (bytes : Bytes) (x : Option Bool)
    (fs fs' : Entry) (h : createFile fs (c ++ a :: r) bytes x = .ok fs') : fs'.get (c ++ b :: r') = fs.get (c ++ b :: r') := by
  unfold createFile at h
  split at h
  · exact setAt_diverge c a b r r' hab _ fs fs' h
  · simp at h
  · simp at h
  · exact setAt_diverge c a b r r' hab _ fs fs' h

/-- **Frame of the file restore** -/
theorem restoreFile_frame (H : Bytes → Digest) (v : Variant) (digest : Digest) (exec : Bool) (cas : Cas) (fs fs' : Entry)
    (p q : Path) (hd : Diverge p q) (h : restoreFile H v digest exec cas fs p = .ok fs') : fs'.get q = fs.get q := by
  obtain ⟨c, a, b, r, r', hab, rfl, rfl⟩ := hd
  have load : ∀ fs'', restoreFileLoad v digest exec cas fs (c ++ a :: r) = .ok fs'' →
      fs''.get (c ++ b :: r') = fs.get (c ++ b :: r') := by
    intro fs'' hl
    unfold restoreFileLoad at hl
    split at hl
    · simp at hl
    · rename_i content _
      cases v with
      | old => exact createFile_diverge c a b r r' hab content none fs fs'' hl
      | fixed =>
        simp only at hl
        -- optional removal of a symlink / directory at the destination, then MkdirAll(parent), then create
        have tail : ∀ fs0 : Entry, fs0.get (c ++ b :: r') = fs.get (c ++ b :: r') →
            (match mkdirAll fs0 (parentOf (c ++ a :: r)) with
              | .error e => Except.error e
              | .ok fs1 => createFile fs1 (c ++ a :: r) content (some exec)) = .ok fs'' →
            fs''.get (c ++ b :: r') = fs.get (c ++ b :: r') := by
          intro fs0 h0 ht
          split at ht
          · simp at ht
          · rename_i fs1 h1
            rw [createFile_diverge c a b r r' hab content (some exec) fs1 fs'' ht,
              mkdirAll_parent_diverge c a b r r' hab fs0 fs1 h1, h0]
        split at hl
        · simp at hl
        · rename_i fs0 hcl
          refine tail fs0 ?_ hl
          split at hcl
          · exact removeAll_diverge c a b r r' hab fs fs0 hcl
          · exact removeAll_diverge c a b r r' hab fs fs0 hcl
          · simp at hcl; rw [← hcl]
  unfold restoreFile at h
  split at h
  · split at h
    · split at h
      · exact setAt_diverge c a b r r' hab _ fs fs' h
      · simp at h; subst h; rfl
    · exact load fs' h
  · exact load fs' h

end Grog
