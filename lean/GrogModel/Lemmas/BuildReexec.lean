/-
  History-level re-execution bound (C02.reexec_subset, early cut-off): a build after an edit executes only targets of a
  dependant-closed set `D` that contains every edited target; everything outside `D` is a cache hit with the output hash
  it had — whatever sits at the output paths.
-/
import GrogModel.Lemmas.BuildNoop
set_option linter.unusedSectionVars false
set_option linter.unusedSimpArgs false
set_option linter.unusedVariables false
namespace Grog.Build
open Grog Grog.Exec

variable {κ : Type} [DecidableEq κ]

theorem buildTarget_log_cases (P : Params κ) (cfg : Cfg) (defs : Defs) (fuel : Nat) (t : Target) (s : BState κ)
    (hm : cfg.minimal = false) :
    (buildTarget P cfg defs fuel t s).log = s.log ∨ (buildTarget P cfg defs fuel t s).log = t.label :: s.log := by
  have hcase := buildTarget_all P cfg defs fuel t s hm
  cases hcase with
  | depFailed h e => rw [e]; exact Or.inl rfl
  | noHash h h2 e => rw [e]; exact Or.inl rfl
  | hit ohs h h2 e =>
    obtain ⟨r, fs', _, _, _, _, _, _, hs1⟩ := tryHit_all_some hm e
    rw [hs1]; exact Or.inl rfl
  | ran ohs h h2 h3 e =>
    have := execTarget_log P cfg defs t (P.K (keyState t s.fs ohs)) (s.cache.taint t.label) s
    rw [e] at this; exact Or.inr this
  | failed ohs s2 h h2 h3 e e2 =>
    have := execTarget_log P cfg defs t (P.K (keyState t s.fs ohs)) (s.cache.taint t.label) s
    rw [e] at this; rw [e2]; exact Or.inr this

/-- the second build after an edit: `f` is the final state of the first build (over `defs0`), the second build runs over `defs`;
    `D` contains every target whose definition, inputs or checks were touched and is closed under dependants -/
structure After (P : Params κ) (defs0 defs : Defs) (order : List Lbl) (D : Lbl → Prop) (f s2 : BState κ) (done : List Lbl) : Prop where
  log : ∀ x ∈ s2.log, D x
  /-- inputs and check files of untouched targets are as the first build left them -/
  fsKeep : ∀ l ∈ order, ¬ D l → ∀ t, defs l = some t → (∀ p ∈ t.inputs, s2.fs p = f.fs p) ∧ (∀ c ∈ t.checks, s2.fs c.1 = f.fs c.1)
  cas : ∀ v, f.cache.cas v = true → s2.cache.cas v = true
  taint : ∀ l ∈ order, ¬ D l → s2.cache.taint l = f.cache.taint l
  /-- the result of an untouched target is still in the cache under its key -/
  res : ∀ l ∈ order, ¬ D l → ∀ t ohs, defs0 l = some t → depOhs f.st t.hdeps = some ohs →
    s2.cache.res (P.K (keyState t f.fs ohs)) = f.cache.res (P.K (keyState t f.fs ohs))
  st : ∀ l ∈ done, ¬ D l → okAt s2 l ∧ ohOf s2.st l = ohOf f.st l

theorem after_step {P : Params κ} (hG : Good P) {cfg : Cfg} {defs0 defs : Defs} {order : List Lbl} (hwf : WF defs order)
    (hpl : Plain P cfg defs order) (fuel : Nat) (D : Lbl → Prop) (f : BState κ)
    (hf : ∀ l ∈ order, ¬ D l → Settled P defs0 f l)
    (hsame : ∀ l ∈ order, ¬ D l → defs l = defs0 l)
    (hlab0 : ∀ l t, defs0 l = some t → t.label = l)
    (hclosed : ∀ l ∈ order, ¬ D l → ∀ t, defs l = some t → ∀ d ∈ t.deps, ¬ D d)
    (pre : List Lbl) (l0 : Lbl) (suf : List Lbl) (ho : order = pre ++ l0 :: suf) (t0 : Target) (ht0 : defs l0 = some t0)
    (s2 : BState κ) (hJ : After P defs0 defs order D f s2 pre) :
    After P defs0 defs order D f (buildTarget P cfg defs fuel t0 s2) (pre ++ [l0]) := by
  have hm := hpl.all
  have hl0o : l0 ∈ order := by rw [ho]; simp
  have hpo : ∀ d ∈ pre, d ∈ order := fun d hd => by rw [ho]; simp [hd]
  have hlabt0 : t0.label = l0 := hwf.label l0 t0 ht0
  obtain ⟨hhd0, hwr0, hnod0⟩ := hwf.hdeps l0 hl0o t0 ht0
  have hdeps : ∀ d ∈ t0.deps, d ∈ pre := hwf.topo pre l0 suf ho t0 ht0
  have hnd := hwf.nodup; rw [ho] at hnd
  have hne : ∀ l ∈ pre, l ≠ t0.label := fun l hl e => by
    rw [hlabt0] at e
    exact (List.nodup_append.1 hnd).2.2 l hl l0 (by simp) e
  by_cases hD : D l0
  · -- a touched target (or one downstream of a touched one): whatever it does, it leaves the others alone
    obtain ⟨hfst, hffs, hfcas, hftaint, hfres⟩ := step_frame hG hm defs fuel t0 hwr0 s2
    refine ⟨?_, ?_, fun v hv => hfcas v (hJ.cas v hv), ?_, ?_, ?_⟩
    · intro x hx
      rcases buildTarget_log_cases P cfg defs fuel t0 s2 hm with h | h
      · rw [h] at hx; exact hJ.log x hx
      · rw [h] at hx
        rcases List.mem_cons.1 hx with e | e
        · rw [e, hlabt0]; exact hD
        · exact hJ.log x e
    · intro l hl hnD t ht
      obtain ⟨h1, h2⟩ := hJ.fsKeep l hl hnD t ht
      refine ⟨fun p hp => ?_, fun c hc => ?_⟩
      · rw [hffs p (hwf.inputsOff l hl t ht l0 hl0o t0 ht0 p hp)]; exact h1 p hp
      · rw [hffs c.1 (hwf.checksOff l hl t ht l0 hl0o t0 ht0 c hc)]; exact h2 c hc
    · intro l hl hnD
      have : l ≠ t0.label := by rw [hlabt0]; intro e; exact hnD (e ▸ hD)
      rw [hftaint l this]; exact hJ.taint l hl hnD
    · intro l hl hnD t ohs ht hoh
      rw [hfres _ (fun ohs' e => ?_)]
      · exact hJ.res l hl hnD t ohs ht hoh
      · have := hG.inj _ _ e
        have hl' : (keyState t f.fs ohs).label = (keyState t0 s2.fs ohs').label := by rw [this]
        simp only [keyState] at hl'
        rw [hlab0 l t ht, hlabt0] at hl'
        exact hnD (hl' ▸ hD)
    · intro l hl hnD
      rcases List.mem_append.1 hl with hl1 | hl2
      · simp only [okAt, ohOf, hfst l (hne l hl1)]
        exact hJ.st l hl1 hnD
      · simp only [List.mem_singleton] at hl2; exact absurd (hl2 ▸ hD) hnD
  · -- an untouched target none of whose dependencies is touched: a hit with the hash it had
    obtain ⟨t, tsf, ohs, r, ht, htsf, hkf, hohf, hresf, hroh, hv, hb, hta, hch⟩ := hf l0 hl0o hD
    have htt : t = t0 := by
      have := hsame l0 hl0o hD; rw [ht0, ht] at this; simp only [Option.some.injEq] at this; exact this.symm
    subst htt
    have hdD : ∀ d ∈ t.deps, ¬ D d := hclosed l0 hl0o hD t ht0
    have hd : depsOk s2.st t.deps = true := depsOk_intro _ _ (fun d hdm => (hJ.st d (hdeps d hdm) (hdD d hdm)).1)
    have hohs : depOhs s2.st t.hdeps = some ohs := by
      rw [← hohf]; apply depOhs_congr
      intro d hdm; rw [hhd0] at hdm; exact (hJ.st d (hdeps d hdm) (hdD d hdm)).2
    obtain ⟨hin, hck⟩ := hJ.fsKeep l0 hl0o hD t ht0
    have hks : keyState t s2.fs ohs = keyState t f.fs ohs := keyState_congr t _ _ ohs hin
    have hch2 : checksPass s2.fs t.checks = true := by
      rw [← hch]; exact checksPass_congr hck
    have hhit := tryHit_all_intro P cfg t (P.K (keyState t s2.fs ohs)) s2 r hpl.all
      (by rw [hks, hJ.res l0 hl0o hD t ohs ht hohf]; exact hresf)
      (by rw [hlabt0, hJ.taint l0 hl0o hD]; exact hta) (hpl.cached l0 hl0o t ht0) hpl.enabled hch2 hv
      (fun ov hov => hJ.cas _ (hb ov hov))
    rw [buildTarget_hit_intro P cfg defs fuel t s2 _ ohs hd hohs hhit hm]
    have hoff : ∀ p, p ∉ outPaths t → writeOuts s2.fs r.outs p = s2.fs p := fun p hp =>
      writeOuts_not_mem _ _ _ (by rw [outPaths, ← hv, List.map_map] at hp; exact hp)
    refine ⟨hJ.log, ?_, hJ.cas, hJ.taint, hJ.res, ?_⟩
    · intro l hl hnD t' ht'
      obtain ⟨h1, h2⟩ := hJ.fsKeep l hl hnD t' ht'
      refine ⟨fun p hp => ?_, fun c hc => ?_⟩
      · show writeOuts s2.fs r.outs p = f.fs p
        rw [hoff p (hwf.inputsOff l hl t' ht' l0 hl0o t ht0 p hp)]; exact h1 p hp
      · show writeOuts s2.fs r.outs c.1 = f.fs c.1
        rw [hoff c.1 (hwf.checksOff l hl t' ht' l0 hl0o t ht0 c hc)]; exact h2 c hc
    · intro l hl hnD
      rcases List.mem_append.1 hl with hl1 | hl2
      · simp only [okAt, ohOf, upd_other _ _ _ _ (hne l hl1)]
        exact hJ.st l hl1 hnD
      · simp only [List.mem_singleton] at hl2; subst hl2
        simp only [okAt, ohOf, ← hlabt0, upd_same]
        exact ⟨⟨_, rfl, rfl⟩, by rw [show f.st t.label = some tsf from by rw [hlabt0]; exact htsf]; exact hroh.symm⟩

theorem after_run_aux {P : Params κ} (hG : Good P) {cfg : Cfg} {defs0 defs : Defs} {order : List Lbl} (hwf : WF defs order)
    (hpl : Plain P cfg defs order) (fuel : Nat) (D : Lbl → Prop) (f : BState κ)
    (hf : ∀ l ∈ order, ¬ D l → Settled P defs0 f l)
    (hsame : ∀ l ∈ order, ¬ D l → defs l = defs0 l)
    (hlab0 : ∀ l t, defs0 l = some t → t.label = l)
    (hclosed : ∀ l ∈ order, ¬ D l → ∀ t, defs l = some t → ∀ d ∈ t.deps, ¬ D d) :
    ∀ (rest pre : List Lbl) (s2 : BState κ), order = pre ++ rest → After P defs0 defs order D f s2 pre →
      After P defs0 defs order D f (run P cfg defs fuel rest s2) (pre ++ rest) := by
  intro rest
  induction rest with
  | nil => intro pre s2 _ hJ; simpa [run] using hJ
  | cons l0 rest ih =>
    intro pre s2 ho hJ
    obtain ⟨t0, ht0⟩ := hwf.defined l0 (by rw [ho]; simp)
    have hstep := after_step hG hwf hpl fuel D f hf hsame hlab0 hclosed pre l0 rest ho t0 ht0 s2 hJ
    have := ih (pre ++ [l0]) (buildTarget P cfg defs fuel t0 s2) (by rw [ho]; simp) hstep
    simp only [run, List.foldl_cons, stepTarget, ht0]
    simpa [run] using this

end Grog.Build
