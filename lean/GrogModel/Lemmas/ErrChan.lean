/-
  Lemmas about the error-channel protocol of the directory restore.
-/
import GrogModel.ErrChan
namespace Grog.ErrChan

/-- configurations in which no sender can block: the repaired code (non-blocking send, capacity ≥ 1)
    or a blocking channel with room for every possible error -/
def Good (c : Cfg) : Prop := (c.drop = true ∧ 1 ≤ c.cap) ∨ (c.drop = false ∧ c.nFail ≤ c.cap)

structure Inv (c : Cfg) (s : State) : Prop where
  j1 : s.buf + s.failTodo ≤ c.nFail
  j2 : (s.cons = .waiting ∨ s.cons = .draining) → s.buf = 0 → s.failTodo = c.nFail
  j3 : ∀ b, s.cons = .returned b → (b = true ↔ 0 < c.nFail)
  j4 : s.cons ≠ .waiting → s.okTodo = 0 ∧ s.failTodo = 0

theorem inv_init (c : Cfg) : Inv c (init c) := by
  constructor <;> simp [init]

theorem inv_step {c : Cfg} {s s' : State} {e : Ev} (g : Good c) (h : Inv c s)
    (hs : step c s e = some s') : Inv c s' := by
  obtain ⟨j1, j2, j3, j4⟩ := h
  unfold Good at g
  cases e <;> simp only [step] at hs
  case okDone =>
    split at hs <;> simp at hs
    subst hs
    constructor <;> simp_all
  case failSend =>
    split at hs
    · split at hs
      · simp at hs; subst hs
        constructor <;> simp_all <;> omega
      · split at hs
        · simp at hs; subst hs
          constructor <;> simp_all <;> omega
        · simp at hs
    · simp at hs
  case waitDone =>
    split at hs <;> simp at hs
    subst hs
    constructor <;> simp_all
  case recv =>
    split at hs <;> simp at hs
    rename_i hg
    subst hs
    constructor <;> simp_all <;> omega
  case finish =>
    split at hs <;> simp at hs
    subst hs
    constructor <;> simp_all
    omega

theorem reach_inv {c : Cfg} {s : State} (g : Good c) (h : Reach c s) : Inv c s := by
  induction h with
  | init => exact inv_init c
  | step _ hs ih => exact inv_step g ih hs

theorem stuck_returned {c : Cfg} {s : State} (g : Good c) (h : Inv c s) (hst : stuck c s = true) :
    ∃ b, s.cons = .returned b := by
  obtain ⟨j1, j2, j3, j4⟩ := h
  unfold Good at g
  simp only [stuck, allEvents, List.all_cons, List.all_nil, Bool.and_true, Bool.and_eq_true,
    Option.isNone_iff_eq_none] at hst
  obtain ⟨h1, h2, h3, h4, h5⟩ := hst
  simp only [step] at h1 h2 h3 h4 h5
  cases hc : s.cons with
  | returned b => exact ⟨b, rfl⟩
  | waiting =>
    exfalso
    have ho : s.okTodo = 0 := by
      split at h1 <;> simp_all
    have hf : s.failTodo = 0 := by
      by_cases hz : 0 < s.failTodo
      · simp only [hz, if_true] at h2
        split at h2
        · simp at h2
        · split at h2
          · simp at h2
          · rcases g with ⟨gd, _⟩ | ⟨_, gc⟩
            · simp_all
            · omega
      · omega
    simp_all
  | draining =>
    exfalso
    by_cases hb : 0 < s.buf
    · simp_all
    · have : s.buf = 0 := by omega
      simp_all

theorem measure_step {c : Cfg} {s s' : State} {e : Ev} (hs : step c s e = some s') :
    measure s' < measure s := by
  cases e <;> simp only [step] at hs
  case okDone =>
    split at hs <;> simp at hs
    subst hs; simp only [measure]; omega
  case failSend =>
    split at hs
    · split at hs
      · simp at hs; subst hs; simp only [measure]; omega
      · split at hs
        · simp at hs; subst hs; simp only [measure]; omega
        · simp at hs
    · simp at hs
  case waitDone =>
    split at hs <;> simp at hs
    rename_i hg
    subst hs; simp only [measure, hg.1]; omega
  case recv =>
    split at hs <;> simp at hs
    rename_i hg
    subst hs; simp only [measure, hg.1]; omega
  case finish =>
    split at hs <;> simp at hs
    rename_i hg
    subst hs; simp only [measure, hg.1]; omega

end Grog.ErrChan

namespace Grog.ErrChan

/-- the blocking protocol with too small a channel: all succeeding producers finish, `cap` failing
    producers fill the buffer — a reachable state -/
theorem reach_full {c : Cfg} (hd : c.drop = false) (hlt : c.cap < c.nFail) :
    Reach c { okTodo := 0, failTodo := c.nFail - c.cap, buf := c.cap, cons := .waiting } := by
  have hA : ∀ k, k ≤ c.nOk → Reach c { okTodo := c.nOk - k, failTodo := c.nFail, buf := 0, cons := .waiting } := by
    intro k
    induction k with
    | zero => intro _; exact Reach.init
    | succ k ih =>
      intro hk
      have := ih (by omega)
      refine Reach.step this (e := .okDone) ?_
      simp only [step]
      have : 0 < c.nOk - k := by omega
      simp [this]
      omega
  have hB : ∀ j, j ≤ c.cap → Reach c { okTodo := 0, failTodo := c.nFail - j, buf := j, cons := .waiting } := by
    intro j
    induction j with
    | zero => intro _; have := hA c.nOk (Nat.le_refl _); simpa using this
    | succ j ih =>
      intro hj
      have := ih (by omega)
      refine Reach.step this (e := .failSend) ?_
      simp only [step]
      have h1 : 0 < c.nFail - j := by omega
      have h2 : j < c.cap := by omega
      simp [h1, h2]
      omega
  exact hB c.cap (Nat.le_refl _)

theorem stuck_full {c : Cfg} (hd : c.drop = false) (hlt : c.cap < c.nFail) :
    stuck c { okTodo := 0, failTodo := c.nFail - c.cap, buf := c.cap, cons := .waiting } = true := by
  have h1 : 0 < c.nFail - c.cap := by omega
  have h2 : c.nFail - c.cap ≠ 0 := by omega
  simp [stuck, allEvents, step, h1, h2, hd]

end Grog.ErrChan
