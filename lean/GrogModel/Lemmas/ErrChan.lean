/-
  Lemmas about the error-channel protocol of the directory restore.
-/
import GrogModel.ErrChan
namespace Grog.ErrChan

/-- configurations in which no sender can block: the repaired code (non-blocking send, capacity ≥ 1)
    or a blocking channel with room for every possible error -/
def Good (c : Cfg) : Prop := (c.drop = true ∧ 1 ≤ c.cap) ∨ (c.drop = false ∧ c.nFail ≤ c.cap)

structure Inv (c : Cfg) (s : State) : Prop where
  j1 : s.buf + s.failTodo ≤ c.nFail
  j2 : (s.cons = .waiting ∨ s.cons = .draining) → s.buf = 0 → s.failTodo = c.nFail
  j3 : ∀ b, s.cons = .returned b → (b = true ↔ 0 < c.nFail)
  j4 : s.cons ≠ .waiting → s.okTodo = 0 ∧ s.failTodo = 0

theorem inv_init (c : Cfg) : Inv c (init c) := by
  constructor <;> simp [init]

theorem inv_step {c : Cfg} {s s' : State} {e : Ev} (g : Good c) (h : Inv c s)
    (hs : step c s e = some s') : Inv c s' := by
  obtain ⟨j1, j2, j3, j4⟩ := h
  unfold Good at g
  cases e <;> simp only [step] at hs
  case okDone =>
    split at hs <;> simp at hs
    subst hs
    constructor <;> simp_all
  case failSend =>
    split at hs
    · split at hs
      · simp at hs; subst hs
        constructor <;> simp_all <;> omega
      · split at hs
        · simp at hs; subst hs
          constructor <;> simp_all <;> omega
        · simp at hs
    · simp at hs
  case waitDone =>
    split at hs <;> simp at hs
    subst hs
    constructor <;> simp_all
  case recv =>
    split at hs <;> simp at hs
    rename_i hg
    subst hs
    constructor <;> simp_all <;> omega
  case finish =>
    split at hs <;> simp at hs
    subst hs
    constructor <;> simp_all
    omega

theorem reach_inv {c : Cfg} {s : State} (g : Good c) (h : Reach c s) : Inv c s := by
  induction h with
  | init => exact inv_init c
  | step _ hs ih => exact inv_step g ih hs

theorem stuck_returned {c : Cfg} {s : State} (g : Good c) (h : Inv c s) (hst : stuck c s = true) :
    ∃ b, s.cons = .returned b := by
  obtain ⟨j1, j2, j3, j4⟩ := h
  unfold Good at g
  simp only [stuck, allEvents, List.all_cons, List.all_nil, Bool.and_true, Bool.and_eq_true,
    Option.isNone_iff_eq_none] at hst
  obtain ⟨h1, h2, h3, h4, h5⟩ := hst
  simp only [step] at h1 h2 h3 h4 h5
  cases hc : s.cons with
  | returned b => exact ⟨b, rfl⟩
  | waiting =>
    exfalso
    have ho : s.okTodo = 0 := by
      split at h1 <;> simp_all
    have hf : s.failTodo = 0 := by
      by_cases hz : 0 < s.failTodo
      · simp only [hz, if_true] at h2
        split at h2
        · simp at h2
        · split at h2
          · simp at h2
          · rcases g with ⟨gd, _⟩ | ⟨_, gc⟩
            · simp_all
            · omega
      · omega
    simp_all
  | draining =>
    exfalso
    by_cases hb : 0 < s.buf
    · simp_all
    · have : s.buf = 0 := by omega
      simp_all

theorem measure_step {c : Cfg} {s s' : State} {e : Ev} (hs : step c s e = some s') :
    measure s' < measure s := by
  cases e <;> simp only [step] at hs
  case okDone =>
    split at hs <;> simp at hs
    subst hs; simp only [measure]; omega
  case failSend =>
    split at hs
    · split at hs
      · simp at hs; subst hs; simp only [measure]; omega
      · split at hs
        · simp at hs; subst hs; simp only [measure]; omega
        · simp at hs
    · simp at hs
  case waitDone =>
    split at hs <;> simp at hs
    rename_i hg
    subst hs; simp only [measure, hg.1]; omega
  case recv =>
    split at hs <;> simp at hs
    rename_i hg
    subst hs; simp only [measure, hg.1]; omega
  case finish =>
    split at hs <;> simp at hs
    rename_i hg
    subst hs; simp only [measure, hg.1]; omega

end Grog.ErrChan
