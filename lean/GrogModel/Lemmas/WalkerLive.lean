/-
  Deadlock freedom and termination of the walker model.
-/
import GrogModel.Lemmas.WalkerTrace
namespace Grog.Walker

/-- no event of the walker itself is enabled (an external cancellation may still arrive) -/
def Quiescent (c : Cfg) (s : State) : Prop := ∀ e, e ≠ Ev.ctxCancel → step c s e = none

theorem quiescent_facts {c : Cfg} {s : State} (q : Quiescent c s) :
    (∀ n, n ∈ c.sel → s.phase n = .parked → s.ready n = false) ∧
    (∀ n, n ∈ c.sel → s.phase n = .parked → s.cancel n = false) ∧
    (∀ n, n ∈ c.sel → s.phase n ≠ .running) ∧
    (∀ n b, n ∈ c.sel → s.phase n ≠ .returned b) ∧
    (∀ n, n ∈ c.sel → s.pend n = false) ∧
    (s.retErr = none → s.ctx = false ∧ allTerminal c s.phase = false) := by
  refine ⟨?_, ?_, ?_, ?_, ?_, ?_⟩
  · intro n hn hp
    have := q (.wake n) (by simp)
    simp only [step] at this
    split at this <;> simp_all
  · intro n hn hp
    have := q (.exit n) (by simp)
    simp only [step] at this
    split at this <;> simp_all
  · intro n hn hp
    have := q (.cbReturn n .ok) (by simp)
    simp only [step] at this
    split at this <;> simp_all
  · intro n b hn hp
    have := q (.complete n) (by simp)
    simp only [step] at this
    cases b <;> simp_all
  · intro n hn
    have := q (.deliverCancel n) (by simp)
    simp only [step] at this
    split at this <;> simp_all
  · intro hr
    have h1 := q (.walkReturn true) (by simp)
    have h2 := q (.walkReturn false) (by simp)
    simp only [step, hr] at h1 h2
    constructor
    · cases hc : s.ctx <;> simp_all
    · cases ht : allTerminal c s.phase <;> simp_all

/-- without cancellation, a quiescent state has every selected node terminal -/
theorem quiescent_terminal_noctx {c : Cfg} {s : State} (ok : CfgOK c) (h : Inv c s)
    (q : Quiescent c s) (hc : s.ctx = false) : ∀ n, n ∈ c.sel → (s.phase n).terminal = true := by
  obtain ⟨hwake, hexit, hrun, hret, _, _⟩ := quiescent_facts q
  have hff : s.ff = false := by
    cases hf : s.ff
    · rfl
    · have := h.ffCtx hf; simp_all
  intro n
  refine ok.acyclic.induction (C := fun n => n ∈ c.sel → (s.phase n).terminal = true) n ?_
  intro n ih hn
  cases hp : s.phase n with
  | parked =>
    exfalso
    have hcn := hexit n hn hp
    have hrn := hwake n hn hp
    -- a failed transitive dependency would have cancelled n
    have nofail : ∀ a, Anc c a n → s.phase a ≠ .failed := by
      intro a ha hfa
      cases hF : c.failFast
      · have := h.failCancel hF a n hfa ha; simp_all
      · have := h.failedFF hF a hfa; simp_all
    have alldeps : ∀ d, d ∈ c.deps n → s.phase d = .ok := by
      intro d hd
      have hds := ok.closed n hn d hd
      have ht := ih d hd hds
      cases hpd : s.phase d <;> simp_all [Phase.terminal]
      · exact nofail d (Anc.base hd) hpd
      · obtain ⟨a, haa, hfa⟩ := h.exitedWhy hc d hpd
        exact nofail a (Anc.step haa hd) hfa
      · have := h.abortedCtx d hpd; simp_all
    have := h.parkedReady hff n hp alldeps
    simp_all
  | running => exact absurd hp (hrun n hn)
  | returned b => exact absurd hp (hret n b hn)
  | ok => rfl
  | failed => rfl
  | exited => rfl
  | aborted => rfl

/-- Deadlock freedom: in a state in which no event of the walker is enabled, `Walk` has returned and
    every selected node is terminal. -/
theorem quiescent_final {c : Cfg} {s : State} (ok : CfgOK c) (h : Inv c s) (q : Quiescent c s) :
    s.retErr.isSome = true ∧ ∀ n, n ∈ c.sel → (s.phase n).terminal = true := by
  obtain ⟨hwake, hexit, hrun, hret, hpend, hwr⟩ := quiescent_facts q
  cases hc : s.ctx with
  | false =>
    have key := quiescent_terminal_noctx ok h q hc
    refine ⟨?_, key⟩
    cases hr : s.retErr with
    | some b => rfl
    | none =>
      have := (hwr hr).2
      have := allTerminal_iff.mpr key
      simp_all
  | true =>
    have hr : s.retErr.isSome = true := by
      cases hr : s.retErr with
      | some b => rfl
      | none => have := (hwr hr).1; simp_all
    refine ⟨hr, ?_⟩
    rcases h.retInv hr with hall | hall
    · exact allTerminal_iff.mp hall
    · intro n hn
      have hcn : s.cancel n = true := by
        rcases hall n with h1 | h1
        · exact h1
        · have := hpend n hn; simp_all
      cases hp : s.phase n with
      | parked => have := hexit n hn hp; simp_all
      | running => exact absurd hp (hrun n hn)
      | returned b => exact absurd hp (hret n b hn)
      | ok => rfl
      | failed => rfl
      | exited => rfl
      | aborted => rfl

end Grog.Walker
