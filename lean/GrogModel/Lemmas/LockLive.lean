/-
  Progress lemmas for the flock protocol: a contender that runs alone while no other process holds a
  flock acquires the lock within a bounded number of its own calls.
-/
import GrogModel.Lemmas.LockInv
namespace Grog.Lock

/-- the process holds no flock -/
def PC.noLock (pc : PC) : Prop := ∀ n, ¬ pc.owns n

/-- the process is in its acquisition loop without holding a flock -/
def PC.inLoop : PC → Prop
  | .idle => True
  | .busy _ => True
  | .readPid => True
  | .waiting => True
  | _ => False

theorem solo_succ {s s' : State} {w k : Nat} (h : step s (.step w) = some s') :
    solo w (k + 1) s = solo w k s' := by
  simp [solo, h]

theorem run_cons_some {s s' : State} {e : Ev} {es : List Ev} (h : step s e = some s') :
    run s (e :: es) = run s' es := by
  simp [run, h]

/-- from `idle`, alone, with nobody else holding a flock: six calls (open, flock, fstat, stat,
    truncate, write) and the lock is held. -/
theorem solo_from_idle {s : State} (inv : Inv s) (w : Nat) (hw : s.pc w = .idle)
    (others : ∀ j, j ≠ w → (s.pc j).noLock) :
    ∃ n, (solo w 6 s).pc w = .holding n := by
  -- the inode the open returns, and the state after the open
  obtain ⟨n, s1, h1, hpc1, hpath1, hfl1⟩ :
      ∃ n s1, step s (.step w) = some s1 ∧ s1.pc w = .opened n ∧ s1.path = some n ∧ s1.flock = s.flock := by
    cases hp : s.path with
    | some n => exact ⟨n, s.setPc w (.opened n), by simp only [step, hw, hp], by simp, by simp [hp], rfl⟩
    | none =>
      exact ⟨s.next, { s with path := some s.next, next := s.next + 1 }.setPc w (.opened s.next),
        by simp only [step, hw, hp], by simp, by simp [State.setPc, State.setProc], rfl⟩
  have hfree : s1.flock n = none := by
    rw [hfl1]
    cases hf : s.flock n with
    | none => rfl
    | some j =>
      have ho := inv.held j n hf
      by_cases e : j = w
      · subst e; rw [hw] at ho; simp [PC.owns] at ho
      · exact absurd ho (others j e n)
  -- flock
  let s2 : State := { s1 with flock := fun m => if m = n then some w else s1.flock m }.setPc w (.locked n)
  have h2 : step s1 (.step w) = some s2 := by simp only [step, hpc1, hfree]; rfl
  have hpc2 : s2.pc w = .locked n := by simp [s2]
  have hpath2 : s2.path = some n := by simp [s2, State.setPc, State.setProc, hpath1]
  -- fstat
  have h3 : step s2 (.step w) = some (s2.setPc w (.statted n)) := by simp only [step, hpc2]
  -- stat: the path still names n
  have h4 : step (s2.setPc w (.statted n)) (.step w) = some ((s2.setPc w (.statted n)).setPc w (.verified n)) := by
    simp only [step, pc_setPc_self, path_setPc, hpath2, if_true]
  have h5 : step ((s2.setPc w (.statted n)).setPc w (.verified n)) (.step w) =
      some (((s2.setPc w (.statted n)).setPc w (.verified n)).setPc w (.truncated n)) := by
    simp only [step, pc_setPc_self]
  have h6 : step (((s2.setPc w (.statted n)).setPc w (.verified n)).setPc w (.truncated n)) (.step w) =
      some ((((s2.setPc w (.statted n)).setPc w (.verified n)).setPc w (.truncated n)).setPc w (.holding n)) := by
    simp only [step, pc_setPc_self]
  refine ⟨n, ?_⟩
  rw [solo_succ h1, solo_succ h2, solo_succ h3, solo_succ h4, solo_succ h5, solo_succ h6]
  simp [solo]

/-- invariant and "nobody else holds a flock" are preserved by a step of `w` that stays in the loop -/
theorem loop_step_keeps {s s' : State} (inv : Inv s) {w : Nat}
    (hs : step s (.step w) = some s') (others : ∀ j, j ≠ w → (s.pc j).noLock) :
    Inv s' ∧ ∀ j, j ≠ w → (s'.pc j).noLock := by
  refine ⟨inv_step _ inv hs, ?_⟩
  intro j hj
  have : s'.pc j = s.pc j := by
    simp only [step] at hs
    split at hs <;> (try split at hs) <;> simp at hs <;> subst hs <;>
      simp [State.setPc, State.setProc, State.pc, State.release, hj]
  rw [this]; exact others j hj

/-- from anywhere in the acquisition loop: at most three calls back to `idle`, then six. -/
theorem solo_acquires {s : State} (inv : Inv s) (w : Nat) (hw : (s.pc w).inLoop)
    (others : ∀ j, j ≠ w → (s.pc j).noLock) :
    ∃ k, k ≤ 9 ∧ ∃ n, (solo w k s).pc w = .holding n := by
  -- waiting → idle
  have fromWaiting : ∀ s : State, Inv s → s.pc w = .waiting → (∀ j, j ≠ w → (s.pc j).noLock) →
      ∃ n, (solo w 7 s).pc w = .holding n := by
    intro s inv hpc others
    have h : step s (.step w) = some (s.setPc w .idle) := by simp only [step, hpc]
    obtain ⟨inv', others'⟩ := loop_step_keeps inv h others
    obtain ⟨n, hn⟩ := solo_from_idle inv' w (by simp) others'
    exact ⟨n, by rw [solo_succ h]; exact hn⟩
  have fromReadPid : ∀ s : State, Inv s → s.pc w = .readPid → (∀ j, j ≠ w → (s.pc j).noLock) →
      ∃ n, (solo w 8 s).pc w = .holding n := by
    intro s inv hpc others
    have h : step s (.step w) = some (s.setProc w ⟨.waiting, true⟩) := by simp only [step, hpc]
    obtain ⟨inv', others'⟩ := loop_step_keeps inv h others
    obtain ⟨n, hn⟩ := fromWaiting _ inv' (by simp) others'
    exact ⟨n, by rw [solo_succ h]; exact hn⟩
  cases hpc : s.pc w with
  | idle =>
    obtain ⟨n, hn⟩ := solo_from_idle inv w hpc others
    exact ⟨6, by omega, n, hn⟩
  | waiting =>
    obtain ⟨n, hn⟩ := fromWaiting s inv hpc others
    exact ⟨7, by omega, n, hn⟩
  | readPid =>
    obtain ⟨n, hn⟩ := fromReadPid s inv hpc others
    exact ⟨8, by omega, n, hn⟩
  | busy m =>
    by_cases hp : (s.procs w).printed = true
    · have h : step s (.step w) = some (s.setPc w .waiting) := by simp only [step, hpc, hp, if_true]
      obtain ⟨inv', others'⟩ := loop_step_keeps inv h others
      obtain ⟨n, hn⟩ := fromWaiting _ inv' (by simp) others'
      exact ⟨8, by omega, n, by rw [solo_succ h]; exact hn⟩
    · have h : step s (.step w) = some (s.setPc w .readPid) := by
        simp only [step, hpc]; simp [hp]
      obtain ⟨inv', others'⟩ := loop_step_keeps inv h others
      obtain ⟨n, hn⟩ := fromReadPid _ inv' (by simp) others'
      exact ⟨9, by omega, n, by rw [solo_succ h]; exact hn⟩
  | opened _ => rw [hpc] at hw; simp [PC.inLoop] at hw
  | locked _ => rw [hpc] at hw; simp [PC.inLoop] at hw
  | statted _ => rw [hpc] at hw; simp [PC.inLoop] at hw
  | verified _ => rw [hpc] at hw; simp [PC.inLoop] at hw
  | truncated _ => rw [hpc] at hw; simp [PC.inLoop] at hw
  | holding _ => rw [hpc] at hw; simp [PC.inLoop] at hw
  | mismatch _ => rw [hpc] at hw; simp [PC.inLoop] at hw
  | unlocking _ => rw [hpc] at hw; simp [PC.inLoop] at hw
  | removed _ => rw [hpc] at hw; simp [PC.inLoop] at hw
  | done => rw [hpc] at hw; simp [PC.inLoop] at hw
  | dead => rw [hpc] at hw; simp [PC.inLoop] at hw

/-! ### progress from every program counter of the acquisition path -/

/-- the process is trying to acquire (anywhere between calling `Lock()` and its return) -/
def PC.contending : PC → Prop
  | .idle => True
  | .opened _ => True
  | .locked _ => True
  | .statted _ => True
  | .verified _ => True
  | .truncated _ => True
  | .mismatch _ => True
  | .busy _ => True
  | .readPid => True
  | .waiting => True
  | _ => False

theorem solo_from_truncated {s : State} (w n : Nat) (hw : s.pc w = .truncated n) :
    (solo w 1 s).pc w = .holding n := by
  have h : step s (.step w) = some (s.setPc w (.holding n)) := by simp only [step, hw]
  rw [solo_succ h]; simp [solo]

theorem solo_from_verified {s : State} (w n : Nat) (hw : s.pc w = .verified n) :
    (solo w 2 s).pc w = .holding n := by
  have h : step s (.step w) = some (s.setPc w (.truncated n)) := by simp only [step, hw]
  rw [solo_succ h]; exact solo_from_truncated w n (by simp)

/-- `mismatch n` (the path no longer names the inode we locked): close, retry at once, acquire. -/
theorem solo_from_mismatch {s : State} (inv : Inv s) (w n : Nat) (hw : s.pc w = .mismatch n)
    (others : ∀ j, j ≠ w → (s.pc j).noLock) :
    ∃ m, (solo w 7 s).pc w = .holding m := by
  have h : step s (.step w) = some ((s.release w n).setPc w .idle) := by simp only [step, hw]
  obtain ⟨inv', others'⟩ := loop_step_keeps inv h others
  obtain ⟨m, hm⟩ := solo_from_idle inv' w (by simp) others'
  exact ⟨m, by rw [solo_succ h]; exact hm⟩

/-- `statted n`: the re-check. Either the path still names `n` (three more calls) or it does not — the
    previous holder unlinked it while we held a descriptor on the old inode — and we go round once more. -/
theorem solo_from_statted {s : State} (inv : Inv s) (w n : Nat) (hw : s.pc w = .statted n)
    (others : ∀ j, j ≠ w → (s.pc j).noLock) :
    ∃ k, k ≤ 8 ∧ ∃ m, (solo w k s).pc w = .holding m := by
  by_cases hp : s.path = some n
  · have h : step s (.step w) = some (s.setPc w (.verified n)) := by simp only [step, hw, hp, if_true]
    exact ⟨3, by omega, n, by rw [solo_succ h]; exact solo_from_verified w n (by simp)⟩
  · have h : step s (.step w) = some (s.setPc w (.mismatch n)) := by simp only [step, hw, hp, if_false]
    obtain ⟨inv', others'⟩ := loop_step_keeps inv h others
    obtain ⟨m, hm⟩ := solo_from_mismatch inv' w n (by simp) others'
    exact ⟨8, by omega, m, by rw [solo_succ h]; exact hm⟩

theorem solo_from_locked {s : State} (inv : Inv s) (w n : Nat) (hw : s.pc w = .locked n)
    (others : ∀ j, j ≠ w → (s.pc j).noLock) :
    ∃ k, k ≤ 9 ∧ ∃ m, (solo w k s).pc w = .holding m := by
  have h : step s (.step w) = some (s.setPc w (.statted n)) := by simp only [step, hw]
  obtain ⟨inv', others'⟩ := loop_step_keeps inv h others
  obtain ⟨k, hk, m, hm⟩ := solo_from_statted inv' w n (by simp) others'
  exact ⟨k + 1, by omega, m, by rw [solo_succ h]; exact hm⟩

theorem solo_from_opened {s : State} (inv : Inv s) (w n : Nat) (hw : s.pc w = .opened n)
    (others : ∀ j, j ≠ w → (s.pc j).noLock) :
    ∃ k, k ≤ 10 ∧ ∃ m, (solo w k s).pc w = .holding m := by
  have hfree : s.flock n = none := by
    cases hf : s.flock n with
    | none => rfl
    | some j =>
      have ho := inv.held j n hf
      by_cases e : j = w
      · subst e; rw [hw] at ho; simp [PC.owns] at ho
      · exact absurd ho (others j e n)
  have h : step s (.step w) =
      some ({ s with flock := fun m => if m = n then some w else s.flock m }.setPc w (.locked n)) := by
    simp only [step, hw, hfree]
  obtain ⟨inv', others'⟩ := loop_step_keeps inv h others
  obtain ⟨k, hk, m, hm⟩ := solo_from_locked inv' w n (by simp) others'
  exact ⟨k + 1, by omega, m, by rw [solo_succ h]; exact hm⟩

/-- From *every* program counter of the acquisition path — including the ones at which the process
    holds a descriptor (and possibly the flock) on an inode the lock path no longer names — a contender
    that runs alone while nobody else holds a flock is past acquisition within ten of its own calls. -/
theorem solo_acquires_contending {s : State} (inv : Inv s) (w : Nat) (hw : (s.pc w).contending)
    (others : ∀ j, j ≠ w → (s.pc j).noLock) :
    ∃ k, k ≤ 10 ∧ ∃ n, (solo w k s).pc w = .holding n := by
  cases hpc : s.pc w with
  | idle => obtain ⟨k, hk, r⟩ := solo_acquires inv w (by rw [hpc]; trivial) others; exact ⟨k, by omega, r⟩
  | busy m => obtain ⟨k, hk, r⟩ := solo_acquires inv w (by rw [hpc]; trivial) others; exact ⟨k, by omega, r⟩
  | readPid => obtain ⟨k, hk, r⟩ := solo_acquires inv w (by rw [hpc]; trivial) others; exact ⟨k, by omega, r⟩
  | waiting => obtain ⟨k, hk, r⟩ := solo_acquires inv w (by rw [hpc]; trivial) others; exact ⟨k, by omega, r⟩
  | opened n => exact solo_from_opened inv w n hpc others
  | locked n => obtain ⟨k, hk, r⟩ := solo_from_locked inv w n hpc others; exact ⟨k, by omega, r⟩
  | statted n => obtain ⟨k, hk, r⟩ := solo_from_statted inv w n hpc others; exact ⟨k, by omega, r⟩
  | verified n => exact ⟨2, by omega, n, solo_from_verified w n hpc⟩
  | truncated n => exact ⟨1, by omega, n, solo_from_truncated w n hpc⟩
  | mismatch n => obtain ⟨m, hm⟩ := solo_from_mismatch inv w n hpc others; exact ⟨7, by omega, m, hm⟩
  | holding _ => rw [hpc] at hw; simp [PC.contending] at hw
  | unlocking _ => rw [hpc] at hw; simp [PC.contending] at hw
  | removed _ => rw [hpc] at hw; simp [PC.contending] at hw
  | done => rw [hpc] at hw; simp [PC.contending] at hw
  | dead => rw [hpc] at hw; simp [PC.contending] at hw

/-- no contender is ever stuck: its pending call is always enabled -/
theorem contending_enabled (s : State) (w : Nat) (hw : (s.pc w).contending) :
    (step s (.step w)).isSome = true := by
  cases hpc : s.pc w <;> rw [hpc] at hw <;> simp [PC.contending] at hw <;> simp only [step, hpc] <;>
    (repeat' split) <;> simp

end Grog.Lock
