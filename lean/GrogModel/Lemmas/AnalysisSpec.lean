/-
  `Spec`: the declarative reading of property C11 (which graphs are valid), and the lemmas that
  connect every stage of the analysis model to the corresponding clause of `Spec`.
-/
import GrogModel.Lemmas.AnalysisGraph
import GrogModel.Lemmas.Paths
namespace Grog.Analysis
open Grog Grog.Paths

/-! ## the specification -/
namespace Spec

/-- a node labelled `x` lists `y` as a dependency (for an alias: its `actual`) -/
def Dep (ns : List Node) (x y : Label) : Prop := ∃ n ∈ ns, n.label = x ∧ y ∈ n.deps

/-- `y` is a transitive dependency of `x` (one or more steps, through targets and aliases alike) -/
def Reach (ns : List Node) : Label → Label → Prop := TPath (Dep ns)

def Defined (ns : List Node) (l : Label) : Prop := ∃ n ∈ ns, n.label = l

/-- no two nodes (targets or aliases) share a label -/
def NoDuplicate (ns : List Node) : Prop := (ns.map Node.label).Nodup

/-- every dependency label is defined -/
def DepsDefined (ns : List Node) : Prop := ∀ x y, Dep ns x y → Defined ns y

/-- no dependency cycle, including self-reference and cycles through aliases -/
def NoCycle (ns : List Node) : Prop := ∀ x, ¬ Reach ns x x

/-- ordered by dependency -/
def Ordered (ns : List Node) (a b : Label) : Prop := Reach ns a b ∨ Reach ns b a

/-- where the output is: the components of its path resolved from the workspace root and the package
    (rooted normal form — no `.`, no `..`, no empty component) -/
def outComps (ws : Bytes) (t : Target) (o : Out) : List Bytes :=
  normComps true (splitSlash ws ++ (splitSlash t.label.pkg ++ splitSlash o.ident))

/-- two outputs overlap: same image tag; same file; nested (or equal) directories; a file inside
    (or equal to) a directory output — "inside" is the prefix relation on resolved components -/
def Overlap (ws : Bytes) (t : Target) (o : Out) (u : Target) (q : Out) : Prop :=
  match o.kind, q.kind with
  | .docker, .docker => o.ident = q.ident
  | .file, .file => outComps ws t o = outComps ws u q
  | .dir, .dir => outComps ws u q <+: outComps ws t o ∨ outComps ws t o <+: outComps ws u q
  | .dir, .file => outComps ws t o <+: outComps ws u q
  | .file, .dir => outComps ws u q <+: outComps ws t o
  | _, _ => False

/-- two different targets, not ordered by dependency, with overlapping outputs -/
def Conflict (ws : Bytes) (ns : List Node) : Prop :=
  ∃ t u, Node.target t ∈ ns ∧ Node.target u ∈ ns ∧ t.label ≠ u.label ∧
    ¬ Ordered ns t.label u.label ∧ ∃ o ∈ t.outs, ∃ q ∈ u.outs, Overlap ws t o u q

/-- an input that is absolute or leaves its package -/
def InputEscapes (i : Bytes) : Prop :=
  isAbs i = true ∨ (normComps false (splitSlash i)).head? = some dotdot

/-- a file or directory output that is absolute or, resolved from the workspace root and the package,
    ends up outside the workspace root -/
def OutputEscapes (ws : Bytes) (t : Target) (o : Out) : Prop :=
  o.kind ≠ .docker ∧
  (isAbs o.ident = true ∨
    ¬ normComps true (splitSlash ws) <+:
        normComps true (splitSlash ws ++ (splitSlash t.label.pkg ++ splitSlash o.ident)))

/-- following aliases from label `l` ends at target `t` -/
inductive ResolvesTo (ns : List Node) : Label → Target → Prop
  | target {t} : Node.target t ∈ ns → ResolvesTo ns t.label t
  | alias {a t} : Node.alias a ∈ ns → ResolvesTo ns a.actual t → ResolvesTo ns a.label t

/-- `t` may not depend on `u`: only tests may depend on tests; only tests and testonly targets may
    depend on testonly targets -/
def BadDep (t u : Target) : Prop :=
  (u.isTest = true ∧ t.isTest = false) ∨ (u.testonly = true ∧ t.testonly = false ∧ t.isTest = false)

def BadTestDep (ns : List Node) : Prop :=
  ∃ t d u, Node.target t ∈ ns ∧ d ∈ t.deps ∧ ResolvesTo ns d u ∧ BadDep t u

/-- the graph has none of the defects listed by the property -/
structure valid (ws : Bytes) (ps : List Pkg) : Prop where
  noDuplicate : NoDuplicate (allNodes ps)
  depsDefined : DepsDefined (allNodes ps)
  noCycle : NoCycle (allNodes ps)
  noConflict : ¬ Conflict ws (allNodes ps)
  inputs : ∀ t, Node.target t ∈ allNodes ps → ∀ i ∈ t.checkedInputs, ¬ InputEscapes i
  outputs : ∀ t, Node.target t ∈ allNodes ps → ∀ o ∈ t.outs, ¬ OutputEscapes ws t o
  testDeps : ¬ BadTestDep (allNodes ps)

/-- not a graph defect, but rejected by the same pass: a test target without a command -/
def TestsHaveCommands (ps : List Pkg) : Prop :=
  ∀ t, Node.target t ∈ allNodes ps → t.isTest = true → t.hasCmd = true

/-- package paths are relative (the loader derives them from directories below the root) -/
def PkgRel (ps : List Pkg) : Prop :=
  ∀ t, Node.target t ∈ allNodes ps → isAbs t.label.pkg = false

end Spec
open Spec

/-! ## node map -/

theorem foldl_addNode_none (l : List Node) : l.foldl addNode none = none := by
  induction l with
  | nil => rfl
  | cons n r ih => simpa [List.foldl_cons, addNode] using ih

theorem hasLabel_iff {ns : List Node} {l : Label} : hasLabel ns l = true ↔ l ∈ ns.map Node.label := by
  simp only [hasLabel, List.any_eq_true, beq_iff_eq, List.mem_map]

theorem foldl_addNode (l : List Node) : ∀ acc : List Node,
    (l.foldl addNode (some acc) = some (acc ++ l) ∧ ((acc ++ l).map Node.label).Nodup ∨
     l.foldl addNode (some acc) = none ∧ ¬ ((acc ++ l).map Node.label).Nodup) ∨
    ¬ (acc.map Node.label).Nodup := by
  induction l with
  | nil =>
    intro acc
    by_cases h : (acc.map Node.label).Nodup
    · left; left; simpa using h
    · right; exact h
  | cons n r ih =>
    intro acc
    by_cases h : (acc.map Node.label).Nodup
    · left
      simp only [List.foldl_cons, addNode]
      by_cases hl : hasLabel acc n.label = true
      · right
        rw [if_pos hl, foldl_addNode_none]
        refine ⟨rfl, ?_⟩
        intro hnd
        have hm := hasLabel_iff.mp hl
        simp only [List.map_append, List.map_cons] at hnd
        have := (List.nodup_append.mp hnd).2.2
        exact this _ hm _ List.mem_cons_self rfl
      · rw [if_neg hl]
        have hacc : ((acc ++ [n]).map Node.label).Nodup := by
          simp only [List.map_append, List.map_cons, List.map_nil]
          refine List.nodup_append.mpr ⟨h, by simp, ?_⟩
          intro a ha b hb hab
          simp at hb; subst hb; subst hab
          exact hl (hasLabel_iff.mpr ha)
        rcases ih (acc ++ [n]) with h' | h'
        · simpa [List.append_assoc] using h'
        · exact absurd hacc h'
    · right; exact h

theorem buildNodeMap_spec (ps : List Pkg) :
    (buildNodeMap ps = some (allNodes ps) ∧ NoDuplicate (allNodes ps)) ∨
    (buildNodeMap ps = none ∧ ¬ NoDuplicate (allNodes ps)) := by
  rcases foldl_addNode (allNodes ps) [] with h | h
  · simpa [buildNodeMap, NoDuplicate] using h
  · simp at h

/-! ## lookup, edges -/

theorem lookup_some {ns : List Node} {l : Label} {n : Node} (h : lookup ns l = some n) :
    n ∈ ns ∧ n.label = l := by
  unfold lookup at h
  exact ⟨List.mem_of_find?_eq_some h, by simpa using List.find?_some h⟩

theorem lookup_none {ns : List Node} {l : Label} (h : lookup ns l = none) : ¬ Defined ns l := by
  unfold lookup at h
  rintro ⟨n, hn, rfl⟩
  have := List.find?_eq_none.mp h n hn
  simp at this

/-- with unique labels, looking up the label of a node finds that node -/
theorem lookup_mem {ns : List Node} (hnd : NoDuplicate ns) {n : Node} (hn : n ∈ ns) :
    lookup ns n.label = some n := by
  induction ns with
  | nil => cases hn
  | cons m r ih =>
    simp only [NoDuplicate, List.map_cons, List.nodup_cons] at hnd
    unfold lookup
    simp only [List.find?_cons]
    rcases List.mem_cons.mp hn with rfl | hn
    · simp
    · have hne : m.label ≠ n.label := by
        intro he; exact hnd.1 (he ▸ List.mem_map_of_mem hn)
      have : (m.label == n.label) = false := by simpa using hne
      rw [this]
      exact ih hnd.2 hn

theorem edgeCheck_none {ns : List Node} {n : Node} :
    edgeCheck ns n = none ↔ (∀ d ∈ n.deps, Defined ns d) ∧ n.label ∉ n.deps := by
  unfold edgeCheck
  rw [List.findSome?_eq_none_iff]
  constructor
  · intro h
    refine ⟨?_, ?_⟩
    · intro d hd
      have := h d hd
      cases hl : lookup ns d with
      | none => simp [hl] at this
      | some m => exact ⟨m, (lookup_some hl).1, (lookup_some hl).2⟩
    · intro hd
      have := h n.label hd
      cases hl : lookup ns n.label with
      | none => simp [hl] at this
      | some m => simp [hl, (lookup_some hl).2] at this
  · rintro ⟨h1, h2⟩ d hd
    cases hl : lookup ns d with
    | none => exact absurd (h1 d hd) (lookup_none hl)
    | some m =>
      have hm := (lookup_some hl).2
      have : m.label ≠ n.label := by
        intro he; exact h2 (he ▸ hm ▸ hd)
      simp [this]

theorem edgeErrors_none {ns : List Node} :
    edgeErrors ns = none ↔ DepsDefined ns ∧ ∀ n ∈ ns, n.label ∉ n.deps := by
  unfold edgeErrors
  rw [List.findSome?_eq_none_iff]
  constructor
  · intro h
    refine ⟨?_, fun n hn => (edgeCheck_none.mp (h n hn)).2⟩
    rintro x y ⟨n, hn, rfl, hy⟩
    exact (edgeCheck_none.mp (h n hn)).1 y hy
  · rintro ⟨h1, h2⟩ n hn
    exact edgeCheck_none.mpr ⟨fun d hd => h1 n.label d ⟨n, hn, rfl, hd⟩, h2 n hn⟩

/-! ## adjacency -/

theorem mem_succs {ns : List Node} {u v : Label} : v ∈ succs ns u ↔ Dep ns v u := by
  simp only [succs, List.mem_flatMap, List.mem_map, List.mem_filter, beq_iff_eq, Dep]
  constructor
  · rintro ⟨n, hn, d, ⟨hd, rfl⟩, rfl⟩
    exact ⟨n, hn, rfl, hd⟩
  · rintro ⟨n, hn, rfl, hd⟩
    exact ⟨n, hn, u, ⟨hd, rfl⟩, rfl⟩

theorem mem_preds {ns : List Node} (hnd : NoDuplicate ns) {x y : Label} :
    y ∈ preds ns x ↔ Dep ns x y := by
  unfold preds
  constructor
  · intro h
    cases hl : lookup ns x with
    | none => simp [hl] at h
    | some n =>
      simp only [hl] at h
      exact ⟨n, (lookup_some hl).1, (lookup_some hl).2, h⟩
  · rintro ⟨n, hn, rfl, hy⟩
    rw [lookup_mem hnd hn]; exact hy

theorem succs_mem_labels {ns : List Node} : ∀ u v, v ∈ succs ns u → v ∈ ns.map Node.label := by
  intro u v h
  obtain ⟨n, hn, rfl, _⟩ := mem_succs.mp h
  exact List.mem_map_of_mem hn

/-- cycles of the dependants graph are cycles of the dependency relation -/
theorem acyclic_succs_iff {ns : List Node} : Acyclic (succs ns) ↔ NoCycle ns := by
  have h1 : ∀ a b, TPath (stepOf (succs ns)) a b → TPath (Dep ns) b a := by
    intro a b h
    exact (h.mono (s := fun x y => Dep ns y x) (fun x y hxy => mem_succs.mp hxy)).flip
  have h2 : ∀ a b, TPath (Dep ns) a b → TPath (stepOf (succs ns)) b a := by
    intro a b h
    exact (h.mono (s := fun x y => stepOf (succs ns) y x) (fun x y hxy => mem_succs.mpr hxy)).flip
  constructor
  · intro h x hx; exact h x (h2 x x hx)
  · intro h x hx; exact h x (h1 x x hx)

theorem findCycle_spec (ns : List Node) :
    match findCycle ns with
    | .ok _ => NoCycle ns
    | .cycle _ => ¬ NoCycle ns
    | .fuel => False := by
  have := findCycleG_spec (ns.map Node.label) (succs ns) succs_mem_labels
  unfold findCycle
  revert this
  cases findCycleG (ns.map Node.label) (succs ns) <;> simp only [acyclic_succs_iff] <;> exact id

/-! ## ordered -/

theorem tpath_preds_iff {ns : List Node} (hnd : NoDuplicate ns) {a b : Label} :
    TPath (stepOf (preds ns)) a b ↔ Reach ns a b := by
  constructor
  · intro h; exact h.mono (fun x y hxy => (mem_preds hnd).mp hxy)
  · intro h; exact h.mono (fun x y hxy => (mem_preds hnd).mpr hxy)

theorem potSum_labels {ns : List Node} (hnd : NoDuplicate ns) :
    ∀ (ms : List Node), (∀ m ∈ ms, m ∈ ns) →
      potSum (preds ns) [] (ms.map Node.label) = (ms.map fun n => n.deps.length + 1).sum := by
  intro ms
  induction ms with
  | nil => intro _; rfl
  | cons m r ih =>
    intro hm
    simp only [List.map_cons, potSum, List.not_mem_nil, if_false, List.sum_cons]
    rw [ih (fun x hx => hm x (List.mem_cons_of_mem _ hx))]
    have : preds ns m.label = m.deps := by
      unfold preds; rw [lookup_mem hnd (hm m List.mem_cons_self)]
    rw [this]; omega

theorem length_le_sum {ns : List Node} {n : Node} (hn : n ∈ ns) :
    n.deps.length ≤ (ns.map fun n => n.deps.length + 1).sum := by
  induction ns with
  | nil => cases hn
  | cons m r ih =>
    simp only [List.map_cons, List.sum_cons]
    rcases List.mem_cons.mp hn with rfl | hn
    · omega
    · have := ih hn; omega

theorem mem_ancestors {ns : List Node} (hnd : NoDuplicate ns) (hdef : DepsDefined ns) {a b : Label} :
    b ∈ ancestors ns a ↔ Reach ns a b := by
  unfold ancestors
  constructor
  · intro h
    rw [← tpath_preds_iff hnd]
    refine ancLoop_sound (preds ns) (fun x => TPath (stepOf (preds ns)) a x) ?_ _ _ _ ?_ ?_ b h
    · intro x y hx hy; exact hx.snoc hy
    · intro x hx; exact .single hx
    · intro x hx; cases hx
  · intro h
    rw [← tpath_preds_iff hnd] at h
    have hV : ∀ x y, y ∈ preds ns x → y ∈ ns.map Node.label := by
      intro x y hy
      obtain ⟨n, hn, rfl⟩ := hdef x y ((mem_preds hnd).mp hy)
      exact List.mem_map_of_mem hn
    have hpot : ancPot (preds ns) (ns.map Node.label) (preds ns a) [] ≤ ancFuel ns := by
      unfold ancPot ancFuel
      rw [potSum_labels hnd ns (fun m hm => hm)]
      have : (preds ns a).length ≤ (ns.map fun n => n.deps.length + 1).sum := by
        unfold preds
        cases hl : lookup ns a with
        | none => simp
        | some n => exact length_le_sum (lookup_some hl).1
      omega
    obtain ⟨_, h2, h3⟩ := ancLoop_closed (preds ns) (ns.map Node.label) hV (ancFuel ns) (preds ns a) []
      (fun x hx => hV a x hx) (fun y hy => by cases hy) hpot
    -- the result contains the direct dependencies and is closed, hence contains every path end
    cases h with
    | single h => exact h2 b h
    | cons h hp =>
      exact TPath.closed (S := (· ∈ ancLoop (preds ns) (ancFuel ns) (preds ns a) []))
        (fun x y hx hxy => h3 x hx y hxy) hp (h2 _ h)

/-- the code's "ordered by dependency" test is reachability one way or the other -/
theorem ordered_iff {ns : List Node} (hnd : NoDuplicate ns) (hdef : DepsDefined ns) (cfg : Cfg) {a b : Label} :
    ordered cfg ns a b = true ↔ (cfg.skipSelf = true ∧ a = b) ∨ Ordered ns a b := by
  unfold ordered Ordered
  simp only [Bool.or_eq_true, Bool.and_eq_true, beq_iff_eq, List.contains_iff_mem,
    mem_ancestors hnd hdef, or_assoc]

/-! ## output conflicts -/

theorem pairsAny_iff {α : Type} (p : α → α → Bool) (hsym : ∀ x y, p x y = p y x) (hirr : ∀ x, p x x = false)
    (l : List α) : pairsAny p l = true ↔ ∃ x ∈ l, ∃ y ∈ l, p x y = true := by
  induction l with
  | nil => simp [pairsAny]
  | cons z zs ih =>
    simp only [pairsAny, Bool.or_eq_true, List.any_eq_true, ih]
    constructor
    · rintro (⟨y, hy, h⟩ | ⟨x, hx, y, hy, h⟩)
      · exact ⟨z, List.mem_cons_self, y, List.mem_cons_of_mem _ hy, h⟩
      · exact ⟨x, List.mem_cons_of_mem _ hx, y, List.mem_cons_of_mem _ hy, h⟩
    · rintro ⟨x, hx, y, hy, h⟩
      rcases List.mem_cons.mp hx with hxz | hx
      · rcases List.mem_cons.mp hy with hyz | hy
        · rw [hxz, hyz, hirr] at h; cases h
        · exact .inl ⟨y, hy, hxz ▸ h⟩
      · rcases List.mem_cons.mp hy with hyz | hy
        · exact .inl ⟨x, hx, by rw [hsym, ← hyz]; exact h⟩
        · exact .inr ⟨x, hx, y, hy, h⟩

theorem mem_targetsOf {ns : List Node} {t : Target} : t ∈ targetsOf ns ↔ Node.target t ∈ ns := by
  induction ns with
  | nil => simp [targetsOf]
  | cons n r ih =>
    cases n with
    | target u => simp [targetsOf, ih]
    | alias a => simp [targetsOf, ih]

theorem mem_recsOf {k : OutKind} {key : Target → Bytes → Bytes} {ts : List Target} {r : Rec} :
    r ∈ recsOf k key ts ↔ ∃ t ∈ ts, ∃ o ∈ t.outs, o.kind = k ∧ r = ⟨t.label, key t o.ident⟩ := by
  simp only [recsOf, List.mem_flatMap, List.mem_map, List.mem_filter, decide_eq_true_eq]
  constructor
  · rintro ⟨t, ht, o, ⟨ho, hk⟩, rfl⟩; exact ⟨t, ht, o, ho, hk, rfl⟩
  · rintro ⟨t, ht, o, ho, hk, rfl⟩; exact ⟨t, ht, o, ⟨ho, hk⟩, rfl⟩

theorem ordered_symm (cfg : Cfg) (ns : List Node) (a b : Label) : ordered cfg ns a b = ordered cfg ns b a := by
  unfold ordered
  have : (a == b) = (b == a) := BEq.comm
  rw [this]
  cases cfg.skipSelf && b == a <;> cases (ancestors ns a).contains b <;> cases (ancestors ns b).contains a <;> rfl

/-- hypotheses under which output paths are relative, so that the string tests of the code are
    component tests -/
structure RelOuts (ns : List Node) : Prop where
  pkg : ∀ t, Node.target t ∈ ns → isAbs t.label.pkg = false
  ident : ∀ t, Node.target t ∈ ns → ∀ o ∈ t.outs, o.kind ≠ .docker → isAbs o.ident = false

theorem outComps_ok (ws : Bytes) (t : Target) (o : Out) : CompsOK (outComps ws t o) := by
  apply normComps_ok
  intro c hc
  rcases List.mem_append.mp hc with hc | hc
  · exact splitSlash_noSlash _ c hc
  · rcases List.mem_append.mp hc with hc | hc
    · exact splitSlash_noSlash _ c hc
    · exact splitSlash_noSlash _ c hc

theorem hasConflict_iff {ws : Bytes} (hws : isAbs ws = true) {ns : List Node} (hnd : NoDuplicate ns)
    (hdef : DepsDefined ns) (hrel : RelOuts ns) :
    hasConflict Cfg.current ws ns = true ↔ Conflict ws ns := by
  have hord : ∀ a b, ordered Cfg.current ns a b = true ↔ a = b ∨ Ordered ns a b := by
    intro a b; rw [ordered_iff hnd hdef]; simp [Cfg.current]
  have hpath : ∀ t, Node.target t ∈ ns → ∀ o ∈ t.outs, o.kind ≠ .docker →
      outKey Cfg.current ws t o.ident = renderAbs (outComps ws t o) := by
    intro t ht o ho hk
    simp only [outKey, Cfg.current, if_true]
    exact resolvedOutputPath_abs hws (hrel.pkg t ht) (hrel.ident t ht o ho hk)
  have hunord : ∀ (r s : Rec), (!ordered Cfg.current ns r.owner s.owner) = true ↔
      r.owner ≠ s.owner ∧ ¬ Ordered ns r.owner s.owner := by
    intro r s
    rw [Bool.not_eq_true', ← Bool.not_eq_true, hord]; simp [not_or]
  have hsymU : ∀ (r s : Rec), (!ordered Cfg.current ns r.owner s.owner) = (!ordered Cfg.current ns s.owner r.owner) := by
    intro r s; rw [ordered_symm]
  have hirrU : ∀ (r : Rec), (!ordered Cfg.current ns r.owner r.owner) = false := by
    intro r
    have := (hord r.owner r.owner).mpr (.inl rfl)
    simp [this]
  unfold hasConflict
  simp only [Bool.or_eq_true]
  rw [pairsAny_iff _ (by intro x y; rw [hsymU x y, BEq.comm])
        (by intro x; simp [hirrU x]),
      pairsAny_iff _ (by intro x y; rw [hsymU x y, BEq.comm])
        (by intro x; simp [hirrU x]),
      pairsAny_iff _ (by intro x y; rw [hsymU x y]; simp [pathsOverlap, Bool.or_comm])
        (by intro x; simp [hirrU x])]
  simp only [List.any_eq_true, Bool.and_eq_true, beq_iff_eq, hunord, dockerRecs, fileRecs, dirRecs, mem_recsOf,
    mem_targetsOf]
  constructor
  · rintro (((h | h) | h) | h)
    · obtain ⟨r, ⟨t, ht, o, ho, hko, rfl⟩, s, ⟨u, hu, q, hq, hkq, rfl⟩, hp, hne, hno⟩ := h
      refine ⟨t, u, ht, hu, hne, hno, o, ho, q, hq, ?_⟩
      simp only [Overlap, hko, hkq]; exact hp
    · obtain ⟨r, ⟨t, ht, o, ho, hko, rfl⟩, s, ⟨u, hu, q, hq, hkq, rfl⟩, hp, hne, hno⟩ := h
      refine ⟨t, u, ht, hu, hne, hno, o, ho, q, hq, ?_⟩
      simp only [Overlap, hko, hkq]
      simp only at hp
      rw [hpath t ht o ho (by simp [hko]), hpath u hu q hq (by simp [hkq])] at hp
      exact renderAbs_inj (outComps_ok ws t o) (outComps_ok ws u q) hp
    · obtain ⟨r, ⟨t, ht, o, ho, hko, rfl⟩, s, ⟨u, hu, q, hq, hkq, rfl⟩, ⟨hne, hno⟩, hp⟩ := h
      refine ⟨t, u, ht, hu, hne, hno, o, ho, q, hq, ?_⟩
      simp only [Overlap, hko, hkq]
      simp only [pathsOverlap, Bool.or_eq_true] at hp
      rw [hpath t ht o ho (by simp [hko]), hpath u hu q hq (by simp [hkq])] at hp
      simpa [Cfg.current, within_abs_iff (outComps_ok ws t o) (outComps_ok ws u q),
        within_abs_iff (outComps_ok ws u q) (outComps_ok ws t o)] using hp
    · obtain ⟨r, ⟨t, ht, o, ho, hko, rfl⟩, s, ⟨u, hu, q, hq, hkq, rfl⟩, ⟨hne, hno⟩, hp⟩ := h
      refine ⟨t, u, ht, hu, hne, hno, o, ho, q, hq, ?_⟩
      simp only [Overlap, hko, hkq]
      simp only at hp
      rw [hpath t ht o ho (by simp [hko]), hpath u hu q hq (by simp [hkq])] at hp
      simpa [Cfg.current, within_abs_iff (outComps_ok ws u q) (outComps_ok ws t o)] using hp
  · rintro ⟨t, u, ht, hu, hne, hno, o, ho, q, hq, hov⟩
    have hno' : ¬ Ordered ns u.label t.label := fun h => hno (h.symm)
    cases hko : o.kind <;> cases hkq : q.kind <;> simp only [Overlap, hko, hkq] at hov
    · -- file, file
      left; left; right
      refine ⟨_, ⟨t, ht, o, ho, hko, rfl⟩, _, ⟨u, hu, q, hq, hkq, rfl⟩, ?_, hne, hno⟩
      simp only
      rw [hpath t ht o ho (by simp [hko]), hpath u hu q hq (by simp [hkq]), hov]
    · -- file, dir : the directory record comes first in the code's loop
      right
      refine ⟨_, ⟨u, hu, q, hq, hkq, rfl⟩, _, ⟨t, ht, o, ho, hko, rfl⟩, ⟨fun h => hne h.symm, hno'⟩, ?_⟩
      simp only
      rw [hpath t ht o ho (by simp [hko]), hpath u hu q hq (by simp [hkq])]
      simpa [Cfg.current, within_abs_iff (outComps_ok ws t o) (outComps_ok ws u q)] using hov
    · -- dir, file
      right
      refine ⟨_, ⟨t, ht, o, ho, hko, rfl⟩, _, ⟨u, hu, q, hq, hkq, rfl⟩, ⟨hne, hno⟩, ?_⟩
      simp only
      rw [hpath t ht o ho (by simp [hko]), hpath u hu q hq (by simp [hkq])]
      simpa [Cfg.current, within_abs_iff (outComps_ok ws u q) (outComps_ok ws t o)] using hov
    · -- dir, dir
      left; right
      refine ⟨_, ⟨t, ht, o, ho, hko, rfl⟩, _, ⟨u, hu, q, hq, hkq, rfl⟩, ⟨hne, hno⟩, ?_⟩
      simp only [pathsOverlap, Bool.or_eq_true]
      rw [hpath t ht o ho (by simp [hko]), hpath u hu q hq (by simp [hkq])]
      simpa [Cfg.current, within_abs_iff (outComps_ok ws t o) (outComps_ok ws u q),
        within_abs_iff (outComps_ok ws u q) (outComps_ok ws t o)] using hov
    · -- docker, docker
      left; left; left
      exact ⟨_, ⟨t, ht, o, ho, hko, rfl⟩, _, ⟨u, hu, q, hq, hkq, rfl⟩, hov, hne, hno⟩

end Grog.Analysis
