/-
  Termination of the walker model: every event strictly decreases `measure`.
-/
import GrogModel.Lemmas.Walker
namespace Grog.Walker

theorem sum_map_le {l : List Node} {g g' : Node → Nat} (h : ∀ m, m ∈ l → g' m ≤ g m) :
    (l.map g').sum ≤ (l.map g).sum := by
  induction l with
  | nil => simp
  | cons a t ih =>
    simp only [List.map_cons, List.sum_cons]
    have h1 := h a (by simp)
    have h2 := ih (fun m hm => h m (by simp [hm]))
    omega

theorem sum_map_lt {l : List Node} {g g' : Node → Nat} (h : ∀ m, m ∈ l → g' m ≤ g m)
    {n : Node} (hn : n ∈ l) (hlt : g' n < g n) : (l.map g').sum < (l.map g).sum := by
  induction l with
  | nil => simp at hn
  | cons a t ih =>
    simp only [List.map_cons, List.sum_cons]
    have h1 := h a (by simp)
    have h2 : (t.map g').sum ≤ (t.map g).sum := sum_map_le (fun m hm => h m (by simp [hm]))
    rcases List.mem_cons.mp hn with rfl | hnt
    · omega
    · have := ih (fun m hm => h m (by simp [hm])) hnt
      omega

theorem sum_map_le_length {l : List Node} {g : Node → Nat} (h : ∀ m, m ∈ l → g m ≤ 1) :
    (l.map g).sum ≤ l.length := by
  induction l with
  | nil => simp
  | cons a t ih =>
    simp only [List.map_cons, List.sum_cons, List.length_cons]
    have h1 := h a (by simp)
    have h2 := ih (fun m hm => h m (by simp [hm]))
    omega

theorem pendSum_le (c : Cfg) (s : State) : pendSum c s ≤ c.sel.length := by
  unfold pendSum
  apply sum_map_le_length
  intro m _
  split <;> omega

/-- changing the phase of one selected node to a lighter phase decreases the phase sum -/
theorem phaseSum_set_lt {c : Cfg} {s : State} {n : Node} {v : Phase} (ph' : Node → Phase)
    (hn : n ∈ c.sel) (he : ph' = set s.phase n v) (hlt : phaseWeight v < phaseWeight (s.phase n)) :
    (c.sel.map (fun m => phaseWeight (ph' m))).sum < phaseSum c s := by
  subst he
  unfold phaseSum
  apply sum_map_lt (n := n) _ hn
  · simp [set, hlt]
  · intro m _
    simp only [set]
    split
    · next h => subst h; omega
    · omega

theorem measure_step {c : Cfg} {s s' : State} {e : Ev} (hs : step c s e = some s') :
    measure c s' < measure c s := by
  have hL := pendSum_le c
  cases e with
  | wake n =>
    obtain ⟨hn, hp, _, rfl⟩ := step_wake.mp hs
    have := phaseSum_set_lt (c := c) (s := s) (n := n) (v := .running) _ hn rfl (by simp [hp, phaseWeight])
    simp only [measure, phaseSum, pendSum] at this ⊢
    omega
  | exit n =>
    obtain ⟨hn, hp, _, rfl⟩ := step_exit.mp hs
    have := phaseSum_set_lt (c := c) (s := s) (n := n) (v := .exited) _ hn rfl (by simp [hp, phaseWeight])
    simp only [measure, phaseSum, pendSum] at this ⊢
    omega
  | cbReturn n r =>
    obtain ⟨hn, hp, hr⟩ := step_cbReturn.mp hs
    rcases hr with ⟨_, rfl⟩ | ⟨_, rfl⟩ | ⟨_, _, rfl⟩ | ⟨_, _, rfl⟩
    · have := phaseSum_set_lt (c := c) (s := s) (n := n) (v := .returned true) _ hn rfl (by simp [hp, phaseWeight])
      simp only [measure, phaseSum, pendSum] at this ⊢
      omega
    · have := phaseSum_set_lt (c := c) (s := s) (n := n) (v := .returned false) _ hn rfl (by simp [hp, phaseWeight])
      simp only [measure, phaseSum, pendSum] at this ⊢
      omega
    · have := phaseSum_set_lt (c := c) (s := s) (n := n) (v := .aborted) _ hn rfl (by simp [hp, phaseWeight])
      simp only [measure, phaseSum, pendSum] at this ⊢
      omega
    · have := phaseSum_set_lt (c := c) (s := s) (n := n) (v := .returned false) _ hn rfl (by simp [hp, phaseWeight])
      simp only [measure, phaseSum, pendSum] at this ⊢
      omega
  | complete n =>
    obtain ⟨hn, hh⟩ := step_complete.mp hs
    rcases hh with ⟨hp, rfl⟩ | ⟨hp, rfl⟩
    · have := phaseSum_set_lt (c := c) (s := s) (n := n) (v := .ok) _ hn rfl (by simp [hp, phaseWeight])
      simp only [measure, phaseSum, pendSum, completeOk_phase, completeOk_pend, completeOk_ff,
        completeOk_ctx, completeOk_retErr] at this ⊢
      omega
    · have hph := phaseSum_set_lt (c := c) (s := s) (n := n) (v := .failed) _ hn rfl (by simp [hp, phaseWeight])
      by_cases hff : s.ff = true
      · have e : completeFail c s n = { s with phase := set s.phase n .failed } := by
          simp [completeFail, hff]
        rw [e]
        simp only [measure, phaseSum, pendSum] at hph ⊢
        omega
      · by_cases hF : c.failFast = true
        · have e : completeFail c s n = { s with phase := set s.phase n Phase.failed, ff := true, ctx := true, pend := fun m => s.pend m || !s.cancel m } := by
            simp [completeFail, hff, hF]
          have h1 := hL (completeFail c s n)
          rw [e] at h1 ⊢
          have hff' : s.ff = false := by simpa using hff
          simp only [measure, phaseSum, hff', ↓reduceIte, Bool.false_eq_true] at hph ⊢
          omega
        · have e : completeFail c s n = { s with phase := set s.phase n Phase.failed, cancel := fun m => s.cancel m || decide (m ∈ c.desc n) } := by
            simp [completeFail, hff, hF]
          rw [e]
          simp only [measure, phaseSum, pendSum] at hph ⊢
          omega
  | deliverCancel n =>
    obtain ⟨hn, hp, rfl⟩ := step_deliverCancel.mp hs
    have : pendSum c { s with pend := set s.pend n false, cancel := set s.cancel n true } < pendSum c s := by
      unfold pendSum
      apply sum_map_lt (n := n) _ hn
      · simp [set, hp]
      · intro m _
        simp only [set]
        by_cases hm : m = n
        · simp [hm]
        · simp [hm]
    simp only [measure, phaseSum] at this ⊢
    omega
  | ctxCancel =>
    obtain ⟨hc, rfl⟩ := step_ctxCancel.mp hs
    simp only [measure, phaseSum, pendSum, hc, ↓reduceIte, Bool.false_eq_true]
    omega
  | walkReturn b =>
    obtain ⟨hr, hh⟩ := step_walkReturn.mp hs
    rcases hh with ⟨_, _, rfl⟩ | ⟨_, _, rfl⟩
    · have h1 := hL { s with retErr := some (!s.ff), snap := s.phase, pend := fun m => s.pend m || !s.cancel m }
      simp only [measure, phaseSum, hr, Option.isSome_some, Option.isSome_none, ↓reduceIte, Bool.false_eq_true] at h1 ⊢
      omega
    · simp only [measure, phaseSum, pendSum, hr, Option.isSome_some, Option.isSome_none, ↓reduceIte, Bool.false_eq_true]
      omega

/-- a run of k events needs measure at least k -/
theorem run_length_le {c : Cfg} (tr : List Ev) {s s' : State} (h : run c s tr = some s') :
    tr.length + measure c s' ≤ measure c s := by
  induction tr generalizing s with
  | nil => simp [run] at h; subst h; simp
  | cons e es ih =>
    simp only [run] at h
    cases hs : step c s e with
    | none => simp [hs] at h
    | some s1 =>
      simp only [hs] at h
      have h1 := measure_step hs
      have h2 := ih h
      simp only [List.length_cons]
      omega

theorem sum_map_const (l : List Node) (k : Nat) : (l.map (fun _ => k)).sum = k * l.length := by
  induction l with
  | nil => simp
  | cons a t ih => simp only [List.map_cons, List.sum_cons, List.length_cons, ih]; rw [Nat.mul_succ]; omega

theorem measure_init (c : Cfg) : measure c (init c) = 5 * c.sel.length + 3 := by
  simp only [measure, phaseSum, pendSum, init, phaseWeight, Option.isSome_none, Bool.false_eq_true, ↓reduceIte]
  rw [sum_map_const, sum_map_const]
  omega

end Grog.Walker

namespace Grog.Walker

/-- from every state some finite run of walker events leads to a state in which no walker event is
    enabled (the measure bounds its length) -/
theorem exists_run_to_quiescent (c : Cfg) :
    ∀ (k : Nat) (s : State), measure c s ≤ k →
      ∃ tr s', run c s tr = some s' ∧ (∀ e, e ≠ Ev.ctxCancel → step c s' e = none) := by
  intro k
  induction k with
  | zero =>
    intro s hk
    refine ⟨[], s, rfl, ?_⟩
    intro e _
    cases hs : step c s e with
    | none => rfl
    | some s1 => have := measure_step hs; omega
  | succ k ih =>
    intro s hk
    by_cases q : ∀ e, e ≠ Ev.ctxCancel → step c s e = none
    · exact ⟨[], s, rfl, q⟩
    · have ⟨e, he⟩ := Classical.not_forall.mp q
      have ⟨hne, hsome⟩ := Classical.not_imp.mp he
      cases hs : step c s e with
      | none => exact absurd hs hsome
      | some s1 =>
        have hm := measure_step hs
        obtain ⟨tr, s', hr, hq⟩ := ih s1 (by omega)
        exact ⟨e :: tr, s', by simp [run, hs, hr], hq⟩

end Grog.Walker
