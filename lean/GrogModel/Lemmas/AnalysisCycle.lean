/-
  The list reported by the cycle search is a closed walk of the graph: it starts and ends in the same
  vertex and consecutive entries are edges (`stack[idx:] ++ [neighbor]` in `dag.FindCycle`).
-/
import GrogModel.Lemmas.AnalysisGraph
namespace Grog.Analysis
open Grog

/-- a non-empty list whose consecutive entries are edges -/
inductive Walk (succ : Label → List Label) : List Label → Prop
  | single (a : Label) : Walk succ [a]
  | cons {a b : Label} {r : List Label} : b ∈ succ a → Walk succ (b :: r) → Walk succ (a :: b :: r)

/-- starts and ends in the same vertex, at least one edge -/
def ClosedWalk (succ : Label → List Label) (c : List Label) : Prop :=
  ∃ v mid, c = v :: mid ++ [v] ∧ Walk succ c

theorem walk_snoc {succ : Label → List Label} {a b : Label} (hb : b ∈ succ a) :
    ∀ l : List Label, Walk succ (l ++ [a]) → Walk succ (l ++ [a] ++ [b]) := by
  intro l
  induction l with
  | nil => intro _; exact .cons hb (.single b)
  | cons x l' ih =>
    intro h
    cases l' with
    | nil =>
      cases h with
      | cons hxa _ => exact .cons hxa (.cons hb (.single b))
    | cons y l'' =>
      cases h with
      | cons hxy hw => exact .cons hxy (ih hw)

theorem walk_suffix {succ : Label → List Label} : ∀ (l1 l2 : List Label), l2 ≠ [] →
    Walk succ (l1 ++ l2) → Walk succ l2 := by
  intro l1
  induction l1 with
  | nil => intro l2 _ h; exact h
  | cons x l1' ih =>
    intro l2 hne h
    have h' : Walk succ (x :: (l1' ++ l2)) := h
    generalize hm : l1' ++ l2 = m at h'
    cases h' with
    | single => simp at hm; exact absurd hm.2 hne
    | cons _ hw => exact ih l2 hne (hm ▸ hw)

theorem walk_tpath {succ : Label → List Label} : ∀ (l : List Label) (a b : Label),
    Walk succ (a :: l ++ [b]) → TPath (stepOf succ) a b := by
  intro l
  induction l with
  | nil =>
    intro a b h
    cases h with
    | cons hab _ => exact .single hab
  | cons x l' ih =>
    intro a b h
    cases h with
    | cons hax hw => exact .cons hax (ih x b hw)

theorem ClosedWalk.tpath {succ : Label → List Label} {c : List Label} (h : ClosedWalk succ c) :
    ∃ v, TPath (stepOf succ) v v := by
  obtain ⟨v, mid, rfl, hw⟩ := h
  exact ⟨v, walk_tpath mid v v hw⟩

theorem split_at_mem {v : Label} : ∀ (l : List Label), v ∈ l →
    ∃ post, l = l.takeWhile (· ≠ v) ++ v :: post := by
  intro l
  induction l with
  | nil => intro h; cases h
  | cons x l' ih =>
    intro h
    by_cases hx : x = v
    · subst hx; exact ⟨l', by simp⟩
    · have hv : v ∈ l' := by
        rcases List.mem_cons.mp h with h | h
        · exact absurd h.symm hx
        · exact h
      obtain ⟨post, hp⟩ := ih hv
      refine ⟨post, ?_⟩
      simp only [List.takeWhile_cons, ne_eq, hx, not_false_eq_true, decide_true, if_true, List.cons_append]
      exact congrArg _ hp

/-- `stack[idx:] ++ [neighbor]` is a closed walk when the stack (bottom to top) is a walk, `neighbor` is a
    successor of the top, and `neighbor` is on the stack -/
theorem cycleFrom_closedWalk {succ : Label → List Label} {t v : Label} {rest : List Label}
    (hw : Walk succ (t :: rest).reverse) (hv : v ∈ succ t) (hm : v ∈ t :: rest) :
    ClosedWalk succ (cycleFrom (t :: rest) v) := by
  obtain ⟨post, hp⟩ := split_at_mem (t :: rest) hm
  refine ⟨v, ((t :: rest).takeWhile (· ≠ v)).reverse, rfl, ?_⟩
  unfold cycleFrom
  -- the part of the stack from `v` upwards is a walk
  have hsuf : Walk succ (v :: ((t :: rest).takeWhile (· ≠ v)).reverse) := by
    have : (t :: rest).reverse = post.reverse ++ (v :: ((t :: rest).takeWhile (· ≠ v)).reverse) := by
      conv => lhs; rw [hp]
      simp
    rw [this] at hw
    exact walk_suffix _ _ (by simp) hw
  -- its last entry is the top `t`
  by_cases htv : t = v
  · subst htv
    have : (t :: rest).takeWhile (· ≠ t) = [] := by simp
    rw [this]
    exact .cons hv (.single t)
  · have : (t :: rest).takeWhile (· ≠ v) = t :: rest.takeWhile (· ≠ v) := by
      simp [htv]
    rw [this] at hsuf ⊢
    simp only [List.reverse_cons] at hsuf ⊢
    have h := walk_snoc hv (v :: (rest.takeWhile (· ≠ v)).reverse) (by simpa using hsuf)
    simpa using h

section
variable (succ : Label → List Label)

/-- what a recursive call has to guarantee about a reported cycle -/
def RecWalk (rec : List Label → List Label → Label → DfsRes) (stack : List Label) : Prop :=
  ∀ black v c, Walk succ (stack.reverse ++ [v]) → rec stack black v = .cycle c → ClosedWalk succ c

theorem visitList_cycle (rec : List Label → List Label → Label → DfsRes) (t : Label) (rest : List Label)
    (hrec : RecWalk succ rec (t :: rest)) (hw : Walk succ (t :: rest).reverse) :
    ∀ (vs black : List Label) (c : List Label), (∀ v ∈ vs, v ∈ succ t) →
      visitList rec (t :: rest) vs black = .cycle c → ClosedWalk succ c := by
  intro vs
  induction vs with
  | nil => intro black c _ h; simp [visitList] at h
  | cons v vs ih =>
    intro black c hvs h
    have hv : v ∈ succ t := hvs v List.mem_cons_self
    have hvs' : ∀ w ∈ vs, w ∈ succ t := fun w hw => hvs w (List.mem_cons_of_mem _ hw)
    simp only [visitList] at h
    split at h
    · exact ih black c hvs' h
    · split at h
      · rename_i hst
        simp only [DfsRes.cycle.injEq] at h
        subst h
        exact cycleFrom_closedWalk hw hv hst
      · have hw' : Walk succ ((t :: rest).reverse ++ [v]) := by
          have := walk_snoc hv rest.reverse (by simpa using hw)
          simpa using this
        cases hr : rec (t :: rest) black v with
        | cycle c' =>
          simp only [hr, DfsRes.cycle.injEq] at h
          subst h
          exact hrec black v c' hw' hr
        | ok b' =>
          simp only [hr] at h
          exact ih b' c hvs' h
        | fuel => simp [hr] at h

theorem visit_cycle : ∀ (f : Nat) (stack : List Label), RecWalk succ (visit succ f) stack := by
  intro f
  induction f with
  | zero => intro stack black v c _ h; simp [visit] at h
  | succ f ih =>
    intro stack black u c hw h
    simp only [visit] at h
    cases hr : visitList (visit succ f) (u :: stack) (succ u) black with
    | cycle c' =>
      simp only [hr, DfsRes.cycle.injEq] at h
      subst h
      exact visitList_cycle succ (visit succ f) u stack (ih (u :: stack)) (by simpa using hw)
        (succ u) black c' (fun v hv => hv) hr
    | ok b' => simp [hr] at h
    | fuel => simp [hr] at h

theorem findCycleFrom_cycle (fuel : Nat) : ∀ (starts black : List Label) (c : List Label),
    findCycleFrom succ fuel starts black = .cycle c → ClosedWalk succ c := by
  intro starts
  induction starts with
  | nil => intro black c h; simp [findCycleFrom] at h
  | cons n ns ih =>
    intro black c h
    simp only [findCycleFrom] at h
    split at h
    · exact ih black c h
    · cases hr : visit succ fuel [] black n with
      | cycle c' =>
        simp only [hr, DfsRes.cycle.injEq] at h
        subst h
        exact visit_cycle succ fuel [] black n c' (by simpa using Walk.single n) hr
      | ok b' =>
        simp only [hr] at h
        exact ih b' c h
      | fuel => simp [hr] at h

/-- the list reported by `FindCycle` is a closed walk of the graph -/
theorem findCycleG_closedWalk (V : List Label) (c : List Label) (h : findCycleG V succ = .cycle c) :
    ClosedWalk succ c :=
  findCycleFrom_cycle succ V.length (sortLabels V) [] c h

end

end Grog.Analysis
