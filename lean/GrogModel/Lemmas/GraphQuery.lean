/-
  Lemmas for the query commands: the bytewise string order is a strict total order, `sort.Strings`
  followed by `slices.Compact` yields a strictly increasing list with the same members.
-/
import GrogModel.Query
import GrogModel.Lemmas.GraphDfs
import GrogModel.Lemmas.Label
namespace Grog

/-! ### bytewise order -/

theorem bytesLt_irrefl : ∀ a : Bytes, bytesLt a a = false
  | [] => rfl
  | a :: as => by
    simp only [bytesLt, bytesLt_irrefl as, Bool.and_false, Bool.or_false, decide_eq_false_iff_not]
    exact UInt8.lt_irrefl a

theorem bytesLt_trans : ∀ a b c : Bytes, bytesLt a b = true → bytesLt b c = true → bytesLt a c = true
  | [], [], _ => by simp [bytesLt]
  | [], _ :: _, [] => by simp [bytesLt]
  | [], _ :: _, _ :: _ => by simp [bytesLt]
  | _ :: _, [], _ => by simp [bytesLt]
  | _ :: _, _ :: _, [] => by simp [bytesLt]
  | a :: as, b :: bs, c :: cs => by
    simp only [bytesLt, Bool.or_eq_true, decide_eq_true_eq, Bool.and_eq_true, beq_iff_eq]
    intro h1 h2
    rcases h1 with h1 | ⟨h1, h1'⟩ <;> rcases h2 with h2 | ⟨h2, h2'⟩
    · exact Or.inl (UInt8.lt_trans h1 h2)
    · subst h2; exact Or.inl h1
    · subst h1; exact Or.inl h2
    · subst h1; subst h2; exact Or.inr ⟨rfl, bytesLt_trans as bs cs h1' h2'⟩

theorem bytesLt_trichotomy : ∀ a b : Bytes, bytesLt a b = true ∨ a = b ∨ bytesLt b a = true
  | [], [] => Or.inr (Or.inl rfl)
  | [], _ :: _ => Or.inl rfl
  | _ :: _, [] => Or.inr (Or.inr rfl)
  | a :: as, b :: bs => by
    simp only [bytesLt, Bool.or_eq_true, decide_eq_true_eq, Bool.and_eq_true, beq_iff_eq, List.cons.injEq]
    have hab : a < b ∨ a = b ∨ b < a := by
      rw [UInt8.lt_iff_toNat_lt, UInt8.lt_iff_toNat_lt, ← UInt8.toNat_inj]; omega
    rcases hab with h | h | h
    · exact Or.inl (Or.inl h)
    · subst h
      rcases bytesLt_trichotomy as bs with h' | h' | h'
      · exact Or.inl (Or.inr ⟨rfl, h'⟩)
      · exact Or.inr (Or.inl ⟨rfl, h'⟩)
      · exact Or.inr (Or.inr (Or.inr ⟨rfl, h'⟩))
    · exact Or.inr (Or.inr (Or.inl h))

theorem bytesLt_asymm (a b : Bytes) (h : bytesLt a b = true) : bytesLt b a = false := by
  cases h' : bytesLt b a with
  | false => rfl
  | true => have := bytesLt_trans a b a h h'; rw [bytesLt_irrefl] at this; cases this

theorem bytesLe_total (a b : Bytes) : (bytesLe a b || bytesLe b a) = true := by
  simp only [bytesLe, Bool.or_eq_true, Bool.not_eq_true']
  cases h : bytesLt b a with
  | false => exact Or.inl rfl
  | true => exact Or.inr (bytesLt_asymm b a h)

theorem bytesLe_trans (a b c : Bytes) (h1 : bytesLe a b = true) (h2 : bytesLe b c = true) : bytesLe a c = true := by
  simp only [bytesLe, Bool.not_eq_true'] at *
  cases h : bytesLt c a with
  | false => rfl
  | true =>
    -- c < a; b ≮ a hence a ≤ b: then c < b, contradicting c ≮ b... via trichotomy on a, b
    rcases bytesLt_trichotomy a b with hab | hab | hab
    · have := bytesLt_trans c a b h hab; rw [h2] at this; cases this
    · subst hab; rw [h2] at h; cases h
    · rw [h1] at hab; cases hab

/-- `a ≤ b` and `a ≠ b` is `a < b` -/
theorem bytesLt_of_le_of_ne (a b : Bytes) (h : bytesLe a b = true) (hne : a ≠ b) : bytesLt a b = true := by
  simp only [bytesLe, Bool.not_eq_true'] at h
  rcases bytesLt_trichotomy a b with hab | hab | hab
  · exact hab
  · exact absurd hab hne
  · rw [h] at hab; cases hab

/-! ### Compact -/

theorem mem_compact : ∀ (l : List Bytes) (x : Bytes), x ∈ compact l ↔ x ∈ l
  | [], _ => by simp [compact]
  | [a], _ => by simp [compact]
  | a :: b :: t, x => by
    simp only [compact]
    by_cases h : a = b
    · subst h; simp [mem_compact (a :: t) x]
    · simp [h, mem_compact (b :: t) x]

/-- compacting a sorted list gives a strictly increasing list -/
theorem compact_strict : ∀ (l : List Bytes), l.Pairwise (fun a b => bytesLe a b = true) →
    (compact l).Pairwise (fun a b => bytesLt a b = true)
  | [], _ => by simp [compact]
  | [a], _ => by simp [compact]
  | a :: b :: t, hp => by
    have hp' := List.pairwise_cons.mp hp
    have ih := compact_strict (b :: t) hp'.2
    simp only [compact]
    by_cases h : a = b
    · subst h; simpa using ih
    · simp only [beq_iff_eq, h, ↓reduceIte]
      refine List.pairwise_cons.mpr ⟨?_, ih⟩
      intro x hx
      have hx' := (mem_compact (b :: t) x).mp hx
      have hab : bytesLt a b = true := bytesLt_of_le_of_ne a b (hp'.1 b (List.mem_cons_self ..)) h
      rcases List.mem_cons.mp hx' with rfl | hxt
      · exact hab
      · -- a < b ≤ x
        have hbx : bytesLe b x = true := (List.pairwise_cons.mp hp'.2).1 x hxt
        by_cases hbx' : b = x
        · subst hbx'; exact hab
        · exact bytesLt_trans a b x hab (bytesLt_of_le_of_ne b x hbx hbx')

theorem strict_nodup (l : List Bytes) (h : l.Pairwise (fun a b => bytesLt a b = true)) : l.Nodup := by
  refine List.Pairwise.imp ?_ h
  intro a b hab heq
  subst heq; rw [bytesLt_irrefl] at hab; cases hab

/-- `sort.Strings` then `slices.Compact`: strictly increasing, same members -/
theorem sortCompact_spec (l : List Bytes) :
    (compact (l.mergeSort bytesLe)).Pairwise (fun a b => bytesLt a b = true) ∧
    ∀ x, x ∈ compact (l.mergeSort bytesLe) ↔ x ∈ l := by
  refine ⟨compact_strict _ (List.pairwise_mergeSort bytesLe_trans bytesLe_total l), ?_⟩
  intro x
  rw [mem_compact]
  exact (List.mergeSort_perm l bytesLe).mem_iff

theorem mem_labelStrings {g : BuildGraph} {idx : List Nat} {x : Bytes} :
    x ∈ labelStrings g idx ↔ ∃ i ∈ idx, ∃ n, g.nodes[i]? = some n ∧ x = n.label.toBytes := by
  simp only [labelStrings, List.mem_filterMap, Option.map_eq_some_iff]
  constructor
  · rintro ⟨i, hi, n, hn, rfl⟩; exact ⟨i, hi, n, hn, rfl⟩
  · rintro ⟨i, hi, n, hn, rfl⟩; exact ⟨i, hi, n, hn, rfl⟩

/-- what `PrintSorted` prints: strictly increasing (so each line once), and exactly the label strings
    of the given nodes -/
theorem printSorted_spec (g : BuildGraph) (idx : List Nat) :
    (printSorted g idx).Pairwise (fun a b => bytesLt a b = true) ∧
    ∀ x, x ∈ printSorted g idx ↔ ∃ i ∈ idx, ∃ n, g.nodes[i]? = some n ∧ x = n.label.toBytes := by
  have := sortCompact_spec (labelStrings g idx)
  refine ⟨this.1, fun x => ?_⟩
  rw [printSorted, this.2 x, mem_labelStrings]

theorem mem_foldl_dedup (l acc : List Nat) (x : Nat) :
    x ∈ l.foldl (fun acc x => if acc.contains x then acc else acc ++ [x]) acc ↔ x ∈ acc ∨ x ∈ l := by
  induction l generalizing acc with
  | nil => simp
  | cons a t ih =>
    simp only [List.foldl_cons, List.mem_cons]
    rw [ih]
    by_cases h : a ∈ acc
    · simp only [List.contains_iff_mem, h, ↓reduceIte]
      constructor
      · rintro (h1 | h1); exact Or.inl h1; exact Or.inr (Or.inr h1)
      · rintro (h1 | rfl | h1); exact Or.inl h1; exact Or.inl h; exact Or.inr h1
    · simp only [List.contains_iff_mem, h, ↓reduceIte, List.mem_append, List.mem_singleton]
      constructor
      · rintro ((h1 | rfl) | h1); exact Or.inl h1; exact Or.inr (Or.inl rfl); exact Or.inr (Or.inr h1)
      · rintro (h1 | rfl | h1); exact Or.inl (Or.inl h1); exact Or.inl (Or.inr rfl); exact Or.inr h1

theorem mem_dedupNodes (l : List Nat) (x : Nat) : x ∈ dedupNodes l ↔ x ∈ l := by
  unfold dedupNodes
  rw [mem_foldl_dedup]
  simp

/-- labels with colon-free package paths print injectively -/
theorem toBytes_inj (l1 l2 : Label) (h1 : cColon ∉ l1.pkg) (h2 : cColon ∉ l2.pkg)
    (h : l1.toBytes = l2.toBytes) : l1 = l2 := by
  have h' : l1.pkg ++ cColon :: l1.name = l2.pkg ++ cColon :: l2.name := by
    simpa [Label.toBytes, slash2] using h
  have hp : l1.pkg = l2.pkg := by
    have := congrArg (fun l => l.takeWhile (· != cColon)) h'
    simpa [takeWhile_colon_append h1, takeWhile_colon_append h2] using this
  have hn : l1.name = l2.name := by
    rw [hp] at h'
    have := List.append_cancel_left h'
    simpa using this
  cases l1; cases l2; simp_all

/-- the trivial query selector (`--target-type=all`, no tags) on a host with `--all-platforms`
    lets every node through -/
theorem matchAt_trivial (g : BuildGraph) (plat : Bytes) (i : Nat) (n : Node) (hn : g.nodes[i]? = some n) :
    g.matchAt (querySelector [] [] .all) ⟨plat, true⟩ i = true := by
  simp only [BuildGraph.matchAt, BuildGraph.matchesAt, BuildGraph.platAt, hn, matchesFilters,
    querySelector, patternsOK, typeOK, tagsOK, excluded, platformOK]
  cases n.isTarget <;> simp

end Grog
