/-
  Lemmas about the pure file system of GrogModel/Tree.lean: lookups after updates,
  RemoveAll / MkdirAll / setAt along a path.
-/
import GrogModel.Tree
namespace Grog

theorem lookupE_setE (es : List (Name × Entry)) (n m : Name) (e : Entry) :
    lookupE (setE es n e) m = if n = m then some e else lookupE es m := by
  induction es with
  | nil => simp [setE, lookupE]
  | cons h t ih =>
    obtain ⟨k, c⟩ := h
    by_cases hk : k = n
    · subst hk
      by_cases hm : k = m <;> simp [setE, lookupE, hm]
    · by_cases hm : k = m
      · subst hm
        have : ¬ n = k := fun h => hk h.symm
        simp [setE, lookupE, hk, this]
      · simp [setE, lookupE, hk, hm, ih]

theorem lookupE_setE_self (es : List (Name × Entry)) (n : Name) (e : Entry) :
    lookupE (setE es n e) n = some e := by simp [lookupE_setE]

theorem lookupE_eraseE_self (es : List (Name × Entry)) (n : Name) :
    lookupE (eraseE es n) n = none := by
  induction es with
  | nil => simp [eraseE, lookupE]
  | cons h t ih =>
    obtain ⟨k, c⟩ := h
    by_cases hk : k = n <;> simp [eraseE, lookupE, hk, ih]

theorem lookupE_eraseE_ne (es : List (Name × Entry)) (n m : Name) (h : n ≠ m) :
    lookupE (eraseE es n) m = lookupE es m := by
  induction es with
  | nil => simp [eraseE, lookupE]
  | cons hd t ih =>
    obtain ⟨k, c⟩ := hd
    by_cases hk : k = n
    · subst hk; simp [eraseE, lookupE, h, ih]
    · by_cases hm : k = m
      · subst hm; simp [eraseE, lookupE, hk]
      · simp [eraseE, lookupE, hk, hm, ih]

namespace Entry

@[simp] theorem get_nil (e : Entry) : e.get [] = some e := by cases e <;> rfl

theorem get_dir_cons (es : List (Name × Entry)) (n : Name) (p : Path) :
    (Entry.dir es).get (n :: p) = (lookupE es n).bind (fun c => c.get p) := by
  simp only [get]
  cases lookupE es n <;> rfl

theorem get_file_cons (b : Bytes) (x : Bool) (n : Name) (p : Path) : (Entry.file b x).get (n :: p) = none := rfl
theorem get_link_cons (t : Bytes) (n : Name) (p : Path) : (Entry.link t).get (n :: p) = none := rfl

theorem get_empty_dir_cons (n : Name) (p : Path) : (Entry.dir []).get (n :: p) = none := by
  simp [get_dir_cons, lookupE]

/-- if something exists below `q`, then `q` names a directory -/
theorem parent_dir_of_get {fs : Entry} {q : Path} {n : Name} {e : Entry}
    (h : fs.get (q ++ [n]) = some e) : ∃ es, fs.get q = some (.dir es) := by
  induction q generalizing fs with
  | nil =>
    cases fs with
    | dir es => exact ⟨es, rfl⟩
    | file b x => simp [get_file_cons] at h
    | link t => simp [get_link_cons] at h
  | cons m q ih =>
    cases fs with
    | dir es =>
      simp only [List.cons_append, get_dir_cons] at h ⊢
      cases hl : lookupE es m with
      | none => simp [hl] at h
      | some c =>
        simp only [hl, Option.bind_some] at h ⊢
        exact ih h
    | file b x => simp [get_file_cons] at h
    | link t => simp [get_link_cons] at h

end Entry

/-- `MkdirAll p` would succeed: no component of `p` names an existing non-directory. -/
def Clear : Entry → Path → Prop
  | .dir _, [] => True
  | .dir es, n :: p =>
    match lookupE es n with
    | none => True
    | some c => Clear c p
  | _, _ => False

theorem clear_empty (p : Path) : Clear (.dir []) p := by
  cases p <;> simp [Clear, lookupE]

theorem clear_getD {es : List (Name × Entry)} {n : Name} {p : Path} (h : Clear (.dir es) (n :: p)) :
    Clear ((lookupE es n).getD (.dir [])) p := by
  simp only [Clear] at h
  cases hl : lookupE es n with
  | none => simpa using clear_empty p
  | some c => simpa [hl] using h

theorem clear_is_dir {fs : Entry} {p : Path} (h : Clear fs p) : ∃ es, fs = .dir es := by
  cases fs with
  | dir es => exact ⟨es, rfl⟩
  | file b x => cases p <;> simp [Clear] at h
  | link t => cases p <;> simp [Clear] at h

/-- `MkdirAll q` on a clear path: succeeds, `q` is then a directory, and what was below `q` is unchanged. -/
theorem mkdirAll_spec {fs : Entry} {q : Path} (h : Clear fs q) :
    ∃ fs1, mkdirAll fs q = .ok fs1 ∧ (∃ es, fs1.get q = some (.dir es)) ∧
      ∀ n, fs1.get (q ++ [n]) = fs.get (q ++ [n]) := by
  induction q generalizing fs with
  | nil =>
    obtain ⟨es, rfl⟩ := clear_is_dir h
    exact ⟨.dir es, rfl, ⟨es, by simp⟩, fun n => rfl⟩
  | cons m q ih =>
    obtain ⟨es, rfl⟩ := clear_is_dir h
    obtain ⟨c', hc', ⟨es', hd⟩, hb⟩ := ih (clear_getD h)
    refine ⟨.dir (setE es m c'), by simp [mkdirAll, hc'], ⟨es', ?_⟩, ?_⟩
    · simp [Entry.get_dir_cons, lookupE_setE_self, hd]
    · intro n
      simp only [List.cons_append, Entry.get_dir_cons, lookupE_setE_self, Option.bind_some, hb]
      cases hl : lookupE es m with
      | none => cases q <;> simp [Entry.get_empty_dir_cons]
      | some c => simp

/-- replacing the object at `q ++ [n]` when `q` is a directory -/
theorem setAt_spec {fs : Entry} {q : Path} {n : Name} (e : Entry)
    (h : ∃ es, fs.get q = some (.dir es)) :
    ∃ fs', setAt fs (q ++ [n]) e = .ok fs' ∧ fs'.get (q ++ [n]) = some e := by
  induction q generalizing fs with
  | nil =>
    obtain ⟨es, h⟩ := h
    simp at h; subst h
    exact ⟨.dir (setE es n e), rfl, by simp [Entry.get_dir_cons, lookupE_setE_self]⟩
  | cons m q ih =>
    obtain ⟨es', h⟩ := h
    cases fs with
    | dir es =>
      simp only [Entry.get_dir_cons] at h
      cases hl : lookupE es m with
      | none => simp [hl] at h
      | some c =>
        simp only [hl, Option.bind_some] at h
        obtain ⟨c', hs, hg⟩ := ih (fs := c) ⟨es', h⟩
        refine ⟨.dir (setE es m c'), ?_, ?_⟩
        · cases q with
          | nil => simp only [List.nil_append] at hs; simp [setAt, hl, hs]
          | cons a q' => simp only [List.cons_append] at hs; simp [setAt, hl, hs]
        · simp [Entry.get_dir_cons, lookupE_setE_self, hg]
    | file b x => simp [Entry.get_file_cons] at h
    | link t => simp [Entry.get_link_cons] at h

/-- `RemoveAll (q ++ [n])` when the parent chain `q` is clear: succeeds and leaves the whole path clear -/
theorem removeAll_spec {fs : Entry} {q : Path} {n : Name} (h : Clear fs q) :
    ∃ fs1, removeAll fs (q ++ [n]) = .ok fs1 ∧ Clear fs1 (q ++ [n]) := by
  induction q generalizing fs with
  | nil =>
    obtain ⟨es, rfl⟩ := clear_is_dir h
    refine ⟨.dir (eraseE es n), rfl, ?_⟩
    simp [Clear, lookupE_eraseE_self]
  | cons m q ih =>
    obtain ⟨es, rfl⟩ := clear_is_dir h
    cases hl : lookupE es m with
    | none =>
      refine ⟨.dir es, ?_, ?_⟩
      · cases q <;> simp [removeAll, hl]
      · simp [Clear, hl]
    | some c =>
      have hc : Clear c q := by simpa [Clear, hl] using h
      obtain ⟨c', hr, hcl⟩ := ih hc
      refine ⟨.dir (setE es m c'), ?_, ?_⟩
      · cases q <;> simp_all [removeAll]
      · simp [Clear, lookupE_setE_self, hcl]

/-- a clear path has clear prefixes -/
theorem clear_prefix {fs : Entry} {q : Path} {n : Name} (h : Clear fs (q ++ [n])) : Clear fs q := by
  induction q generalizing fs with
  | nil =>
    obtain ⟨es, rfl⟩ := clear_is_dir h
    simp [Clear]
  | cons m q ih =>
    obtain ⟨es, rfl⟩ := clear_is_dir h
    simp only [List.cons_append, Clear] at h ⊢
    cases hl : lookupE es m with
    | none => simp
    | some c => simp only [hl] at h ⊢; exact ih h

/-- after `RemoveAll (q ++ [n])` nothing is at that path -/
theorem get_removeAll_self {fs fs1 : Entry} {q : Path} {n : Name} (h : removeAll fs (q ++ [n]) = .ok fs1) :
    fs1.get (q ++ [n]) = none := by
  induction q generalizing fs fs1 with
  | nil =>
    cases fs with
    | dir es =>
      simp [removeAll] at h; subst h
      simp [Entry.get_dir_cons, lookupE_eraseE_self]
    | file b x => simp [removeAll] at h
    | link t => simp [removeAll] at h
  | cons m q ih =>
    cases fs with
    | dir es =>
      cases q with
      | nil =>
        simp only [List.cons_append, List.nil_append, removeAll] at h
        cases hl : lookupE es m with
        | none =>
          simp [hl] at h; subst h
          simp [Entry.get_dir_cons, hl]
        | some c =>
          simp only [hl] at h
          cases hr : removeAll c [n] with
          | error e => simp [hr] at h
          | ok c' =>
            simp [hr] at h; subst h
            have := ih (fs := c) (fs1 := c') (by simpa using hr)
            simpa [Entry.get_dir_cons, lookupE_setE_self] using this
      | cons y ys =>
        simp only [List.cons_append, removeAll] at h
        cases hl : lookupE es m with
        | none =>
          simp [hl] at h; subst h
          simp [Entry.get_dir_cons, hl]
        | some c =>
          simp only [hl] at h
          cases hr : removeAll c (y :: (ys ++ [n])) with
          | error e => simp [hr] at h
          | ok c' =>
            simp [hr] at h; subst h
            have := ih (fs := c) (fs1 := c') (by simpa using hr)
            simpa [Entry.get_dir_cons, lookupE_setE_self] using this
    | file b x => simp [removeAll] at h
    | link t => simp [removeAll] at h

/-- the load path of the repaired file restore succeeds from every prior state with clear ancestors, whatever sits at the
    destination, and leaves the fetched content with the stored executable bit there -/
theorem restoreFileLoad_fixed_spec {fs : Entry} {q : Path} {n : Name} (d : Digest) (x : Bool) (cas : Cas) (c : Bytes)
    (hpar : Clear fs q) (hcas : cas.get d = some c) :
    ∃ fs', restoreFileLoad .fixed d x cas fs (q ++ [n]) = .ok fs' ∧ fs'.get (q ++ [n]) = some (.file c x) := by
  have hp : parentOf (q ++ [n]) = q := by simp [parentOf]
  have create : ∀ fsx : Entry, Clear fsx q → (∀ e, fsx.get (q ++ [n]) = some e → ∃ b' x', e = .file b' x') →
      ∃ fs', (match mkdirAll fsx q with
        | .error e => Except.error e
        | .ok fs1 => createFile fs1 (q ++ [n]) c (some x)) = .ok fs' ∧ fs'.get (q ++ [n]) = some (.file c x) := by
    intro fsx hcl hreg
    obtain ⟨fs1, hm, hdir, hbelow⟩ := mkdirAll_spec hcl
    obtain ⟨fs', hs, hg⟩ := setAt_spec (n := n) (.file c x) hdir
    refine ⟨fs', ?_, hg⟩
    simp only [hm, createFile, hbelow n]
    cases hget : fsx.get (q ++ [n]) with
    | none => simpa using hs
    | some e =>
      obtain ⟨b', x', rfl⟩ := hreg e hget
      simpa using hs
  simp only [restoreFileLoad, hcas, hp]
  cases hget : fs.get (q ++ [n]) with
  | none => exact create fs hpar (fun e he => by rw [hget] at he; cases he)
  | some e =>
    cases e with
    | file b' x' => exact create fs hpar (fun e he => by rw [hget] at he; cases he; exact ⟨b', x', rfl⟩)
    | dir es =>
      obtain ⟨fs0', hr, hcl⟩ := removeAll_spec (n := n) hpar
      simp only [hr]
      exact create fs0' (clear_prefix hcl) (fun e he => by rw [get_removeAll_self hr] at he; cases he)
    | link t =>
      obtain ⟨fs0', hr, hcl⟩ := removeAll_spec (n := n) hpar
      simp only [hr]
      exact create fs0' (clear_prefix hcl) (fun e he => by rw [get_removeAll_self hr] at he; cases he)

end Grog
