/-
  At most once, on the build model: in one invocation (`Build.build`, mode `all`) the command of a target is executed at
  most once and only for targets of the order. Core Lean only.
-/
import GrogModel.Lemmas.BuildReexec
namespace Grog.Build
open Grog Grog.Exec

variable {κ : Type} [DecidableEq κ]

theorem stepTarget_log_cases (P : Params κ) (cfg : Cfg) (defs : Defs) (fuel : Nat) (hm : cfg.minimal = false)
    (hlab : ∀ l t, defs l = some t → t.label = l) (s : BState κ) (l : Lbl) :
    (stepTarget P cfg defs fuel s l).log = s.log ∨ (stepTarget P cfg defs fuel s l).log = l :: s.log := by
  unfold stepTarget
  cases hd : defs l with
  | none => exact Or.inl rfl
  | some t =>
    have := buildTarget_log_cases P cfg defs fuel t s hm
    rw [hlab l t hd] at this
    exact this

theorem run_log_once (P : Params κ) (cfg : Cfg) (defs : Defs) (fuel : Nat) (hm : cfg.minimal = false)
    (hlab : ∀ l t, defs l = some t → t.label = l) :
    ∀ (order : List Lbl) (s : BState κ), order.Nodup → s.log.Nodup → (∀ l ∈ order, l ∉ s.log) →
      (run P cfg defs fuel order s).log.Nodup ∧ ∀ l ∈ (run P cfg defs fuel order s).log, l ∈ s.log ∨ l ∈ order := by
  intro order
  induction order with
  | nil => intro s _ hs _; exact ⟨hs, fun l hl => Or.inl hl⟩
  | cons a rest ih =>
    intro s ho hs hfresh
    have ⟨ha, hrest⟩ := List.nodup_cons.mp ho
    have hrun : run P cfg defs fuel (a :: rest) s = run P cfg defs fuel rest (stepTarget P cfg defs fuel s a) := by
      simp [run, List.foldl_cons]
    rw [hrun]
    have hc := stepTarget_log_cases P cfg defs fuel hm hlab s a
    have hnd1 : (stepTarget P cfg defs fuel s a).log.Nodup := by
      rcases hc with h | h <;> rw [h]
      · exact hs
      · exact List.nodup_cons.mpr ⟨hfresh a (by simp), hs⟩
    have hfresh1 : ∀ l ∈ rest, l ∉ (stepTarget P cfg defs fuel s a).log := by
      intro l hl
      have h1 : l ∉ s.log := hfresh l (by simp [hl])
      have h2 : l ≠ a := fun e => ha (e ▸ hl)
      rcases hc with h | h <;> rw [h]
      · exact h1
      · simp [h1, h2]
    obtain ⟨r1, r2⟩ := ih _ hrest hnd1 hfresh1
    refine ⟨r1, fun l hl => ?_⟩
    rcases r2 l hl with h | h
    · rcases hc with e | e <;> rw [e] at h
      · exact Or.inl h
      · rcases List.mem_cons.mp h with h | h
        · exact Or.inr (by simp [h])
        · exact Or.inl h
    · exact Or.inr (by simp [h])

/-- one invocation in mode `all` over a duplicate-free order: every label occurs at most once in the execution log and
    only labels of the order occur -/
theorem build_log_once (P : Params κ) (cfg : Cfg) (w : World κ) (order : List Lbl) (hm : cfg.minimal = false)
    (hlab : ∀ l t, w.defs l = some t → t.label = l) (ho : order.Nodup) :
    (build P cfg w order).log.Nodup ∧ ∀ l ∈ (build P cfg w order).log, l ∈ order := by
  obtain ⟨h1, h2⟩ := run_log_once P cfg w.defs (fuelFor order) hm hlab order (start w) ho (by simp [start]) (by simp [start])
  refine ⟨h1, fun l hl => ?_⟩
  rcases h2 l hl with h | h
  · simp [start] at h
  · exact h

end Grog.Build
