import GrogModel.Hash
namespace Grog

/-! ### the bytewise order -/

theorem bytesLeH_refl : ∀ a : Bytes, bytesLeH a a = true
  | [] => rfl
  | a :: as => by simp [bytesLeH, bytesLeH_refl as]

theorem bytesLeH_total : ∀ a b : Bytes, (bytesLeH a b || bytesLeH b a) = true
  | [], _ => by simp [bytesLeH]
  | _ :: _, [] => by simp [bytesLeH]
  | a :: as, b :: bs => by
    have ih := bytesLeH_total as bs
    simp only [bytesLeH]
    rcases Nat.lt_trichotomy a.toNat b.toNat with h | h | h
    · have : a < b := UInt8.lt_iff_toNat_lt.mpr h
      simp [this]
    · have : a = b := UInt8.toNat_inj.mp h
      subst this
      simpa using ih
    · have : b < a := UInt8.lt_iff_toNat_lt.mpr h
      simp [this]

theorem bytesLeH_trans : ∀ a b c : Bytes, bytesLeH a b = true → bytesLeH b c = true → bytesLeH a c = true
  | [], _, _, _, _ => by simp [bytesLeH]
  | _ :: _, [], _, h, _ => by simp [bytesLeH] at h
  | _ :: _, _ :: _, [], _, h => by simp [bytesLeH] at h
  | a :: as, b :: bs, c :: cs, h1, h2 => by
    simp only [bytesLeH, Bool.or_eq_true, decide_eq_true_eq, Bool.and_eq_true, beq_iff_eq] at *
    rcases h1 with h1 | ⟨h1, h1'⟩ <;> rcases h2 with h2 | ⟨h2, h2'⟩
    · left; exact UInt8.lt_trans h1 h2
    · left; subst h2; exact h1
    · left; subst h1; exact h2
    · right; exact ⟨h1.trans h2, bytesLeH_trans as bs cs h1' h2'⟩

theorem bytesLeH_antisymm : ∀ a b : Bytes, bytesLeH a b = true → bytesLeH b a = true → a = b
  | [], [], _, _ => rfl
  | [], _ :: _, _, h => by simp [bytesLeH] at h
  | _ :: _, [], h, _ => by simp [bytesLeH] at h
  | a :: as, b :: bs, h1, h2 => by
    simp only [bytesLeH, Bool.or_eq_true, decide_eq_true_eq, Bool.and_eq_true, beq_iff_eq] at *
    rcases h1 with h1 | ⟨h1, h1'⟩ <;> rcases h2 with h2 | ⟨h2, h2'⟩
    · exact absurd (UInt8.lt_trans h1 h2) (UInt8.lt_irrefl _)
    · subst h2; exact absurd h1 (UInt8.lt_irrefl _)
    · subst h1; exact absurd h2 (UInt8.lt_irrefl _)
    · subst h1; rw [bytesLeH_antisymm as bs h1' h2']

/-! ### sorting is canonical -/

theorem sortBytes_perm (l : List Bytes) : (sortBytes l).Perm l := List.mergeSort_perm l _

theorem sortBytes_pairwise (l : List Bytes) : (sortBytes l).Pairwise (fun a b => bytesLeH a b = true) :=
  List.pairwise_mergeSort (le := bytesLeH) bytesLeH_trans bytesLeH_total l

theorem sortBytes_eq_iff (a b : List Bytes) : sortBytes a = sortBytes b ↔ a.Perm b := by
  constructor
  · intro h
    exact ((sortBytes_perm a).symm.trans (h ▸ List.Perm.refl _)).trans (sortBytes_perm b)
  · intro h
    apply List.Perm.eq_of_pairwise (le := fun a b => bytesLeH a b = true)
    · intro x y _ _ h1 h2; exact bytesLeH_antisymm x y h1 h2
    · exact sortBytes_pairwise a
    · exact sortBytes_pairwise b
    · exact ((sortBytes_perm a).trans h).trans (sortBytes_perm b).symm

theorem mem_sortBytes {l : List Bytes} {x : Bytes} : x ∈ sortBytes l ↔ x ∈ l :=
  (sortBytes_perm l).mem_iff

/-! ### compactB (consecutive de-duplication) of a sorted list -/

theorem mem_compactB : ∀ {l : List Bytes} {x : Bytes}, x ∈ compactB l ↔ x ∈ l
  | [], _ => by simp [compactB]
  | [a], _ => by simp [compactB]
  | a :: b :: t, x => by
    have ih := @mem_compactB (b :: t) x
    simp only [compactB]
    split
    · rename_i h; subst h
      rw [ih]; simp
    · simp only [List.mem_cons] at ih ⊢
      rw [ih]

def StrictLe (a b : Bytes) : Prop := bytesLeH a b = true ∧ a ≠ b

theorem compactB_pairwise : ∀ {l : List Bytes}, l.Pairwise (fun a b => bytesLeH a b = true) →
    (compactB l).Pairwise StrictLe
  | [], _ => by simp [compactB]
  | [a], _ => by simp [compactB]
  | a :: b :: t, h => by
    have hbt : (b :: t).Pairwise (fun a b => bytesLeH a b = true) := h.tail
    have ih := compactB_pairwise hbt
    simp only [compactB]
    split
    · exact ih
    · rename_i hab
      refine List.Pairwise.cons ?_ ih
      intro x hx
      have hx' : x ∈ b :: t := mem_compactB.mp hx
      have hax : bytesLeH a x = true := List.rel_of_pairwise_cons h hx'
      refine ⟨hax, ?_⟩
      intro e; subst e
      have hab' : bytesLeH a b = true := List.rel_of_pairwise_cons h List.mem_cons_self
      rcases List.mem_cons.mp hx' with e | hm
      · exact hab e
      · have hba : bytesLeH b a = true := List.rel_of_pairwise_cons hbt hm
        exact hab (bytesLeH_antisymm a b hab' hba)

theorem strict_sorted_ext {l₁ l₂ : List Bytes} (h₁ : l₁.Pairwise StrictLe) (h₂ : l₂.Pairwise StrictLe)
    (h : ∀ x, x ∈ l₁ ↔ x ∈ l₂) : l₁ = l₂ := by
  have n₁ : l₁.Nodup := h₁.imp (fun hab => hab.2)
  have n₂ : l₂.Nodup := h₂.imp (fun hab => hab.2)
  have hp : l₁.Perm l₂ := (List.perm_ext_iff_of_nodup n₁ n₂).mpr h
  apply List.Perm.eq_of_pairwise (le := fun a b => bytesLeH a b = true)
  · intro x y _ _ h1 h2; exact bytesLeH_antisymm x y h1 h2
  · exact h₁.imp (fun hab => hab.1)
  · exact h₂.imp (fun hab => hab.1)
  · exact hp

theorem mem_compactB_sort {l : List Bytes} {x : Bytes} : x ∈ compactB (sortBytes l) ↔ x ∈ l :=
  mem_compactB.trans mem_sortBytes

theorem compactB_sort_eq_iff (a b : List Bytes) :
    compactB (sortBytes a) = compactB (sortBytes b) ↔ ∀ x, x ∈ a ↔ x ∈ b := by
  constructor
  · intro h x
    rw [← mem_compactB_sort (l := a), ← mem_compactB_sort (l := b), h]
  · intro h
    apply strict_sorted_ext (compactB_pairwise (sortBytes_pairwise a)) (compactB_pairwise (sortBytes_pairwise b))
    intro x
    rw [mem_compactB_sort, mem_compactB_sort]; exact h x

/-! ### sorting key/value entries by key is canonical for maps (distinct keys) -/

theorem sortKV_perm (l : List (Bytes × Bytes)) : (sortKV l).Perm l := List.mergeSort_perm l _

theorem sortKV_pairwise (l : List (Bytes × Bytes)) :
    (sortKV l).Pairwise (fun a b => bytesLeH a.1 b.1 = true) :=
  List.pairwise_mergeSort (le := fun a b => bytesLeH a.1 b.1)
    (fun a b c => bytesLeH_trans a.1 b.1 c.1) (fun a b => bytesLeH_total a.1 b.1) l

theorem eq_of_key_eq {l : List (Bytes × Bytes)} (hn : (l.map Prod.fst).Nodup) {x y : Bytes × Bytes}
    (hx : x ∈ l) (hy : y ∈ l) (h : x.1 = y.1) : x = y := by
  induction l with
  | nil => cases hx
  | cons a t ih =>
    simp only [List.map_cons, List.nodup_cons] at hn
    rcases List.mem_cons.mp hx with rfl | hx' <;> rcases List.mem_cons.mp hy with rfl | hy'
    · rfl
    · exact absurd (List.mem_map_of_mem (f := Prod.fst) hy') (h ▸ hn.1)
    · exact absurd (List.mem_map_of_mem (f := Prod.fst) hx') (h ▸ hn.1)
    · exact ih hn.2 hx' hy'

theorem sortKV_eq_iff (a b : List (Bytes × Bytes)) (hn : (a.map Prod.fst).Nodup) :
    sortKV a = sortKV b ↔ a.Perm b := by
  constructor
  · intro h
    exact ((sortKV_perm a).symm.trans (h ▸ List.Perm.refl _)).trans (sortKV_perm b)
  · intro h
    apply List.Perm.eq_of_pairwise (le := fun a b => bytesLeH a.1 b.1 = true)
    · intro x y hx hy h1 h2
      have hx' : x ∈ a := (sortKV_perm a).mem_iff.mp hx
      have hy' : y ∈ a := h.mem_iff.mpr ((sortKV_perm b).mem_iff.mp hy)
      exact eq_of_key_eq hn hx' hy' (bytesLeH_antisymm _ _ h1 h2)
    · exact sortKV_pairwise a
    · exact sortKV_pairwise b
    · exact ((sortKV_perm a).trans h).trans (sortKV_perm b).symm

/-! ### fixed-width headers and framing -/

theorem length_beBytes : ∀ k n, (beBytes k n).length = k
  | 0, _ => rfl
  | k + 1, n => by simp [beBytes, length_beBytes k]

theorem ofNat_mod_inj {a b : Nat} (h : UInt8.ofNat (a % 256) = UInt8.ofNat (b % 256)) : a % 256 = b % 256 := by
  have := congrArg UInt8.toNat h
  simp only [UInt8.toNat_ofNat'] at this
  omega

theorem beBytes_inj : ∀ k a b, beBytes k a = beBytes k b → a % 256 ^ k = b % 256 ^ k
  | 0, _, _, _ => by simp [Nat.mod_one]
  | k + 1, a, b, h => by
    simp only [beBytes] at h
    have hl : (beBytes k (a / 256)).length = (beBytes k (b / 256)).length := by
      rw [length_beBytes, length_beBytes]
    obtain ⟨h1, h2⟩ := List.append_inj h hl
    have ih := beBytes_inj k _ _ h1
    have h0 : a % 256 = b % 256 := ofNat_mod_inj (by simpa using h2)
    rw [Nat.pow_succ, Nat.mul_comm, Nat.mod_mul, Nat.mod_mul, ih, h0]

def Small (b : Bytes) : Prop := b.length < 2 ^ 64

def SmallList (l : List Bytes) : Prop := l.length < 2 ^ 64 ∧ ∀ x ∈ l, Small x

theorem u64be_inj {a b : Nat} (ha : a < 2 ^ 64) (hb : b < 2 ^ 64) (h : u64be a = u64be b) : a = b := by
  have := beBytes_inj 8 a b h
  have e : (256 : Nat) ^ 8 = 2 ^ 64 := by decide
  rw [e, Nat.mod_eq_of_lt ha, Nat.mod_eq_of_lt hb] at this
  exact this

theorem length_u64be (n : Nat) : (u64be n).length = 8 := length_beBytes 8 n

theorem u64be_append_inj {a b : Nat} {r r' : Bytes} (ha : a < 2 ^ 64) (hb : b < 2 ^ 64)
    (h : u64be a ++ r = u64be b ++ r') : a = b ∧ r = r' := by
  obtain ⟨h1, h2⟩ := List.append_inj h (by rw [length_u64be, length_u64be])
  exact ⟨u64be_inj ha hb h1, h2⟩

theorem field_append_inj' {a b r r' : Bytes} (ha : Small a) (hb : Small b)
    (h : field a ++ r = field b ++ r') : a = b ∧ r = r' := by
  simp only [field, List.append_assoc] at h
  obtain ⟨h1, h2⟩ := u64be_append_inj ha hb h
  exact List.append_inj h2 h1

theorem fields_append_inj : ∀ {xs ys : List Bytes} {r r' : Bytes}, xs.length = ys.length →
    (∀ x ∈ xs, Small x) → (∀ y ∈ ys, Small y) →
    fields xs ++ r = fields ys ++ r' → xs = ys ∧ r = r'
  | [], [], _, _, _, _, _, h => ⟨rfl, by simpa [fields] using h⟩
  | [], _ :: _, _, _, hl, _, _, _ => by simp at hl
  | _ :: _, [], _, _, hl, _, _, _ => by simp at hl
  | x :: xs, y :: ys, r, r', hl, hx, hy, h => by
    simp only [fields, List.map_cons, List.flatten_cons, List.append_assoc] at h
    obtain ⟨h1, h2⟩ := field_append_inj' (hx x List.mem_cons_self) (hy y List.mem_cons_self) h
    have := fields_append_inj (xs := xs) (ys := ys) (by simpa using hl)
      (fun a ha => hx a (List.mem_cons_of_mem _ ha)) (fun a ha => hy a (List.mem_cons_of_mem _ ha)) h2
    exact ⟨by rw [h1, this.1], this.2⟩

theorem listEnc_append_inj {xs ys : List Bytes} {r r' : Bytes} (hx : SmallList xs) (hy : SmallList ys)
    (h : listEnc xs ++ r = listEnc ys ++ r') : xs = ys ∧ r = r' := by
  simp only [listEnc, List.append_assoc] at h
  obtain ⟨h1, h2⟩ := u64be_append_inj hx.1 hy.1 h
  exact fields_append_inj h1 hx.2 hy.2 h2

def SmallKV (l : List (Bytes × Bytes)) : Prop := l.length < 2 ^ 64 ∧ ∀ x ∈ l, Small x.1 ∧ Small x.2

theorem kvFields_append_inj : ∀ {xs ys : List (Bytes × Bytes)} {r r' : Bytes}, xs.length = ys.length →
    (∀ x ∈ xs, Small x.1 ∧ Small x.2) → (∀ y ∈ ys, Small y.1 ∧ Small y.2) →
    kvFields xs ++ r = kvFields ys ++ r' → xs = ys ∧ r = r'
  | [], [], _, _, _, _, _, h => ⟨rfl, by simpa [kvFields] using h⟩
  | [], _ :: _, _, _, hl, _, _, _ => by simp at hl
  | _ :: _, [], _, _, hl, _, _, _ => by simp at hl
  | x :: xs, y :: ys, r, r', hl, hx, hy, h => by
    simp only [kvFields, List.map_cons, List.flatten_cons, List.append_assoc] at h
    have sx := hx x List.mem_cons_self
    have sy := hy y List.mem_cons_self
    obtain ⟨h1, h2⟩ := field_append_inj' sx.1 sy.1 h
    obtain ⟨h3, h4⟩ := field_append_inj' sx.2 sy.2 h2
    have := kvFields_append_inj (xs := xs) (ys := ys) (by simpa using hl)
      (fun a ha => hx a (List.mem_cons_of_mem _ ha)) (fun a ha => hy a (List.mem_cons_of_mem _ ha)) h4
    exact ⟨by rw [Prod.ext h1 h3, this.1], this.2⟩

theorem kvEnc_append_inj {xs ys : List (Bytes × Bytes)} {r r' : Bytes} (hx : SmallKV xs) (hy : SmallKV ys)
    (h : kvEnc xs ++ r = kvEnc ys ++ r') : xs = ys ∧ r = r' := by
  simp only [kvEnc, List.append_assoc] at h
  obtain ⟨h1, h2⟩ := u64be_append_inj hx.1 hy.1 h
  exact kvFields_append_inj h1 hx.2 hy.2 h2

/-! ### helpers for the C09 theorems -/

theorem length_compactB_le : ∀ l : List Bytes, (compactB l).length ≤ l.length
  | [] => by simp [compactB]
  | [a] => by simp [compactB]
  | a :: b :: t => by
    have ih := length_compactB_le (b :: t)
    simp only [compactB]; split <;> simp at * <;> omega

theorem smallList_sort {l : List Bytes} (h : SmallList l) : SmallList (sortBytes l) :=
  ⟨by rw [(sortBytes_perm l).length_eq]; exact h.1, fun x hx => h.2 x (mem_sortBytes.mp hx)⟩

theorem smallList_canon {l : List Bytes} (h : SmallList l) : SmallList (compactB (sortBytes l)) :=
  ⟨Nat.lt_of_le_of_lt (length_compactB_le _) (smallList_sort h).1,
   fun x hx => h.2 x (mem_compactB_sort.mp hx)⟩

theorem smallKV_sort {l : List (Bytes × Bytes)} (h : SmallKV l) : SmallKV (sortKV l) :=
  ⟨by rw [(sortKV_perm l).length_eq]; exact h.1, fun x hx => h.2 x ((sortKV_perm l).mem_iff.mp hx)⟩

theorem fileFrame_append_inj {a b : Option Bytes} {r r' : Bytes}
    (ha : ∀ c, a = some c → Small c) (hb : ∀ c, b = some c → Small c)
    (h : fileFrame a ++ r = fileFrame b ++ r') : a = b ∧ r = r' := by
  cases a with
  | none =>
    cases b with
    | none => exact ⟨rfl, by simpa [fileFrame] using h⟩
    | some d => simp [fileFrame] at h
  | some c =>
    cases b with
    | none => simp [fileFrame] at h
    | some d =>
      simp only [fileFrame, List.cons_append, List.cons.injEq, true_and] at h
      obtain ⟨h1, h2⟩ := field_append_inj' (ha c rfl) (hb d rfl) h
      exact ⟨by rw [h1], h2⟩

theorem frames_append_inj (c₁ c₂ : Bytes → Option Bytes)
    (h₁ : ∀ p c, c₁ p = some c → Small c) (h₂ : ∀ p c, c₂ p = some c → Small c) :
    ∀ (l : List Bytes) (r r' : Bytes),
      (l.map (fun p => fileFrame (c₁ p))).flatten ++ r = (l.map (fun p => fileFrame (c₂ p))).flatten ++ r' →
      (∀ p ∈ l, c₁ p = c₂ p) ∧ r = r'
  | [], r, r', h => ⟨by simp, by simpa using h⟩
  | p :: l, r, r', h => by
    simp only [List.map_cons, List.flatten_cons, List.append_assoc] at h
    obtain ⟨e, h'⟩ := fileFrame_append_inj (h₁ p) (h₂ p) h
    obtain ⟨ih, hr⟩ := frames_append_inj c₁ c₂ h₁ h₂ l r r' h'
    refine ⟨?_, hr⟩
    intro q hq
    rcases List.mem_cons.mp hq with rfl | hq
    · exact e
    · exact ih q hq

theorem append_sep_inj {c : UInt8} : ∀ {x x' y y' : Bytes}, c ∉ x → c ∉ x' →
    x ++ c :: y = x' ++ c :: y' → x = x' ∧ y = y'
  | [], [], _, _, _, _, h => ⟨rfl, by simpa using h⟩
  | [], d :: x', _, _, _, h', h => by
    simp at h; exact absurd (h.1 ▸ List.mem_cons_self) h'
  | d :: x, [], _, _, hx, _, h => by
    simp at h; exact absurd (h.1 ▸ List.mem_cons_self) hx
  | d :: x, e :: x', y, y', hx, hx', h => by
    simp only [List.cons_append, List.cons.injEq] at h
    have := append_sep_inj (x := x) (x' := x') (fun m => hx (List.mem_cons_of_mem _ m))
      (fun m => hx' (List.mem_cons_of_mem _ m)) h.2
    exact ⟨by rw [h.1, this.1], this.2⟩

theorem flatten_inj_of_width (w : Nat) (hw : 0 < w) : ∀ (l₁ l₂ : List Bytes),
    (∀ x ∈ l₁, x.length = w) → (∀ x ∈ l₂, x.length = w) → l₁.flatten = l₂.flatten → l₁ = l₂
  | [], [], _, _, _ => rfl
  | [], y :: _, _, h₂, h => by
    have := congrArg List.length h
    simp [h₂ y List.mem_cons_self] at this; omega
  | x :: _, [], h₁, _, h => by
    have := congrArg List.length h
    simp [h₁ x List.mem_cons_self] at this; omega
  | x :: l₁, y :: l₂, h₁, h₂, h => by
    simp only [List.flatten_cons] at h
    obtain ⟨e1, e2⟩ := List.append_inj h (by rw [h₁ x List.mem_cons_self, h₂ y List.mem_cons_self])
    rw [e1, flatten_inj_of_width w hw l₁ l₂ (fun a ha => h₁ a (List.mem_cons_of_mem _ ha))
      (fun a ha => h₂ a (List.mem_cons_of_mem _ ha)) e2]

/-! ### decimal length prefix and the elements of the no-cache output hash -/

/-- value of a digit string -/
def decVal (b : Bytes) : Nat := b.foldl (fun a d => a * 10 + (d.toNat - 48)) 0

theorem decVal_append_single (xs : Bytes) (d : UInt8) : decVal (xs ++ [d]) = decVal xs * 10 + (d.toNat - 48) := by
  simp [decVal, List.foldl_append]

theorem decDigits_spec : ∀ fuel n, n < 10 ^ fuel →
    decVal (decDigits fuel n) = n ∧ ∀ b ∈ decDigits fuel n, 48 ≤ b.toNat ∧ b.toNat ≤ 57
  | 0, n, h => by
    have : n = 0 := by simpa using h
    subst this; simp [decDigits, decVal]
  | fuel + 1, n, h => by
    unfold decDigits
    by_cases h10 : n < 10
    · simp only [h10, if_true]
      have e : (UInt8.ofNat (48 + n)).toNat = 48 + n := by
        simp [UInt8.toNat_ofNat']; omega
      constructor
      · show (0 * 10 + ((UInt8.ofNat (48 + n)).toNat - 48)) = n
        rw [e]; omega
      · intro b hb; rw [List.mem_singleton.mp hb, e]; omega
    · simp only [h10, if_false]
      have hlt : n / 10 < 10 ^ fuel := by
        rw [Nat.pow_succ] at h; omega
      obtain ⟨iv, id⟩ := decDigits_spec fuel (n / 10) hlt
      have e : (UInt8.ofNat (48 + n % 10)).toNat = 48 + n % 10 := by
        simp [UInt8.toNat_ofNat']; omega
      constructor
      · rw [decVal_append_single, iv, e]; omega
      · intro b hb
        rcases List.mem_append.mp hb with hb | hb
        · exact id b hb
        · rw [List.mem_singleton.mp hb, e]; omega

theorem dec_spec (n : Nat) : decVal (dec n) = n ∧ ∀ b ∈ dec n, 48 ≤ b.toNat ∧ b.toNat ≤ 57 :=
  decDigits_spec (n + 1) n (Nat.lt_of_lt_of_le (Nat.lt_pow_self (by decide : 1 < 10)) (Nat.pow_le_pow_right (by decide) (Nat.le_succ n)))

theorem dec_inj {a b : Nat} (h : dec a = dec b) : a = b := by
  rw [← (dec_spec a).1, ← (dec_spec b).1, h]

theorem colon_not_mem_dec (n : Nat) : cColon ∉ dec n := fun h => by
  have := (dec_spec n).2 _ h; simp [cColon] at this

/-- an element followed by nothing or by a comma parses uniquely: the decimal prefix ends at the first colon, the
    definition has the announced length, the digest (hex: no comma) ends at the first comma -/
theorem nocacheElem_append_inj {d d' g g' r r' : Bytes} (hg : cComma ∉ g) (hg' : cComma ∉ g')
    (hr : r = [] ∨ ∃ t, r = cComma :: t) (hr' : r' = [] ∨ ∃ t, r' = cComma :: t)
    (h : nocacheElem d g ++ r = nocacheElem d' g' ++ r') : d = d' ∧ g = g' ∧ r = r' := by
  unfold nocacheElem at h
  simp only [List.append_assoc, List.cons_append] at h
  obtain ⟨h1, h2⟩ := append_sep_inj (colon_not_mem_dec _) (colon_not_mem_dec _) h
  have hl := dec_inj h1
  obtain ⟨h3, h4⟩ := List.append_inj h2 hl
  simp only [List.cons.injEq, true_and] at h4
  refine ⟨h3, ?_⟩
  rcases hr with rfl | ⟨t, rfl⟩ <;> rcases hr' with rfl | ⟨t', rfl⟩
  · simp at h4; exact ⟨h4, rfl⟩
  · simp only [List.append_nil] at h4
    exact absurd (h4 ▸ List.mem_append_right _ List.mem_cons_self) hg
  · simp only [List.append_nil] at h4
    exact absurd (h4.symm ▸ List.mem_append_right _ List.mem_cons_self) hg'
  · obtain ⟨e1, e2⟩ := append_sep_inj hg hg' h4
    exact ⟨e1, by rw [e2]⟩

theorem nocacheElem_ne_nil (d g : Bytes) : nocacheElem d g ≠ [] := by
  unfold nocacheElem
  intro h
  have := congrArg List.length h
  simp at this

/-- the comma-joined list of elements determines the list of (definition, digest) pairs -/
theorem joinComma_elems_inj : ∀ (xs ys : List (Bytes × Bytes)),
    (∀ o ∈ xs, cComma ∉ o.2) → (∀ o ∈ ys, cComma ∉ o.2) →
    joinComma (xs.map (fun o => nocacheElem o.1 o.2)) = joinComma (ys.map (fun o => nocacheElem o.1 o.2)) → xs = ys
  | [], [], _, _, _ => rfl
  | [], y :: ys, _, _, h => by
    exfalso
    cases ys with
    | nil => simp [joinComma] at h; exact nocacheElem_ne_nil _ _ h
    | cons z zs =>
      simp only [List.map_nil, List.map_cons, joinComma] at h
      have := congrArg List.length h; simp [nocacheElem] at this
  | x :: xs, [], _, _, h => by
    exfalso
    cases xs with
    | nil => simp [joinComma] at h; exact nocacheElem_ne_nil _ _ h
    | cons z zs =>
      simp only [List.map_nil, List.map_cons, joinComma] at h
      have := congrArg List.length h; simp [nocacheElem] at this
  | x :: xs, y :: ys, hx, hy, h => by
    have hxg := hx x List.mem_cons_self
    have hyg := hy y List.mem_cons_self
    have hxs : ∀ o ∈ xs, cComma ∉ o.2 := fun o ho => hx o (List.mem_cons_of_mem _ ho)
    have hys : ∀ o ∈ ys, cComma ∉ o.2 := fun o ho => hy o (List.mem_cons_of_mem _ ho)
    -- normal form: element ++ rest, where rest is empty or starts with a comma
    have form : ∀ (o : Bytes × Bytes) (l : List (Bytes × Bytes)),
        ∃ r, joinComma ((o :: l).map (fun o => nocacheElem o.1 o.2)) = nocacheElem o.1 o.2 ++ r ∧
          ((l = [] ∧ r = []) ∨ (l ≠ [] ∧ r = cComma :: joinComma (l.map (fun o => nocacheElem o.1 o.2)))) := by
      intro o l
      cases l with
      | nil => exact ⟨[], by simp [joinComma], Or.inl ⟨rfl, rfl⟩⟩
      | cons z zs => exact ⟨_, by simp [joinComma], Or.inr ⟨by simp, rfl⟩⟩
    obtain ⟨r, er, cr⟩ := form x xs
    obtain ⟨r', er', cr'⟩ := form y ys
    rw [er, er'] at h
    have hr : r = [] ∨ ∃ t, r = cComma :: t := by
      rcases cr with ⟨_, e⟩ | ⟨_, e⟩
      · exact Or.inl e
      · exact Or.inr ⟨_, e⟩
    have hr' : r' = [] ∨ ∃ t, r' = cComma :: t := by
      rcases cr' with ⟨_, e⟩ | ⟨_, e⟩
      · exact Or.inl e
      · exact Or.inr ⟨_, e⟩
    obtain ⟨e1, e2, e3⟩ := nocacheElem_append_inj hxg hyg hr hr' h
    have exy : x = y := Prod.ext e1 e2
    subst exy
    rcases cr with ⟨lx, rx⟩ | ⟨lx, rx⟩ <;> rcases cr' with ⟨ly, ry⟩ | ⟨ly, ry⟩
    · rw [lx, ly]
    · rw [rx, ry] at e3; simp at e3
    · rw [rx, ry] at e3; simp at e3
    · rw [rx, ry] at e3
      simp only [List.cons.injEq, true_and] at e3
      rw [joinComma_elems_inj xs ys hxs hys e3]

theorem nocacheElem_inj {d d' g g' : Bytes} (hg : cComma ∉ g) (hg' : cComma ∉ g')
    (h : nocacheElem d g = nocacheElem d' g') : d = d' ∧ g = g' := by
  have := nocacheElem_append_inj (r := []) (r' := []) hg hg' (Or.inl rfl) (Or.inl rfl) (by simpa using h)
  exact ⟨this.1, this.2.1⟩

/-- a permutation of the images under a function that is injective on the two lists is a permutation of the lists -/
theorem perm_of_map_perm {α β : Type} [DecidableEq α] [DecidableEq β] (f : α → β) :
    ∀ (xs ys : List α), (∀ a ∈ xs, ∀ b ∈ ys, f a = f b → a = b) → (∀ a ∈ xs, ∀ b ∈ xs, f a = f b → a = b) →
      (xs.map f).Perm (ys.map f) → xs.Perm ys
  | [], ys, _, _, h => by
    have := h.length_eq; simp at this
    rw [List.length_eq_zero_iff.mp this.symm]
  | a :: xs, ys, hxy, hxx, h => by
    have hmem : f a ∈ ys.map f := h.subset (by simp)
    obtain ⟨b, hb, hfb⟩ := List.mem_map.mp hmem
    have hab : a = b := hxy a List.mem_cons_self b hb hfb.symm
    subst hab
    have hp : ys.Perm (a :: ys.erase a) := List.perm_cons_erase hb
    have h2 : (List.map f xs).Perm ((ys.erase a).map f) := by
      have := h.trans (hp.map f)
      simpa using this
    have ih := perm_of_map_perm f xs (ys.erase a)
      (fun x hx y hy e => hxy x (List.mem_cons_of_mem _ hx) y (List.mem_of_mem_erase hy) e)
      (fun x hx y hy e => hxx x (List.mem_cons_of_mem _ hx) y (List.mem_cons_of_mem _ hy) e) h2
    exact (List.Perm.cons a ih).trans hp.symm

end Grog
