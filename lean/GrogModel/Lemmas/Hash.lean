import GrogModel.Hash
namespace Grog

/-! ### the bytewise order -/

theorem bytesLeH_refl : ∀ a : Bytes, bytesLeH a a = true
  | [] => rfl
  | a :: as => by simp [bytesLeH, bytesLeH_refl as]

theorem bytesLeH_total : ∀ a b : Bytes, (bytesLeH a b || bytesLeH b a) = true
  | [], _ => by simp [bytesLeH]
  | _ :: _, [] => by simp [bytesLeH]
  | a :: as, b :: bs => by
    have ih := bytesLeH_total as bs
    simp only [bytesLeH]
    rcases Nat.lt_trichotomy a.toNat b.toNat with h | h | h
    · have : a < b := UInt8.lt_iff_toNat_lt.mpr h
      simp [this]
    · have : a = b := UInt8.toNat_inj.mp h
      subst this
      simpa using ih
    · have : b < a := UInt8.lt_iff_toNat_lt.mpr h
      simp [this]

theorem bytesLeH_trans : ∀ a b c : Bytes, bytesLeH a b = true → bytesLeH b c = true → bytesLeH a c = true
  | [], _, _, _, _ => by simp [bytesLeH]
  | _ :: _, [], _, h, _ => by simp [bytesLeH] at h
  | _ :: _, _ :: _, [], _, h => by simp [bytesLeH] at h
  | a :: as, b :: bs, c :: cs, h1, h2 => by
    simp only [bytesLeH, Bool.or_eq_true, decide_eq_true_eq, Bool.and_eq_true, beq_iff_eq] at *
    rcases h1 with h1 | ⟨h1, h1'⟩ <;> rcases h2 with h2 | ⟨h2, h2'⟩
    · left; exact UInt8.lt_trans h1 h2
    · left; subst h2; exact h1
    · left; subst h1; exact h2
    · right; exact ⟨h1.trans h2, bytesLeH_trans as bs cs h1' h2'⟩

theorem bytesLeH_antisymm : ∀ a b : Bytes, bytesLeH a b = true → bytesLeH b a = true → a = b
  | [], [], _, _ => rfl
  | [], _ :: _, _, h => by simp [bytesLeH] at h
  | _ :: _, [], h, _ => by simp [bytesLeH] at h
  | a :: as, b :: bs, h1, h2 => by
    simp only [bytesLeH, Bool.or_eq_true, decide_eq_true_eq, Bool.and_eq_true, beq_iff_eq] at *
    rcases h1 with h1 | ⟨h1, h1'⟩ <;> rcases h2 with h2 | ⟨h2, h2'⟩
    · exact absurd (UInt8.lt_trans h1 h2) (UInt8.lt_irrefl _)
    · subst h2; exact absurd h1 (UInt8.lt_irrefl _)
    · subst h1; exact absurd h2 (UInt8.lt_irrefl _)
    · subst h1; rw [bytesLeH_antisymm as bs h1' h2']

/-! ### sorting is canonical -/

theorem sortBytes_perm (l : List Bytes) : (sortBytes l).Perm l := List.mergeSort_perm l _

theorem sortBytes_pairwise (l : List Bytes) : (sortBytes l).Pairwise (fun a b => bytesLeH a b = true) :=
  List.pairwise_mergeSort (le := bytesLeH) bytesLeH_trans bytesLeH_total l

theorem sortBytes_eq_iff (a b : List Bytes) : sortBytes a = sortBytes b ↔ a.Perm b := by
  constructor
  · intro h
    exact ((sortBytes_perm a).symm.trans (h ▸ List.Perm.refl _)).trans (sortBytes_perm b)
  · intro h
    apply List.Perm.eq_of_pairwise (le := fun a b => bytesLeH a b = true)
    · intro x y _ _ h1 h2; exact bytesLeH_antisymm x y h1 h2
    · exact sortBytes_pairwise a
    · exact sortBytes_pairwise b
    · exact ((sortBytes_perm a).trans h).trans (sortBytes_perm b).symm

theorem mem_sortBytes {l : List Bytes} {x : Bytes} : x ∈ sortBytes l ↔ x ∈ l :=
  (sortBytes_perm l).mem_iff

/-! ### compactB (consecutive de-duplication) of a sorted list -/

theorem mem_compactB : ∀ {l : List Bytes} {x : Bytes}, x ∈ compactB l ↔ x ∈ l
  | [], _ => by simp [compactB]
  | [a], _ => by simp [compactB]
  | a :: b :: t, x => by
    have ih := @mem_compactB (b :: t) x
    simp only [compactB]
    split
    · rename_i h; subst h
      rw [ih]; simp
    · simp only [List.mem_cons] at ih ⊢
      rw [ih]

def StrictLe (a b : Bytes) : Prop := bytesLeH a b = true ∧ a ≠ b

theorem compactB_pairwise : ∀ {l : List Bytes}, l.Pairwise (fun a b => bytesLeH a b = true) →
    (compactB l).Pairwise StrictLe
  | [], _ => by simp [compactB]
  | [a], _ => by simp [compactB]
  | a :: b :: t, h => by
    have hbt : (b :: t).Pairwise (fun a b => bytesLeH a b = true) := h.tail
    have ih := compactB_pairwise hbt
    simp only [compactB]
    split
    · exact ih
    · rename_i hab
      refine List.Pairwise.cons ?_ ih
      intro x hx
      have hx' : x ∈ b :: t := mem_compactB.mp hx
      have hax : bytesLeH a x = true := List.rel_of_pairwise_cons h hx'
      refine ⟨hax, ?_⟩
      intro e; subst e
      have hab' : bytesLeH a b = true := List.rel_of_pairwise_cons h List.mem_cons_self
      rcases List.mem_cons.mp hx' with e | hm
      · exact hab e
      · have hba : bytesLeH b a = true := List.rel_of_pairwise_cons hbt hm
        exact hab (bytesLeH_antisymm a b hab' hba)

theorem strict_sorted_ext {l₁ l₂ : List Bytes} (h₁ : l₁.Pairwise StrictLe) (h₂ : l₂.Pairwise StrictLe)
    (h : ∀ x, x ∈ l₁ ↔ x ∈ l₂) : l₁ = l₂ := by
  have n₁ : l₁.Nodup := h₁.imp (fun hab => hab.2)
  have n₂ : l₂.Nodup := h₂.imp (fun hab => hab.2)
  have hp : l₁.Perm l₂ := (List.perm_ext_iff_of_nodup n₁ n₂).mpr h
  apply List.Perm.eq_of_pairwise (le := fun a b => bytesLeH a b = true)
  · intro x y _ _ h1 h2; exact bytesLeH_antisymm x y h1 h2
  · exact h₁.imp (fun hab => hab.1)
  · exact h₂.imp (fun hab => hab.1)
  · exact hp

theorem mem_compactB_sort {l : List Bytes} {x : Bytes} : x ∈ compactB (sortBytes l) ↔ x ∈ l :=
  mem_compactB.trans mem_sortBytes

theorem compactB_sort_eq_iff (a b : List Bytes) :
    compactB (sortBytes a) = compactB (sortBytes b) ↔ ∀ x, x ∈ a ↔ x ∈ b := by
  constructor
  · intro h x
    rw [← mem_compactB_sort (l := a), ← mem_compactB_sort (l := b), h]
  · intro h
    apply strict_sorted_ext (compactB_pairwise (sortBytes_pairwise a)) (compactB_pairwise (sortBytes_pairwise b))
    intro x
    rw [mem_compactB_sort, mem_compactB_sort]; exact h x

/-! ### sorting key/value entries by key is canonical for maps (distinct keys) -/

theorem sortKV_perm (l : List (Bytes × Bytes)) : (sortKV l).Perm l := List.mergeSort_perm l _

theorem sortKV_pairwise (l : List (Bytes × Bytes)) :
    (sortKV l).Pairwise (fun a b => bytesLeH a.1 b.1 = true) :=
  List.pairwise_mergeSort (le := fun a b => bytesLeH a.1 b.1)
    (fun a b c => bytesLeH_trans a.1 b.1 c.1) (fun a b => bytesLeH_total a.1 b.1) l

theorem eq_of_key_eq {l : List (Bytes × Bytes)} (hn : (l.map Prod.fst).Nodup) {x y : Bytes × Bytes}
    (hx : x ∈ l) (hy : y ∈ l) (h : x.1 = y.1) : x = y := by
  induction l with
  | nil => cases hx
  | cons a t ih =>
    simp only [List.map_cons, List.nodup_cons] at hn
    rcases List.mem_cons.mp hx with rfl | hx' <;> rcases List.mem_cons.mp hy with rfl | hy'
    · rfl
    · exact absurd (List.mem_map_of_mem (f := Prod.fst) hy') (h ▸ hn.1)
    · exact absurd (List.mem_map_of_mem (f := Prod.fst) hx') (h ▸ hn.1)
    · exact ih hn.2 hx' hy'

theorem sortKV_eq_iff (a b : List (Bytes × Bytes)) (hn : (a.map Prod.fst).Nodup) :
    sortKV a = sortKV b ↔ a.Perm b := by
  constructor
  · intro h
    exact ((sortKV_perm a).symm.trans (h ▸ List.Perm.refl _)).trans (sortKV_perm b)
  · intro h
    apply List.Perm.eq_of_pairwise (le := fun a b => bytesLeH a.1 b.1 = true)
    · intro x y hx hy h1 h2
      have hx' : x ∈ a := (sortKV_perm a).mem_iff.mp hx
      have hy' : y ∈ a := h.mem_iff.mpr ((sortKV_perm b).mem_iff.mp hy)
      exact eq_of_key_eq hn hx' hy' (bytesLeH_antisymm _ _ h1 h2)
    · exact sortKV_pairwise a
    · exact sortKV_pairwise b
    · exact ((sortKV_perm a).trans h).trans (sortKV_perm b).symm

/-! ### fixed-width headers and framing -/

theorem length_beBytes : ∀ k n, (beBytes k n).length = k
  | 0, _ => rfl
  | k + 1, n => by simp [beBytes, length_beBytes k]

theorem ofNat_mod_inj {a b : Nat} (h : UInt8.ofNat (a % 256) = UInt8.ofNat (b % 256)) : a % 256 = b % 256 := by
  have := congrArg UInt8.toNat h
  simp only [UInt8.toNat_ofNat'] at this
  omega

theorem beBytes_inj : ∀ k a b, beBytes k a = beBytes k b → a % 256 ^ k = b % 256 ^ k
  | 0, _, _, _ => by simp [Nat.mod_one]
  | k + 1, a, b, h => by
    simp only [beBytes] at h
    have hl : (beBytes k (a / 256)).length = (beBytes k (b / 256)).length := by
      rw [length_beBytes, length_beBytes]
    obtain ⟨h1, h2⟩ := List.append_inj h hl
    have ih := beBytes_inj k _ _ h1
    have h0 : a % 256 = b % 256 := ofNat_mod_inj (by simpa using h2)
    rw [Nat.pow_succ, Nat.mul_comm, Nat.mod_mul, Nat.mod_mul, ih, h0]

def Small (b : Bytes) : Prop := b.length < 2 ^ 64

def SmallList (l : List Bytes) : Prop := l.length < 2 ^ 64 ∧ ∀ x ∈ l, Small x

theorem u64be_inj {a b : Nat} (ha : a < 2 ^ 64) (hb : b < 2 ^ 64) (h : u64be a = u64be b) : a = b := by
  have := beBytes_inj 8 a b h
  have e : (256 : Nat) ^ 8 = 2 ^ 64 := by decide
  rw [e, Nat.mod_eq_of_lt ha, Nat.mod_eq_of_lt hb] at this
  exact this

theorem length_u64be (n : Nat) : (u64be n).length = 8 := length_beBytes 8 n

theorem u64be_append_inj {a b : Nat} {r r' : Bytes} (ha : a < 2 ^ 64) (hb : b < 2 ^ 64)
    (h : u64be a ++ r = u64be b ++ r') : a = b ∧ r = r' := by
  obtain ⟨h1, h2⟩ := List.append_inj h (by rw [length_u64be, length_u64be])
  exact ⟨u64be_inj ha hb h1, h2⟩

theorem field_append_inj' {a b r r' : Bytes} (ha : Small a) (hb : Small b)
    (h : field a ++ r = field b ++ r') : a = b ∧ r = r' := by
  simp only [field, List.append_assoc] at h
  obtain ⟨h1, h2⟩ := u64be_append_inj ha hb h
  exact List.append_inj h2 h1

theorem fields_append_inj : ∀ {xs ys : List Bytes} {r r' : Bytes}, xs.length = ys.length →
    (∀ x ∈ xs, Small x) → (∀ y ∈ ys, Small y) →
    fields xs ++ r = fields ys ++ r' → xs = ys ∧ r = r'
  | [], [], _, _, _, _, _, h => ⟨rfl, by simpa [fields] using h⟩
  | [], _ :: _, _, _, hl, _, _, _ => by simp at hl
  | _ :: _, [], _, _, hl, _, _, _ => by simp at hl
  | x :: xs, y :: ys, r, r', hl, hx, hy, h => by
    simp only [fields, List.map_cons, List.flatten_cons, List.append_assoc] at h
    obtain ⟨h1, h2⟩ := field_append_inj' (hx x List.mem_cons_self) (hy y List.mem_cons_self) h
    have := fields_append_inj (xs := xs) (ys := ys) (by simpa using hl)
      (fun a ha => hx a (List.mem_cons_of_mem _ ha)) (fun a ha => hy a (List.mem_cons_of_mem _ ha)) h2
    exact ⟨by rw [h1, this.1], this.2⟩

theorem listEnc_append_inj {xs ys : List Bytes} {r r' : Bytes} (hx : SmallList xs) (hy : SmallList ys)
    (h : listEnc xs ++ r = listEnc ys ++ r') : xs = ys ∧ r = r' := by
  simp only [listEnc, List.append_assoc] at h
  obtain ⟨h1, h2⟩ := u64be_append_inj hx.1 hy.1 h
  exact fields_append_inj h1 hx.2 hy.2 h2

def SmallKV (l : List (Bytes × Bytes)) : Prop := l.length < 2 ^ 64 ∧ ∀ x ∈ l, Small x.1 ∧ Small x.2

theorem kvFields_append_inj : ∀ {xs ys : List (Bytes × Bytes)} {r r' : Bytes}, xs.length = ys.length →
    (∀ x ∈ xs, Small x.1 ∧ Small x.2) → (∀ y ∈ ys, Small y.1 ∧ Small y.2) →
    kvFields xs ++ r = kvFields ys ++ r' → xs = ys ∧ r = r'
  | [], [], _, _, _, _, _, h => ⟨rfl, by simpa [kvFields] using h⟩
  | [], _ :: _, _, _, hl, _, _, _ => by simp at hl
  | _ :: _, [], _, _, hl, _, _, _ => by simp at hl
  | x :: xs, y :: ys, r, r', hl, hx, hy, h => by
    simp only [kvFields, List.map_cons, List.flatten_cons, List.append_assoc] at h
    have sx := hx x List.mem_cons_self
    have sy := hy y List.mem_cons_self
    obtain ⟨h1, h2⟩ := field_append_inj' sx.1 sy.1 h
    obtain ⟨h3, h4⟩ := field_append_inj' sx.2 sy.2 h2
    have := kvFields_append_inj (xs := xs) (ys := ys) (by simpa using hl)
      (fun a ha => hx a (List.mem_cons_of_mem _ ha)) (fun a ha => hy a (List.mem_cons_of_mem _ ha)) h4
    exact ⟨by rw [Prod.ext h1 h3, this.1], this.2⟩

theorem kvEnc_append_inj {xs ys : List (Bytes × Bytes)} {r r' : Bytes} (hx : SmallKV xs) (hy : SmallKV ys)
    (h : kvEnc xs ++ r = kvEnc ys ++ r') : xs = ys ∧ r = r' := by
  simp only [kvEnc, List.append_assoc] at h
  obtain ⟨h1, h2⟩ := u64be_append_inj hx.1 hy.1 h
  exact kvFields_append_inj h1 hx.2 hy.2 h2

/-! ### helpers for the C09 theorems -/

theorem length_compactB_le : ∀ l : List Bytes, (compactB l).length ≤ l.length
  | [] => by simp [compactB]
  | [a] => by simp [compactB]
  | a :: b :: t => by
    have ih := length_compactB_le (b :: t)
    simp only [compactB]; split <;> simp at * <;> omega

theorem smallList_sort {l : List Bytes} (h : SmallList l) : SmallList (sortBytes l) :=
  ⟨by rw [(sortBytes_perm l).length_eq]; exact h.1, fun x hx => h.2 x (mem_sortBytes.mp hx)⟩

theorem smallList_canon {l : List Bytes} (h : SmallList l) : SmallList (compactB (sortBytes l)) :=
  ⟨Nat.lt_of_le_of_lt (length_compactB_le _) (smallList_sort h).1,
   fun x hx => h.2 x (mem_compactB_sort.mp hx)⟩

theorem smallKV_sort {l : List (Bytes × Bytes)} (h : SmallKV l) : SmallKV (sortKV l) :=
  ⟨by rw [(sortKV_perm l).length_eq]; exact h.1, fun x hx => h.2 x ((sortKV_perm l).mem_iff.mp hx)⟩

theorem fileFrame_append_inj {a b : Option Bytes} {r r' : Bytes}
    (ha : ∀ c, a = some c → Small c) (hb : ∀ c, b = some c → Small c)
    (h : fileFrame a ++ r = fileFrame b ++ r') : a = b ∧ r = r' := by
  cases a with
  | none =>
    cases b with
    | none => exact ⟨rfl, by simpa [fileFrame] using h⟩
    | some d => simp [fileFrame] at h
  | some c =>
    cases b with
    | none => simp [fileFrame] at h
    | some d =>
      simp only [fileFrame, List.cons_append, List.cons.injEq, true_and] at h
      obtain ⟨h1, h2⟩ := field_append_inj' (ha c rfl) (hb d rfl) h
      exact ⟨by rw [h1], h2⟩

theorem frames_append_inj (c₁ c₂ : Bytes → Option Bytes)
    (h₁ : ∀ p c, c₁ p = some c → Small c) (h₂ : ∀ p c, c₂ p = some c → Small c) :
    ∀ (l : List Bytes) (r r' : Bytes),
      (l.map (fun p => fileFrame (c₁ p))).flatten ++ r = (l.map (fun p => fileFrame (c₂ p))).flatten ++ r' →
      (∀ p ∈ l, c₁ p = c₂ p) ∧ r = r'
  | [], r, r', h => ⟨by simp, by simpa using h⟩
  | p :: l, r, r', h => by
    simp only [List.map_cons, List.flatten_cons, List.append_assoc] at h
    obtain ⟨e, h'⟩ := fileFrame_append_inj (h₁ p) (h₂ p) h
    obtain ⟨ih, hr⟩ := frames_append_inj c₁ c₂ h₁ h₂ l r r' h'
    refine ⟨?_, hr⟩
    intro q hq
    rcases List.mem_cons.mp hq with rfl | hq
    · exact e
    · exact ih q hq

theorem append_sep_inj {c : UInt8} : ∀ {x x' y y' : Bytes}, c ∉ x → c ∉ x' →
    x ++ c :: y = x' ++ c :: y' → x = x' ∧ y = y'
  | [], [], _, _, _, _, h => ⟨rfl, by simpa using h⟩
  | [], d :: x', _, _, _, h', h => by
    simp at h; exact absurd (h.1 ▸ List.mem_cons_self) h'
  | d :: x, [], _, _, hx, _, h => by
    simp at h; exact absurd (h.1 ▸ List.mem_cons_self) hx
  | d :: x, e :: x', y, y', hx, hx', h => by
    simp only [List.cons_append, List.cons.injEq] at h
    have := append_sep_inj (x := x) (x' := x') (fun m => hx (List.mem_cons_of_mem _ m))
      (fun m => hx' (List.mem_cons_of_mem _ m)) h.2
    exact ⟨by rw [h.1, this.1], this.2⟩

theorem flatten_inj_of_width (w : Nat) (hw : 0 < w) : ∀ (l₁ l₂ : List Bytes),
    (∀ x ∈ l₁, x.length = w) → (∀ x ∈ l₂, x.length = w) → l₁.flatten = l₂.flatten → l₁ = l₂
  | [], [], _, _, _ => rfl
  | [], y :: _, _, h₂, h => by
    have := congrArg List.length h
    simp [h₂ y List.mem_cons_self] at this; omega
  | x :: _, [], h₁, _, h => by
    have := congrArg List.length h
    simp [h₁ x List.mem_cons_self] at this; omega
  | x :: l₁, y :: l₂, h₁, h₂, h => by
    simp only [List.flatten_cons] at h
    obtain ⟨e1, e2⟩ := List.append_inj h (by rw [h₁ x List.mem_cons_self, h₂ y List.mem_cons_self])
    rw [e1, flatten_inj_of_width w hw l₁ l₂ (fun a ha => h₁ a (List.mem_cons_of_mem _ ha))
      (fun a ha => h₂ a (List.mem_cons_of_mem _ ha)) e2]

end Grog
