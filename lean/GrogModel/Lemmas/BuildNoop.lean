/-
  Towards the no-op rebuild theorem (C02): what a successful build leaves in the cache for every target
  ("settled"), frame properties of one step, and the second build as a sequence of hits.
-/
import GrogModel.Lemmas.BuildInv
set_option linter.unusedSectionVars false
set_option linter.unusedSimpArgs false
set_option linter.unusedVariables false
namespace Grog.Build
open Grog Grog.Exec

variable {κ : Type} [DecidableEq κ]

theorem addBlobs_mono (cas : Val → Bool) (l : Outs) (v : Val) (h : cas v = true) : addBlobs cas l v = true := by
  induction l generalizing cas with
  | nil => exact h
  | cons ov l ih =>
    simp only [addBlobs]; apply ih
    by_cases hv : v = ov.2
    · subst hv; simp
    · rw [upd_other _ _ _ _ hv]; exact h

theorem addBlobs_mem (cas : Val → Bool) (l : Outs) (ov : OutDef × Val) (h : ov ∈ l) : addBlobs cas l ov.2 = true := by
  induction l generalizing cas with
  | nil => simp at h
  | cons a l ih =>
    simp only [addBlobs]
    rcases List.mem_cons.1 h with h | h
    · subst h; apply addBlobs_mono; simp
    · exact ih _ h

/-- what one step leaves alone -/
theorem step_frameK {P : Params κ} {A : AdmSpec κ} (hG : GoodK P A) {cfg : Cfg} (hm : cfg.minimal = false) (defs : Defs) (fuel : Nat)
    (t0 : Target) (hw : t0.cmd.writes = t0.outs) (s : BState κ) :
    (∀ l, l ≠ t0.label → (buildTarget P cfg defs fuel t0 s).st l = s.st l) ∧
    (∀ p, p ∉ outPaths t0 → (buildTarget P cfg defs fuel t0 s).fs p = s.fs p) ∧
    (∀ v, s.cache.cas v = true → (buildTarget P cfg defs fuel t0 s).cache.cas v = true) ∧
    (∀ l, l ≠ t0.label → (buildTarget P cfg defs fuel t0 s).cache.taint l = s.cache.taint l) ∧
    (∀ k, (∀ ohs, depOhs s.st t0.hdeps = some ohs → k ≠ P.K (keyState t0 s.fs ohs)) → (buildTarget P cfg defs fuel t0 s).cache.res k = s.cache.res k) := by
  have hcase := buildTarget_all P cfg defs fuel t0 s hm
  have hexec : ∀ (k : κ) (s2 : BState κ) (b : Bool), execTarget P cfg defs t0 k (s.cache.taint t0.label) s = (s2, b) →
      ∀ p, p ∉ outPaths t0 → s2.fs p = s.fs p := by
    intro k s2 b e p hp
    have := execTarget_fs P cfg defs t0 k (s.cache.taint t0.label) s
    rw [e] at this
    rcases this with h | ⟨hx, h⟩
    · simp only at h; rw [h]
    · simp only at h; rw [h, fsAfter_eq_fsA]; exact fsA_offK hG defs t0 s.fs hw p hp hx
  cases hcase with
  | depFailed h e =>
    rw [e]; exact ⟨fun l hl => upd_other _ _ _ _ hl, fun _ _ => rfl, fun _ h => h, fun _ _ => rfl, fun _ _ => rfl⟩
  | noHash h h2 e =>
    rw [e]; exact ⟨fun l hl => upd_other _ _ _ _ hl, fun _ _ => rfl, fun _ h => h, fun _ _ => rfl, fun _ _ => rfl⟩
  | hit ohs h h2 e =>
    obtain ⟨r, fs', _, _, _, _, _, hrest, hs1⟩ := tryHit_all_some hm e
    obtain ⟨hv, _, hfs⟩ := restore_some hrest
    rw [hs1]
    refine ⟨fun l hl => upd_other _ _ _ _ hl, fun p hp => ?_, fun _ h => h, fun _ _ => rfl, fun _ _ => rfl⟩
    simp only; rw [hfs]; apply writeOuts_not_mem
    rw [outPaths, ← hv, List.map_map] at hp; exact hp
  | ran ohs h h2 h3 e =>
    obtain ⟨_, _, _, ovs, _, hres, hcas, htaint, hst⟩ := execTarget_true e
    refine ⟨fun l hl => by rw [hst]; exact upd_other _ _ _ _ hl, hexec _ _ _ e, fun v hv => ?_, fun l hl => ?_, fun k hk => ?_⟩
    · rw [hcas]; split
      · exact hv
      · exact addBlobs_mono _ _ _ hv
    · rw [htaint]; split
      · exact upd_other _ _ _ _ hl
      · rfl
    · rw [hres]; exact upd_other _ _ _ _ (hk ohs h2)
  | failed ohs s2 h h2 h3 e e2 =>
    obtain ⟨hc, hst, _⟩ := execTarget_false e
    rw [e2]
    refine ⟨fun l hl => by simp only [failT]; rw [upd_other _ _ _ _ hl, hst], fun p hp => by simp only [failT]; exact hexec _ _ _ e p hp,
      fun v hv => by simp only [failT]; rw [hc]; exact hv, fun l hl => by simp only [failT]; rw [hc], fun k hk => by simp only [failT]; rw [hc]⟩

theorem step_frame {P : Params κ} (hG : Good P) {cfg : Cfg} (hm : cfg.minimal = false) (defs : Defs) (fuel : Nat)
    (t0 : Target) (hw : t0.cmd.writes = t0.outs) (s : BState κ) :
    (∀ l, l ≠ t0.label → (buildTarget P cfg defs fuel t0 s).st l = s.st l) ∧
    (∀ p, p ∉ outPaths t0 → (buildTarget P cfg defs fuel t0 s).fs p = s.fs p) ∧
    (∀ v, s.cache.cas v = true → (buildTarget P cfg defs fuel t0 s).cache.cas v = true) ∧
    (∀ l, l ≠ t0.label → (buildTarget P cfg defs fuel t0 s).cache.taint l = s.cache.taint l) ∧
    (∀ k, (∀ ohs, k ≠ P.K (keyState t0 s.fs ohs)) → (buildTarget P cfg defs fuel t0 s).cache.res k = s.cache.res k) := by
  obtain ⟨h1, h2, h3, h4, h5⟩ := step_frameK (GoodK_of_Good hG) hm defs fuel t0 hw s
  exact ⟨h1, h2, h3, h4, fun k hk => h5 k (fun ohs _ => hk ohs)⟩

/-- the contents of all resolved inputs are admissible -/
def InOk (A : AdmSpec κ) (defs : Defs) (order : List Lbl) (fs : FS) : Prop :=
  ∀ l ∈ order, ∀ t, defs l = some t → ∀ p ∈ t.inputs, ∀ v, fs p = some v → A.val v

theorem depOhs_congr {st st' : Lbl → Option (TStat κ)} (deps : List Lbl) (h : ∀ d ∈ deps, ohOf st d = ohOf st' d) :
    depOhs st deps = depOhs st' deps := by
  induction deps with
  | nil => rfl
  | cons d ds ih =>
    simp only [depOhs]
    rw [h d (by simp), ih (fun d' hd' => h d' (by simp [hd']))]

theorem keyState_congr (t : Target) (fs fs' : FS) (ohs : List (OH κ)) (h : ∀ p ∈ t.inputs, fs p = fs' p) :
    keyState t fs ohs = keyState t fs' ohs := by
  have : t.inputs.map (fun p => (p, fs p)) = t.inputs.map (fun p => (p, fs' p)) :=
    List.map_congr_left (fun p hp => by rw [h p hp])
  simp only [keyState, this]

/-- a finished target whose result is in the cache, restorable, untainted, with passing checks -/
def Settled (P : Params κ) (defs : Defs) (s : BState κ) (l : Lbl) : Prop :=
  ∃ t ts ohs r, defs l = some t ∧ s.st l = some ts ∧ ts.ok = true ∧ depOhs s.st t.hdeps = some ohs ∧
    s.cache.res (P.K (keyState t s.fs ohs)) = some r ∧ ts.oh = some r.oh ∧ r.outs.map (·.1) = t.outs ∧
    (∀ ov ∈ r.outs, s.cache.cas ov.2 = true) ∧ s.cache.taint l = false ∧ checksPass s.fs t.checks = true

/-- extra assumptions of the no-op theorem: cache enabled, no no-cache target, synchronous taint clear -/
structure Plain (P : Params κ) (cfg : Cfg) (defs : Defs) (order : List Lbl) : Prop where
  enabled : cfg.enableCache = true
  all : cfg.minimal = false
  sync : P.fx.syncTaint = true
  gate : P.fx.gateChecks = true
  cached : ∀ l ∈ order, ∀ t, defs l = some t → t.noCache = false

theorem settled_stepK {P : Params κ} {A : AdmSpec κ} (hG : GoodK P A) {cfg : Cfg} {defs : Defs} {order : List Lbl} (hwf : WF defs order)
    (hT : ∀ l ∈ order, ∀ t, defs l = some t → A.tgt t) (hpl : Plain P cfg defs order) (fuel : Nat)
    (pre : List Lbl) (l0 : Lbl) (suf : List Lbl) (ho : order = pre ++ l0 :: suf) (t0 : Target) (ht0 : defs l0 = some t0)
    (s : BState κ) (hin : InOk A defs order s.fs) (hK : ∀ l ∈ pre, (∃ ts, s.st l = some ts ∧ ts.ok = true) → Settled P defs s l) :
    ∀ l ∈ pre ++ [l0], (∃ ts, (buildTarget P cfg defs fuel t0 s).st l = some ts ∧ ts.ok = true) →
      Settled P defs (buildTarget P cfg defs fuel t0 s) l := by
  have hm := hpl.all
  have hl0o : l0 ∈ order := by rw [ho]; simp
  have hpo : ∀ d ∈ pre, d ∈ order := fun d hd => by rw [ho]; simp [hd]
  have hnd := hwf.nodup; rw [ho] at hnd
  have hl0pre : l0 ∉ pre := fun h => by
    have := (List.nodup_append.1 hnd).2.2 l0 h l0 (by simp); exact this rfl
  have hlab0 : t0.label = l0 := hwf.label l0 t0 ht0
  obtain ⟨hhd0, hwr0, hnod0⟩ := hwf.hdeps l0 hl0o t0 ht0
  obtain ⟨hfst, hffs, hfcas, hftaint, hfres⟩ := step_frameK hG hm defs fuel t0 hwr0 s
  -- topological position of a processed label
  have deps_pre : ∀ l ∈ pre, ∀ t, defs l = some t → ∀ d ∈ t.hdeps, d ≠ l0 := by
    intro l hl t ht d hd e
    subst e
    obtain ⟨p1, p2, hp⟩ := List.append_of_mem hl
    have ho' : order = p1 ++ l :: (p2 ++ d :: suf) := by rw [ho, hp]; simp
    have hhd := (hwf.hdeps l (hpo l hl) t ht).1
    rw [hhd] at hd
    have := hwf.topo p1 l _ ho' t ht d hd
    exact hl0pre (by rw [hp]; simp [this])
  have deps_l0 : ∀ d ∈ t0.hdeps, d ≠ l0 := by
    intro d hd e; subst e
    rw [hhd0] at hd
    exact hl0pre (hwf.topo pre d suf ho t0 ht0 d hd)
  have ohs_frame : ∀ (deps : List Lbl), (∀ d ∈ deps, d ≠ l0) →
      depOhs (buildTarget P cfg defs fuel t0 s).st deps = depOhs s.st deps := by
    intro deps hd
    apply depOhs_congr
    intro d hdm
    simp only [ohOf]; rw [hfst d (by rw [hlab0]; exact hd d hdm)]
  have fs_inputs : ∀ l ∈ order, ∀ t, defs l = some t → ∀ p ∈ t.inputs, (buildTarget P cfg defs fuel t0 s).fs p = s.fs p :=
    fun l hl t ht p hp => hffs p (hwf.inputsOff l hl t ht l0 hl0o t0 ht0 p hp)
  have fs_checks : ∀ l ∈ order, ∀ t, defs l = some t → checksPass (buildTarget P cfg defs fuel t0 s).fs t.checks = checksPass s.fs t.checks :=
    fun l hl t ht => checksPass_congr (fun c hc => hffs c.1 (hwf.checksOff l hl t ht l0 hl0o t0 ht0 c hc))
  intro l hl hok
  rcases List.mem_append.1 hl with hl | hl
  · -- an earlier target: everything it relies on is left alone
    have hne : l ≠ l0 := fun e => hl0pre (e ▸ hl)
    have hst := hfst l (by rw [hlab0]; exact hne)
    rw [hst] at hok
    obtain ⟨t, ts, ohs, r, ht, hts, hk, hoh, hres, hroh, hv, hb, hta, hch⟩ := hK l hl hok
    have hlab : t.label = l := hwf.label l t ht
    have hks : keyState t (buildTarget P cfg defs fuel t0 s).fs ohs = keyState t s.fs ohs :=
      keyState_congr t _ _ ohs (fs_inputs l (hpo l hl) t ht)
    refine ⟨t, ts, ohs, r, ht, by rw [hst]; exact hts, hk, by rw [ohs_frame _ (deps_pre l hl t ht)]; exact hoh, ?_, hroh, hv,
      fun ov hov => hfcas _ (hb ov hov), by rw [hftaint l (by rw [hlab0]; exact hne)]; exact hta,
      by rw [fs_checks l (hpo l hl) t ht]; exact hch⟩
    rw [hks, hfres _ (fun ohs' hohs' e => ?_)]
    · exact hres
    · have hl' : t.label = t0.label :=
        hG.sepLbl t s.fs ohs t0 s.fs ohs' (hT l (hpo l hl) t ht) (hT l0 hl0o t0 ht0) (hin l (hpo l hl) t ht) (hin l0 hl0o t0 ht0)
          (depOhs_length hoh) (depOhs_length hohs') e
      rw [hlab, hlab0] at hl'; exact hne hl'
  · -- the target just processed
    simp only [List.mem_singleton] at hl; subst hl
    obtain ⟨ts, hts, hk⟩ := hok
    have hcase := buildTarget_all P cfg defs fuel t0 s hm
    cases hcase with
    | depFailed h e => rw [e] at hts; simp [failT, failStat, hlab0] at hts; subst hts; simp at hk
    | noHash h h2 e => rw [e] at hts; simp [failT, failStat, hlab0] at hts; subst hts; simp at hk
    | failed ohs s2 h h2 h3 e e2 => rw [e2] at hts; simp [failT, failStat, hlab0] at hts; subst hts; simp at hk
    | hit ohs h h2 e =>
      obtain ⟨r, fs', hr, hta, _, _, hchk, hrest, hs1⟩ := tryHit_all_some hm e
      obtain ⟨hv, hb, hfs⟩ := restore_some hrest
      have hks : keyState t0 (buildTarget P cfg defs fuel t0 s).fs ohs = keyState t0 s.fs ohs :=
        keyState_congr t0 _ _ ohs (fs_inputs l (by assumption) t0 ht0)
      have hch : checksPass s.fs t0.checks = true := by
        rcases hchk with h' | h'
        · exact h'
        · rw [hpl.gate] at h'; cases h'
      refine ⟨t0, ts, ohs, r, ht0, hts, hk, by rw [ohs_frame _ deps_l0]; exact h2, ?_, ?_, hv, ?_, ?_,
        by rw [fs_checks l (by assumption) t0 ht0]; exact hch⟩
      · rw [hks]; rw [hs1]; exact hr
      · rw [hs1] at hts; simp [hlab0] at hts; rw [← hts]
      · intro ov hov; rw [hs1]; exact hb ov hov
      · rw [hs1]; rw [← hlab0]; exact hta
    | ran ohs h h2 h3 e =>
      obtain ⟨hx, hfs, hc, ovs, hcol, hres, hcas, htaint, hst⟩ := execTarget_true e
      obtain ⟨hm1, hm2⟩ := collect_some hcol
      have hnc : (t0.noCache || !cfg.enableCache) = false := by
        rw [hpl.cached l (by assumption) t0 ht0, hpl.enabled]; rfl
      have hks : keyState t0 (buildTarget P cfg defs fuel t0 s).fs ohs = keyState t0 s.fs ohs :=
        keyState_congr t0 _ _ ohs (fs_inputs l (by assumption) t0 ht0)
      refine ⟨t0, ts, ohs, resFor cfg t0 (P.K (keyState t0 s.fs ohs)) ovs, ht0, hts, hk, by rw [ohs_frame _ deps_l0]; exact h2, ?_, ?_, ?_, ?_, ?_, hc⟩
      · rw [hks, hres, upd_same]
      · rw [hst, hlab0, upd_same] at hts; simp only [Option.some.injEq] at hts; rw [← hts]; rfl
      · simp only [resFor, hnc, Bool.false_eq_true, ↓reduceIte]; exact hm1
      · intro ov hov
        simp only [resFor, hnc, Bool.false_eq_true, ↓reduceIte] at hov
        rw [hcas]; simp only [hnc, Bool.false_eq_true, ↓reduceIte]
        exact addBlobs_mem _ _ ov hov
      · rw [htaint, hpl.sync]
        cases hta : s.cache.taint t0.label with
        | true => simp [hlab0]
        | false => simp; rw [← hlab0]; exact hta

end Grog.Build

namespace Grog.Build
open Grog Grog.Exec
variable {κ : Type} [DecidableEq κ]

def okAt (s : BState κ) (l : Lbl) : Prop := ∃ ts, s.st l = some ts ∧ ts.ok = true

theorem inOk_step {P : Params κ} {A : AdmSpec κ} (hG : GoodK P A) {cfg : Cfg} (hm : cfg.minimal = false) {defs : Defs} {order : List Lbl}
    (hwf : WF defs order) (fuel : Nat) (l0 : Lbl) (hl0 : l0 ∈ order) (t0 : Target) (ht0 : defs l0 = some t0) (s : BState κ)
    (hin : InOk A defs order s.fs) : InOk A defs order (buildTarget P cfg defs fuel t0 s).fs := by
  intro l hl t ht p hp v hv
  rw [(step_frameK hG hm defs fuel t0 (hwf.hdeps l0 hl0 t0 ht0).2.1 s).2.1 p (hwf.inputsOff l hl t ht l0 hl0 t0 ht0 p hp)] at hv
  exact hin l hl t ht p hp v hv

theorem settled_run_auxK {P : Params κ} {A : AdmSpec κ} (hG : GoodK P A) {cfg : Cfg} {defs : Defs} {order : List Lbl} (hwf : WF defs order)
    (hT : ∀ l ∈ order, ∀ t, defs l = some t → A.tgt t) (hpl : Plain P cfg defs order) (fuel : Nat) :
    ∀ (rest pre : List Lbl) (s : BState κ), order = pre ++ rest → InOk A defs order s.fs →
      (∀ l ∈ pre, okAt s l → Settled P defs s l) →
      ∀ l ∈ pre ++ rest, okAt (run P cfg defs fuel rest s) l → Settled P defs (run P cfg defs fuel rest s) l := by
  intro rest
  induction rest with
  | nil => intro pre s _ _ hK l hl; simp only [List.append_nil] at hl; simpa [run] using hK l hl
  | cons l0 rest ih =>
    intro pre s ho hin hK
    obtain ⟨t0, ht0⟩ := hwf.defined l0 (by rw [ho]; simp)
    have hstep := settled_stepK hG hwf hT hpl fuel pre l0 rest ho t0 ht0 s hin hK
    have := ih (pre ++ [l0]) (buildTarget P cfg defs fuel t0 s) (by rw [ho]; simp)
      (inOk_step hG hpl.all hwf fuel l0 (by rw [ho]; simp) t0 ht0 s hin) hstep
    simp only [run, List.foldl_cons, stepTarget, ht0]
    simpa [run] using this

theorem settled_step {P : Params κ} (hG : Good P) {cfg : Cfg} {defs : Defs} {order : List Lbl} (hwf : WF defs order)
    (hpl : Plain P cfg defs order) (fuel : Nat)
    (pre : List Lbl) (l0 : Lbl) (suf : List Lbl) (ho : order = pre ++ l0 :: suf) (t0 : Target) (ht0 : defs l0 = some t0)
    (s : BState κ) (hK : ∀ l ∈ pre, (∃ ts, s.st l = some ts ∧ ts.ok = true) → Settled P defs s l) :
    ∀ l ∈ pre ++ [l0], (∃ ts, (buildTarget P cfg defs fuel t0 s).st l = some ts ∧ ts.ok = true) →
      Settled P defs (buildTarget P cfg defs fuel t0 s) l :=
  settled_stepK (GoodK_of_Good hG) hwf (fun _ _ _ _ => trivial) hpl fuel pre l0 suf ho t0 ht0 s (fun _ _ _ _ _ _ _ _ => trivial) hK

theorem settled_run_aux {P : Params κ} (hG : Good P) {cfg : Cfg} {defs : Defs} {order : List Lbl} (hwf : WF defs order)
    (hpl : Plain P cfg defs order) (fuel : Nat) :
    ∀ (rest pre : List Lbl) (s : BState κ), order = pre ++ rest → (∀ l ∈ pre, okAt s l → Settled P defs s l) →
      ∀ l ∈ pre ++ rest, okAt (run P cfg defs fuel rest s) l → Settled P defs (run P cfg defs fuel rest s) l :=
  fun rest pre s ho hK => settled_run_auxK (GoodK_of_Good hG) hwf (fun _ _ _ _ => trivial) hpl fuel rest pre s ho
    (fun _ _ _ _ _ _ _ _ => trivial) hK

theorem succeeded_iff (s : BState κ) (order : List Lbl) : succeeded s order = true ↔ ∀ l ∈ order, okAt s l := by
  simp only [succeeded, List.all_eq_true, okAt]
  constructor
  · intro h l hl
    have := h l hl
    split at this
    · rename_i ts hts; exact ⟨ts, hts, this⟩
    · cases this
  · intro h l hl
    obtain ⟨ts, hts, hk⟩ := h l hl
    simp [hts, hk]

theorem depsOk_intro (st : Lbl → Option (TStat κ)) (deps : List Lbl) (h : ∀ d ∈ deps, ∃ ts, st d = some ts ∧ ts.ok = true) :
    depsOk st deps = true := by
  simp only [depsOk, List.all_eq_true]
  intro d hd
  obtain ⟨ts, hts, hk⟩ := h d hd
  simp [hts, hk]

theorem tryHit_all_intro (P : Params κ) (cfg : Cfg) (t : Target) (k : κ) (s : BState κ) (r : Result κ)
    (hm : cfg.minimal = false) (hr : s.cache.res k = some r) (hta : s.cache.taint t.label = false) (hn : t.noCache = false)
    (hc : cfg.enableCache = true) (hch : checksPass s.fs t.checks = true) (hv : r.outs.map (·.1) = t.outs)
    (hb : ∀ ov ∈ r.outs, s.cache.cas ov.2 = true) :
    tryHit P cfg t k s = some { s with fs := writeOuts s.fs r.outs,
                                       st := upd s.st t.label (some { ok := true, key := some k, oh := some r.oh, loaded := true }) } := by
  have h1 : (List.map (fun x => x.1) r.outs == t.outs) = true := by rw [hv]; simp
  have h2 : (r.outs.all fun ov => s.cache.cas ov.2) = true := List.all_eq_true.2 hb
  simp [tryHit, hr, hta, hn, hc, hch, hm, restore, validate, h1, h2]

theorem buildTarget_hit_intro (P : Params κ) (cfg : Cfg) (defs : Defs) (fuel : Nat) (t : Target) (s s1 : BState κ)
    (ohs : List (OH κ)) (hd : depsOk s.st t.deps = true) (ho : depOhs s.st t.hdeps = some ohs)
    (hh : tryHit P cfg t (P.K (keyState t s.fs ohs)) s = some s1) (hm : cfg.minimal = false) : buildTarget P cfg defs fuel t s = s1 := by
  rw [buildTarget_all_eq P cfg defs fuel t s hm]
  simp [buildTargetNoPre, hd, ho, hh]

/-- the second build: every target is a hit -/
structure Second (defs : Defs) (order : List Lbl) (f s2 : BState κ) (done : List Lbl) : Prop where
  log : s2.log = []
  cache : s2.cache = f.cache
  fsOff : ∀ p, (∀ l ∈ order, ∀ t, defs l = some t → p ∉ outPaths t) → s2.fs p = f.fs p
  st : ∀ l ∈ done, okAt s2 l ∧ ohOf s2.st l = ohOf f.st l

theorem second_stepK {P : Params κ} {cfg : Cfg} {defs : Defs} {order : List Lbl} (hwf : WF defs order)
    (hpl : Plain P cfg defs order) (fuel : Nat) (f : BState κ) (hf : ∀ l ∈ order, Settled P defs f l)
    (pre : List Lbl) (l0 : Lbl) (suf : List Lbl) (ho : order = pre ++ l0 :: suf) (t0 : Target) (ht0 : defs l0 = some t0)
    (s2 : BState κ) (hJ : Second defs order f s2 pre) :
    Second defs order f (buildTarget P cfg defs fuel t0 s2) (pre ++ [l0]) := by
  have hl0o : l0 ∈ order := by rw [ho]; simp
  have hlab0 : t0.label = l0 := hwf.label l0 t0 ht0
  obtain ⟨hhd0, hwr0, hnod0⟩ := hwf.hdeps l0 hl0o t0 ht0
  have hdeps : ∀ d ∈ t0.deps, d ∈ pre := hwf.topo pre l0 suf ho t0 ht0
  obtain ⟨t, tsf, ohs, r, ht, htsf, hkf, hohf, hresf, hroh, hv, hb, hta, hch⟩ := hf l0 hl0o
  rw [ht0] at ht; simp only [Option.some.injEq] at ht; subst ht
  have hd : depsOk s2.st t0.deps = true := depsOk_intro _ _ (fun d hdm => (hJ.st d (hdeps d hdm)).1)
  have hohs : depOhs s2.st t0.hdeps = some ohs := by
    rw [← hohf]; apply depOhs_congr
    intro d hdm; rw [hhd0] at hdm; exact (hJ.st d (hdeps d hdm)).2
  have hoff_in : ∀ p ∈ t0.inputs, s2.fs p = f.fs p :=
    fun p hp => hJ.fsOff p (fun l' hl' t' ht' => hwf.inputsOff l0 hl0o t0 ht0 l' hl' t' ht' p hp)
  have hks : keyState t0 s2.fs ohs = keyState t0 f.fs ohs := keyState_congr t0 _ _ ohs hoff_in
  have hch2 : checksPass s2.fs t0.checks = true := by
    rw [← hch]; apply checksPass_congr
    intro c hc; exact hJ.fsOff c.1 (fun l' hl' t' ht' => hwf.checksOff l0 hl0o t0 ht0 l' hl' t' ht' c hc)
  have hhit := tryHit_all_intro P cfg t0 (P.K (keyState t0 s2.fs ohs)) s2 r hpl.all
    (by rw [hks, hJ.cache]; exact hresf) (by rw [hJ.cache, hlab0]; exact hta) (hpl.cached l0 hl0o t0 ht0) hpl.enabled hch2 hv
    (fun ov hov => by rw [hJ.cache]; exact hb ov hov)
  rw [buildTarget_hit_intro P cfg defs fuel t0 s2 _ ohs hd hohs hhit hpl.all]
  refine ⟨hJ.log, hJ.cache, fun p hp => ?_, fun l hl => ?_⟩
  · simp only
    rw [writeOuts_not_mem _ _ _ (by have := hp l0 hl0o t0 ht0; rw [outPaths, ← hv, List.map_map] at this; exact this)]
    exact hJ.fsOff p hp
  · rcases List.mem_append.1 hl with hl1 | hl2
    · have hne : l ≠ t0.label := by
        rw [hlab0]; intro e
        have hnd := hwf.nodup; rw [ho] at hnd
        exact (List.nodup_append.1 hnd).2.2 l hl1 l0 (by simp) e
      simp only [okAt, ohOf, upd_other _ _ _ _ hne]
      exact hJ.st l hl1
    · simp only [List.mem_singleton] at hl2; subst hl2
      simp only [okAt, ohOf, ← hlab0, upd_same, htsf]
      exact ⟨⟨_, rfl, rfl⟩, by rw [show f.st t0.label = some tsf from by rw [hlab0]; exact htsf]; exact hroh.symm⟩

theorem second_run_auxK {P : Params κ} {cfg : Cfg} {defs : Defs} {order : List Lbl} (hwf : WF defs order)
    (hpl : Plain P cfg defs order) (fuel : Nat) (f : BState κ) (hf : ∀ l ∈ order, Settled P defs f l) :
    ∀ (rest pre : List Lbl) (s2 : BState κ), order = pre ++ rest → Second defs order f s2 pre →
      Second defs order f (run P cfg defs fuel rest s2) (pre ++ rest) := by
  intro rest
  induction rest with
  | nil => intro pre s2 _ hJ; simpa [run] using hJ
  | cons l0 rest ih =>
    intro pre s2 ho hJ
    obtain ⟨t0, ht0⟩ := hwf.defined l0 (by rw [ho]; simp)
    have hstep := second_stepK hwf hpl fuel f hf pre l0 rest ho t0 ht0 s2 hJ
    have := ih (pre ++ [l0]) (buildTarget P cfg defs fuel t0 s2) (by rw [ho]; simp) hstep
    simp only [run, List.foldl_cons, stepTarget, ht0]
    simpa [run] using this

theorem second_run_aux {P : Params κ} (hG : Good P) {cfg : Cfg} {defs : Defs} {order : List Lbl} (hwf : WF defs order)
    (hpl : Plain P cfg defs order) (fuel : Nat) (f : BState κ) (hf : ∀ l ∈ order, Settled P defs f l) :
    ∀ (rest pre : List Lbl) (s2 : BState κ), order = pre ++ rest → Second defs order f s2 pre →
      Second defs order f (run P cfg defs fuel rest s2) (pre ++ rest) :=
  second_run_auxK hwf hpl fuel f hf

end Grog.Build
