/-
  Two consequences of the characterisation by `Spec.valid`:
  * the specification only looks at the *set* of nodes, so the verdict does not depend on the order in
    which packages, targets and aliases are enumerated (Go iterates over maps);
  * a rejection names a defect that is present.
-/
import GrogModel.Lemmas.AnalysisConstraints
import GrogModel.Lemmas.AnalysisCycle
namespace Grog.Analysis
open Grog Grog.Paths Spec

/-! ## order independence of the specification -/

theorem resolvesTo_mono {ns ns' : List Node} (hsub : ∀ n, n ∈ ns → n ∈ ns') {d : Label} {u : Target}
    (h : ResolvesTo ns d u) : ResolvesTo ns' d u := by
  induction h with
  | target ht => exact .target (hsub _ ht)
  | alias ha _ ih => exact .alias (hsub _ ha) ih

section perm
variable {ns ns' : List Node} (hm : ∀ n, n ∈ ns ↔ n ∈ ns')
include hm

theorem dep_congr {x y : Label} : Dep ns x y ↔ Dep ns' x y := by
  constructor
  · rintro ⟨n, hn, h⟩; exact ⟨n, (hm n).mp hn, h⟩
  · rintro ⟨n, hn, h⟩; exact ⟨n, (hm n).mpr hn, h⟩

theorem reach_congr {x y : Label} : Reach ns x y ↔ Reach ns' x y := by
  constructor
  · intro h; exact h.mono (fun a b hab => (dep_congr hm).mp hab)
  · intro h; exact h.mono (fun a b hab => (dep_congr hm).mpr hab)

theorem defined_congr {l : Label} : Defined ns l ↔ Defined ns' l := by
  constructor
  · rintro ⟨n, hn, h⟩; exact ⟨n, (hm n).mp hn, h⟩
  · rintro ⟨n, hn, h⟩; exact ⟨n, (hm n).mpr hn, h⟩

theorem conflict_congr (ws : Bytes) : Conflict ws ns ↔ Conflict ws ns' := by
  constructor
  · rintro ⟨t, u, ht, hu, hne, hno, h⟩
    exact ⟨t, u, (hm _).mp ht, (hm _).mp hu, hne,
      fun ho => hno (ho.imp (reach_congr hm).mpr (reach_congr hm).mpr), h⟩
  · rintro ⟨t, u, ht, hu, hne, hno, h⟩
    exact ⟨t, u, (hm _).mpr ht, (hm _).mpr hu, hne,
      fun ho => hno (ho.imp (reach_congr hm).mp (reach_congr hm).mp), h⟩

theorem badTestDep_congr : BadTestDep ns ↔ BadTestDep ns' := by
  constructor
  · rintro ⟨t, d, u, ht, hd, hr, hb⟩
    exact ⟨t, d, u, (hm _).mp ht, hd, resolvesTo_mono (fun n => (hm n).mp) hr, hb⟩
  · rintro ⟨t, d, u, ht, hd, hr, hb⟩
    exact ⟨t, d, u, (hm _).mpr ht, hd, resolvesTo_mono (fun n => (hm n).mpr) hr, hb⟩

end perm

/-- `Spec.valid` depends only on the multiset of nodes -/
theorem valid_perm (ws : Bytes) {ps ps' : List Pkg} (hp : (allNodes ps).Perm (allNodes ps')) :
    Spec.valid ws ps → Spec.valid ws ps' := by
  have hm : ∀ n, n ∈ allNodes ps ↔ n ∈ allNodes ps' := fun n => hp.mem_iff
  intro h
  refine ⟨?_, ?_, ?_, ?_, ?_, ?_, ?_⟩
  · exact ((hp.map Node.label).nodup_iff).mp h.noDuplicate
  · intro x y hd
    exact (defined_congr hm).mp (h.depsDefined x y ((dep_congr hm).mpr hd))
  · intro x hx; exact h.noCycle x ((reach_congr hm).mpr hx)
  · intro hc; exact h.noConflict ((conflict_congr hm ws).mpr hc)
  · intro t ht; exact h.inputs t ((hm _).mpr ht)
  · intro t ht; exact h.outputs t ((hm _).mpr ht)
  · intro hb; exact h.testDeps ((badTestDep_congr hm).mpr hb)

/-! ## a rejection names a defect that is present -/

/-- the graph has a defect of the given kind -/
def Spec.hasDefect (ws : Bytes) (ns : List Node) : Kind → Prop
  | .duplicate => ¬ NoDuplicate ns
  | .unknownDep => ¬ DepsDefined ns
  | .selfLoop => ∃ n ∈ ns, n.label ∈ n.deps
  | .cycle => ¬ NoCycle ns
  | .conflict => Conflict ws ns
  | .inputEscape => ∃ t, Node.target t ∈ ns ∧ ∃ i ∈ t.checkedInputs, InputEscapes i
  | .outputEscape => ∃ t, Node.target t ∈ ns ∧ ∃ o ∈ t.outs, OutputEscapes ws t o
  | .testDep => BadTestDep ns
  | .testNoCommand => ∃ t, Node.target t ∈ ns ∧ t.isTest = true ∧ t.hasCmd = false

theorem edgeCheck_some {ns : List Node} {n : Node} {k : Kind} (h : edgeCheck ns n = some k) :
    (k = .unknownDep ∧ ∃ d ∈ n.deps, ¬ Defined ns d) ∨ (k = .selfLoop ∧ n.label ∈ n.deps) := by
  unfold edgeCheck at h
  obtain ⟨d, hd, hk⟩ := List.exists_of_findSome?_eq_some h
  cases hl : lookup ns d with
  | none =>
    simp only [hl, Option.some.injEq] at hk
    exact .inl ⟨hk.symm, d, hd, lookup_none hl⟩
  | some m =>
    simp only [hl] at hk
    split at hk
    · rename_i hml
      simp only [Option.some.injEq] at hk
      have : m.label = n.label := by simpa using hml
      exact .inr ⟨hk.symm, this ▸ (lookup_some hl).2 ▸ hd⟩
    · cases hk

theorem edgeErrors_some {ns : List Node} {k : Kind} (h : edgeErrors ns = some k) :
    (k = .unknownDep ∧ ¬ DepsDefined ns) ∨ (k = .selfLoop ∧ ∃ n ∈ ns, n.label ∈ n.deps) := by
  unfold edgeErrors at h
  obtain ⟨n, hn, hk⟩ := List.exists_of_findSome?_eq_some h
  rcases edgeCheck_some hk with ⟨rfl, d, hd, hnd⟩ | ⟨rfl, hs⟩
  · exact .inl ⟨rfl, fun hdef => hnd (hdef n.label d ⟨n, hn, rfl, hd⟩)⟩
  · exact .inr ⟨rfl, n, hn, hs⟩

theorem mem_inputErrors {t : Target} {k : Kind} (h : k ∈ inputErrors Cfg.current t) :
    k = .inputEscape ∧ ∃ i ∈ t.checkedInputs, InputEscapes i := by
  unfold inputErrors at h
  simp only [Cfg.current, if_true] at h
  obtain ⟨i, hi, hk⟩ := List.mem_filterMap.mp h
  by_cases ha : isAbs i = true
  · simp only [ha, if_true, Option.some.injEq] at hk
    exact ⟨hk.symm, i, hi, .inl ha⟩
  · have ha' : isAbs i = false := by simpa using ha
    simp only [ha', Bool.false_eq_true, if_false] at hk
    split at hk
    · rename_i he
      simp only [Option.some.injEq] at hk
      exact ⟨hk.symm, i, hi, .inr ((triesToEscape_rel ha').mp he)⟩
    · cases hk

theorem mem_outputErrors {ws : Bytes} (hws : isAbs ws = true) {t : Target} {k : Kind}
    (h : k ∈ outputErrors Cfg.current ws t) :
    k = .outputEscape ∧ ∃ o ∈ t.outs, OutputEscapes ws t o := by
  unfold outputErrors checkedOuts at h
  obtain ⟨i, hi, hk⟩ := List.mem_filterMap.mp h
  simp only [List.mem_map, List.mem_filter, Cfg.current, Bool.true_and, Bool.or_eq_true,
    decide_eq_true_eq] at hi
  obtain ⟨o, ⟨ho, hkind⟩, rfl⟩ := hi
  have hk' : o.kind ≠ .docker := by rcases hkind with h | h <;> simp [h]
  by_cases ha : isAbs o.ident = true
  · simp only [ha, if_true, Option.some.injEq] at hk
    exact ⟨hk.symm, o, ho, hk', .inl ha⟩
  · have ha' : isAbs o.ident = false := by simpa using ha
    simp only [ha', Bool.false_eq_true, if_false] at hk
    split at hk
    · rename_i he
      simp only [Option.some.injEq] at hk
      refine ⟨hk.symm, o, ho, hk', .inr ?_⟩
      intro hp
      have := (isWithinWorkspace_abs hws).mpr hp
      simp [this] at he
    · cases hk

theorem mem_depErrors {ns : List Node} {t : Target} {k : Kind} (h : k ∈ depErrors ns t) :
    k = .testDep ∧ ∃ d ∈ t.deps, ∃ u, ResolvesTo ns d u ∧ BadDep t u := by
  unfold depErrors at h
  obtain ⟨d, hd, hk⟩ := List.mem_filterMap.mp h
  cases hr : resolve ns (ns.length + 1) d with
  | none => simp [hr] at hk
  | some u =>
    simp only [hr] at hk
    split at hk
    · rename_i hb
      simp only [Option.some.injEq] at hk
      exact ⟨hk.symm, d, hd, u, resolve_sound _ _ _ hr, badDep_iff.mp hb⟩
    · cases hk

theorem mem_constraintErrors {ws : Bytes} (hws : isAbs ws = true) {ns : List Node} {k : Kind}
    (h : k ∈ constraintErrors Cfg.current ws ns) : Spec.hasDefect ws ns k := by
  unfold constraintErrors at h
  rcases List.mem_append.mp h with h | h
  · obtain ⟨t, ht, hk⟩ := List.mem_flatMap.mp h
    have ht' := mem_targetsOf.mp ht
    unfold targetErrors at hk
    rcases List.mem_append.mp hk with hk | hk
    · rcases List.mem_append.mp hk with hk | hk
      · obtain ⟨rfl, i, hi, he⟩ := mem_inputErrors hk
        exact ⟨t, ht', i, hi, he⟩
      · obtain ⟨rfl, o, ho, he⟩ := mem_outputErrors hws hk
        exact ⟨t, ht', o, ho, he⟩
    · split at hk
      · rename_i hc
        simp only [List.mem_singleton] at hk
        subst hk
        simp only [Bool.and_eq_true, Bool.not_eq_true'] at hc
        exact ⟨t, ht', hc.1, hc.2⟩
      · cases hk
  · obtain ⟨t, ht, hk⟩ := List.mem_flatMap.mp h
    obtain ⟨rfl, d, hd, u, hr, hb⟩ := mem_depErrors hk
    exact ⟨t, d, u, mem_targetsOf.mp ht, hd, hr, hb⟩

end Grog.Analysis
