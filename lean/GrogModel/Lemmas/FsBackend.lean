/-
  The invariant of the op-level file-system backend model is inductive.
-/
import GrogModel.FsBackend
namespace Grog.FsBackend
open Grog

theorem inv_init : Inv init := by
  constructor <;> simp [init]

set_option linter.unusedSimpArgs false in
theorem inv_step {s s' : State} (h : Inv s) (e : Ev) (hs : step s e = some s') : Inv s' := by
  obtain ⟨h1, h2, h3, h4, h5, h6, h7⟩ := h
  cases e with
  | «begin» p ns key content =>
    simp only [step] at hs
    cases hp : s.procs p with
    | some pr => simp [hp] at hs
    | none =>
      simp [hp] at hs; subst hs
      constructor <;> simp only [setProc, setFile] <;> grind
  | createTemp p i =>
    simp only [step] at hs
    cases hp : s.procs p with
    | none => simp [hp] at hs
    | some pr =>
      simp only [hp] at hs
      split at hs
      · rename_i hc
        simp at hs; subst hs
        simp at hc
        constructor <;> simp only [setProc, setFile] <;> grind
      · simp at hs
  | write p n =>
    simp only [step] at hs
    cases hp : s.procs p with
    | none => simp [hp] at hs
    | some pr =>
      simp only [hp] at hs
      cases ht : pr.tmp with
      | none => simp [ht] at hs
      | some i =>
        simp only [ht] at hs
        split at hs
        · rename_i hc
          simp at hs; subst hs
          simp at hc
          constructor <;> simp only [setProc, setFile] <;> grind
        · simp at hs
  | close p =>
    simp only [step] at hs
    cases hp : s.procs p with
    | none => simp [hp] at hs
    | some pr =>
      simp only [hp] at hs
      split at hs
      · rename_i hc
        simp at hs; subst hs
        simp at hc
        constructor <;> simp only [setProc, setFile] <;> grind
      · simp at hs
  | rename p =>
    simp only [step] at hs
    cases hp : s.procs p with
    | none => simp [hp] at hs
    | some pr =>
      simp only [hp] at hs
      cases ht : pr.tmp with
      | none => simp [ht] at hs
      | some i =>
        simp only [ht] at hs
        split at hs
        · rename_i hc
          simp at hs; subst hs
          have hfull := h4 p pr hp hc
          have hcont := h3 p pr i hp ht
          have hhist := h6 p pr hp
          constructor <;> simp only [setProc, setFile] <;> grind
        · simp at hs
  | fail p =>
    simp only [step] at hs
    cases hp : s.procs p with
    | none => simp [hp] at hs
    | some pr =>
      simp only [hp] at hs
      cases ht : pr.tmp with
      | none =>
        simp [ht] at hs; subst hs
        constructor <;> simp only [setProc, setFile] <;> grind
      | some i =>
        simp [ht] at hs; subst hs
        constructor <;> simp only [setProc, setFile] <;> grind
  | crash p =>
    simp only [step] at hs
    cases hp : s.procs p with
    | none => simp [hp] at hs
    | some pr =>
      simp [hp] at hs; subst hs
      constructor <;> simp only [setProc, setFile] <;> grind
  | delete ns key =>
    simp only [step] at hs
    simp at hs; subst hs
    constructor <;> simp only [setProc, setFile] <;> grind

theorem inv_run {s s' : State} (h : Inv s) (es : List Ev) (hr : run s es = some s') : Inv s' := by
  induction es generalizing s with
  | nil => simp [run] at hr; subst hr; exact h
  | cons e es ih =>
    simp only [run] at hr
    cases hst : step s e with
    | none => simp [hst] at hr
    | some s1 => simp only [hst] at hr; exact ih (inv_step h e hst) hr

/-- temp files are never visible entries, by construction of the names -/
theorem tmp_not_visible (i : Nat) (ns k : Bytes) : FName.tmp i ≠ FName.key ns k := by simp

/-- every entry of the ghost history comes from a `begin` event -/
theorem hist_run {s s' : State} (es : List Ev) (hr : run s es = some s') :
    ∀ x ∈ s'.hist, x ∈ s.hist ∨ ∃ p, Ev.begin p x.1 x.2.1 x.2.2 ∈ es := by
  induction es generalizing s with
  | nil => simp [run] at hr; subst hr; intro x hx; exact Or.inl hx
  | cons e es ih =>
    simp only [run] at hr
    cases hst : step s e with
    | none => simp [hst] at hr
    | some s1 =>
      simp only [hst] at hr
      intro x hx
      rcases ih hr x hx with h | ⟨p, h⟩
      · -- x ∈ s1.hist: either old or introduced by e
        cases e with
        | «begin» p ns key content =>
          simp only [step] at hst
          cases hp : s.procs p with
          | some pr => simp [hp] at hst
          | none =>
            simp [hp] at hst; subst hst
            simp at h
            rcases h with rfl | h
            · exact Or.inr ⟨p, by simp⟩
            · exact Or.inl h
        | createTemp p i =>
          simp only [step] at hst
          cases hp : s.procs p <;> simp [hp] at hst
          obtain ⟨_, rfl⟩ := hst; exact Or.inl h
        | write p n =>
          simp only [step] at hst
          cases hp : s.procs p with
          | none => simp [hp] at hst
          | some pr =>
            cases ht : pr.tmp <;> simp [hp, ht] at hst
            obtain ⟨_, rfl⟩ := hst; exact Or.inl h
        | close p =>
          simp only [step] at hst
          cases hp : s.procs p <;> simp [hp] at hst
          obtain ⟨_, rfl⟩ := hst; exact Or.inl h
        | rename p =>
          simp only [step] at hst
          cases hp : s.procs p with
          | none => simp [hp] at hst
          | some pr =>
            cases ht : pr.tmp <;> simp [hp, ht] at hst
            obtain ⟨_, rfl⟩ := hst; exact Or.inl h
        | fail p =>
          simp only [step] at hst
          cases hp : s.procs p with
          | none => simp [hp] at hst
          | some pr =>
            cases ht : pr.tmp <;> simp [hp, ht] at hst <;> subst hst <;> exact Or.inl h
        | crash p =>
          simp only [step] at hst
          cases hp : s.procs p <;> simp [hp] at hst
          subst hst; exact Or.inl h
        | delete ns key =>
          simp [step] at hst; subst hst; exact Or.inl h
      · exact Or.inr ⟨p, List.mem_cons_of_mem _ h⟩


end Grog.FsBackend
