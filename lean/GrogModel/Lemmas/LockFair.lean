/-
  Progress of the flock winner under *every* interleaving: once a process holds the flock on the inode
  the lock path names, no event of any other process (steps, crashes, unlocks) can take the lock away from
  it or change the path, so its next four own calls make it the holder.
-/
import GrogModel.Lemmas.LockLive
namespace Grog.Lock

/-- the process an event belongs to -/
def Ev.proc : Ev → Nat
  | .step i => i
  | .crash i => i
  | .unlock i => i

/-- (inode, number of own calls left until `Lock()` returns) on the winning path -/
def PC.stage : PC → Option (Nat × Nat)
  | .locked n => some (n, 4)
  | .statted n => some (n, 3)
  | .verified n => some (n, 2)
  | .truncated n => some (n, 1)
  | .holding n => some (n, 0)
  | _ => none

theorem stage_owns {pc : PC} {n k : Nat} (h : pc.stage = some (n, k)) : pc.owns n := by
  cases pc <;> simp [PC.stage] at h <;> simp [PC.owns, h.1]

/-- an event of another process changes neither the path nor our program counter while we own the flock
    of the inode the path names -/
theorem other_event_keeps {s s' : State} {e : Ev} {w n : Nat} (inv : Inv s) (ho : (s.pc w).owns n)
    (hp : s.path = some n) (he : e.proc ≠ w) (h : step s e = some s') :
    s'.path = some n ∧ s'.pc w = s.pc w := by
  have hfw : s.flock n = some w := inv.owns w n ho
  cases e with
  | step i =>
    have hi : w ≠ i := fun c => he (by simp [Ev.proc, c])
    simp only [step] at h
    split at h
    · -- idle
      split at h
      · injection h with h; subst h; simp [State.setPc, State.setProc, State.pc, hp, hi]
      · rename_i hnone; rw [hp] at hnone; cases hnone
    · split at h <;> injection h with h <;> subst h <;> simp [State.setPc, State.setProc, State.pc, hp, hi]
    · injection h with h; subst h; simp [State.setPc, State.setProc, State.pc, hp, hi]
    · split at h <;> injection h with h <;> subst h <;> simp [State.setPc, State.setProc, State.pc, hp, hi]
    · injection h with h; subst h; simp [State.setPc, State.setProc, State.pc, hp, hi]
    · injection h with h; subst h; simp [State.setPc, State.setProc, State.pc, hp, hi]
    · injection h with h; subst h; simp [State.setPc, State.setProc, State.pc, State.release, hp, hi]
    · injection h with h; subst h; simp [State.setPc, State.setProc, State.pc, hp, hi]
    · injection h with h; subst h; simp [State.setPc, State.setProc, State.pc, hp, hi]
    · injection h with h; subst h; simp [State.setPc, State.setProc, State.pc, hp, hi]
    · -- unlocking m by i: impossible, i would be critical for the inode the path names, which we own
      rename_i m hpc
      have hc : (s.pc i).critical m := by rw [hpc]; simp [PC.critical]
      have hpm := inv.crit i m hc
      rw [hp] at hpm; injection hpm with hpm; subst hpm
      have := inv.owns i n (PC.critical_owns hc)
      rw [hfw] at this; injection this with this; exact absurd this hi
    · injection h with h; subst h; simp [State.setPc, State.setProc, State.pc, State.release, hp, hi]
    · cases h
    · cases h
    · cases h
  | unlock i =>
    have hi : w ≠ i := fun c => he (by simp [Ev.proc, c])
    simp only [step] at h
    split at h
    · injection h with h; subst h; simp [State.setPc, State.setProc, State.pc, hp, hi]
    · cases h
  | crash i =>
    have hi : w ≠ i := fun c => he (by simp [Ev.proc, c])
    simp only [step] at h
    split at h
    · cases h
    · cases h
    · injection h with h; subst h; simp [State.setPc, State.setProc, State.pc, State.releaseAll, hp, hi]

/-- number of `step w` events -/
def countSteps (w : Nat) : List Ev → Nat
  | [] => 0
  | e :: es => (if e = .step w then 1 else 0) + countSteps w es

/-- our own step on the winning path: one call less to go, path untouched -/
theorem own_step_advances {s : State} {w n k : Nat} (hst : (s.pc w).stage = some (n, k + 1)) (hp : s.path = some n) :
    ∃ s', step s (.step w) = some s' ∧ (s'.pc w).stage = some (n, k) ∧ s'.path = some n := by
  cases hpc : s.pc w with
  | locked m =>
    rw [hpc] at hst; simp [PC.stage] at hst; obtain ⟨rfl, rfl⟩ := hst
    exact ⟨s.setPc w (.statted m), by simp only [step, hpc], by simp [PC.stage], by simpa using hp⟩
  | statted m =>
    rw [hpc] at hst; simp [PC.stage] at hst; obtain ⟨rfl, rfl⟩ := hst
    exact ⟨s.setPc w (.verified m), by simp only [step, hpc, hp, if_true], by simp [PC.stage], by simpa using hp⟩
  | verified m =>
    rw [hpc] at hst; simp [PC.stage] at hst; obtain ⟨rfl, rfl⟩ := hst
    exact ⟨s.setPc w (.truncated m), by simp only [step, hpc], by simp [PC.stage], by simpa using hp⟩
  | truncated m =>
    rw [hpc] at hst; simp [PC.stage] at hst; obtain ⟨rfl, rfl⟩ := hst
    exact ⟨s.setPc w (.holding m), by simp only [step, hpc], by simp [PC.stage], by simpa using hp⟩
  | holding m => rw [hpc] at hst; simp [PC.stage] at hst
  | idle => rw [hpc] at hst; simp [PC.stage] at hst
  | opened _ => rw [hpc] at hst; simp [PC.stage] at hst
  | mismatch _ => rw [hpc] at hst; simp [PC.stage] at hst
  | busy _ => rw [hpc] at hst; simp [PC.stage] at hst
  | readPid => rw [hpc] at hst; simp [PC.stage] at hst
  | waiting => rw [hpc] at hst; simp [PC.stage] at hst
  | unlocking _ => rw [hpc] at hst; simp [PC.stage] at hst
  | removed _ => rw [hpc] at hst; simp [PC.stage] at hst
  | done => rw [hpc] at hst; simp [PC.stage] at hst
  | dead => rw [hpc] at hst; simp [PC.stage] at hst

theorem holding_step_disabled {s : State} {w n : Nat} (hst : (s.pc w).stage = some (n, 0)) :
    step s (.step w) = none := by
  cases hpc : s.pc w <;> rw [hpc] at hst <;> simp [PC.stage] at hst
  simp only [step, hpc]

/-- the winner of the flock on the path's inode reaches `holding` after four own calls, whatever the other
    processes do in between (as long as it is not killed itself) -/
theorem winner_progress (w n : Nat) (es : List Ev) :
    ∀ (s : State) (k : Nat), Inv s → (s.pc w).stage = some (n, k) → s.path = some n →
      (∀ e ∈ es, e ≠ .crash w ∧ e ≠ .unlock w) →
      ((run s es).pc w).stage = some (n, k - countSteps w es) ∧ Inv (run s es) ∧ (run s es).path = some n := by
  induction es with
  | nil => intro s k inv hst hp _; simpa [run, countSteps] using ⟨hst, inv, hp⟩
  | cons e es ih =>
    intro s k inv hst hp hes
    have hes' : ∀ e ∈ es, e ≠ .crash w ∧ e ≠ .unlock w := fun x hx => hes x (List.mem_cons_of_mem _ hx)
    have he := hes e (List.mem_cons_self ..)
    by_cases hw : e = .step w
    · subst hw
      cases k with
      | zero =>
        have hd := holding_step_disabled hst
        have := ih s 0 inv hst hp hes'
        simpa [run, hd, countSteps] using this
      | succ k =>
        obtain ⟨s', hs', hst', hp'⟩ := own_step_advances hst hp
        have := ih s' k (inv_step _ inv hs') hst' hp' hes'
        simp only [run, hs', countSteps, if_true]
        have e1 : k + 1 - (1 + countSteps w es) = k - countSteps w es := by omega
        rw [e1]; exact this
    · have hproc : e.proc ≠ w := by
        intro c
        cases e with
        | step i => simp [Ev.proc] at c; subst c; exact hw rfl
        | crash i => simp [Ev.proc] at c; subst c; exact he.1 rfl
        | unlock i => simp [Ev.proc] at c; subst c; exact he.2 rfl
      cases hs : step s e with
      | none =>
        have := ih s k inv hst hp hes'
        simpa [run, hs, countSteps, hw] using this
      | some s' =>
        obtain ⟨hp', hpc'⟩ := other_event_keeps inv (stage_owns hst) hp hproc hs
        have := ih s' k (inv_step _ inv hs) (by rw [hpc']; exact hst) hp' hes'
        simpa [run, hs, countSteps, hw] using this

end Grog.Lock
