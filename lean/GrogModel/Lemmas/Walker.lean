/-
  Helper lemmas for the walker model: the invariant bundle and its preservation.
-/
import GrogModel.Walker
namespace Grog.Walker

/-! ### step characterisations -/

theorem step_wake {c : Cfg} {s s' : State} {n : Node} :
    step c s (.wake n) = some s' ↔
      n ∈ c.sel ∧ s.phase n = .parked ∧ s.ready n = true ∧
      { s with phase := set s.phase n .running } = s' := by
  simp only [step]
  split <;> simp_all

theorem step_exit {c : Cfg} {s s' : State} {n : Node} :
    step c s (.exit n) = some s' ↔
      n ∈ c.sel ∧ s.phase n = .parked ∧ s.cancel n = true ∧
      { s with phase := set s.phase n .exited } = s' := by
  simp only [step]
  split <;> simp_all

theorem step_cbReturn {c : Cfg} {s s' : State} {n : Node} {r : Res} :
    step c s (.cbReturn n r) = some s' ↔
      n ∈ c.sel ∧ s.phase n = .running ∧
      ((r = .ok ∧ { s with phase := set s.phase n (.returned true) } = s') ∨
       (r = .fail ∧ { s with phase := set s.phase n (.returned false) } = s') ∨
       (r = .cancelled ∧ s.ctx = true ∧ { s with phase := set s.phase n .aborted } = s') ∨
       (r = .cancelled ∧ s.ctx = false ∧ { s with phase := set s.phase n (.returned false) } = s')) := by
  simp only [step]
  split
  · cases r <;> simp_all
    cases hc : s.ctx <;> simp [hc]
  · simp_all

theorem step_complete {c : Cfg} {s s' : State} {n : Node} :
    step c s (.complete n) = some s' ↔
      n ∈ c.sel ∧ ((s.phase n = .returned true ∧ completeOk c s n = s') ∨
                   (s.phase n = .returned false ∧ completeFail c s n = s')) := by
  simp only [step]
  split
  · simp_all
  · split <;> simp_all

theorem step_deliverCancel {c : Cfg} {s s' : State} {n : Node} :
    step c s (.deliverCancel n) = some s' ↔
      n ∈ c.sel ∧ s.pend n = true ∧
      { s with pend := set s.pend n false, cancel := set s.cancel n true } = s' := by
  simp only [step]
  split <;> simp_all

theorem step_ctxCancel {c : Cfg} {s s' : State} :
    step c s .ctxCancel = some s' ↔ s.ctx = false ∧ { s with ctx := true } = s' := by
  simp only [step]
  split <;> simp_all

theorem step_walkReturn {c : Cfg} {s s' : State} {b : Bool} :
    step c s (.walkReturn b) = some s' ↔
      s.retErr = none ∧
      ((b = true ∧ s.ctx = true ∧
          { s with retErr := some (!s.ff), snap := s.phase,
                   pend := fun m => s.pend m || !s.cancel m } = s') ∨
       (b = false ∧ allTerminal c s.phase = true ∧
          { s with retErr := some (s.ctx && !s.ff), snap := s.phase } = s')) := by
  simp only [step]
  cases h : s.retErr <;> cases b <;> simp

end Grog.Walker

namespace Grog.Walker

/-! ### projections of `onComplete` -/

@[simp] theorem completeOk_phase (c : Cfg) (s : State) (n : Node) :
    (completeOk c s n).phase = set s.phase n .ok := by
  unfold completeOk; split <;> rfl
@[simp] theorem completeOk_cancel (c : Cfg) (s : State) (n : Node) :
    (completeOk c s n).cancel = s.cancel := by
  unfold completeOk; split <;> rfl
@[simp] theorem completeOk_pend (c : Cfg) (s : State) (n : Node) :
    (completeOk c s n).pend = s.pend := by
  unfold completeOk; split <;> rfl
@[simp] theorem completeOk_ff (c : Cfg) (s : State) (n : Node) :
    (completeOk c s n).ff = s.ff := by
  unfold completeOk; split <;> rfl
@[simp] theorem completeOk_ctx (c : Cfg) (s : State) (n : Node) :
    (completeOk c s n).ctx = s.ctx := by
  unfold completeOk; split <;> rfl
@[simp] theorem completeOk_retErr (c : Cfg) (s : State) (n : Node) :
    (completeOk c s n).retErr = s.retErr := by
  unfold completeOk; split <;> rfl
@[simp] theorem completeOk_snap (c : Cfg) (s : State) (n : Node) :
    (completeOk c s n).snap = s.snap := by
  unfold completeOk; split <;> rfl
@[simp] theorem completeFail_phase (c : Cfg) (s : State) (n : Node) :
    (completeFail c s n).phase = set s.phase n .failed := by
  unfold completeFail; split
  · rfl
  · split <;> rfl
@[simp] theorem completeFail_retErr (c : Cfg) (s : State) (n : Node) :
    (completeFail c s n).retErr = s.retErr := by
  unfold completeFail; split
  · rfl
  · split <;> rfl
@[simp] theorem completeFail_snap (c : Cfg) (s : State) (n : Node) :
    (completeFail c s n).snap = s.snap := by
  unfold completeFail; split
  · rfl
  · split <;> rfl
@[simp] theorem completeFail_ready (c : Cfg) (s : State) (n : Node) :
    (completeFail c s n).ready = s.ready := by
  unfold completeFail; split
  · rfl
  · split <;> rfl

/-! ### the invariant bundle -/

structure Inv (c : Cfg) (s : State) : Prop where
  nonSel      : ∀ n, n ∉ c.sel → s.phase n = .parked
  started     : ∀ n, (s.phase n).started = true → ∀ d, d ∈ c.deps n → s.phase d = .ok
  readyOk     : ∀ n, s.ready n = true → ∀ d, d ∈ c.deps n → s.phase d = .ok
  parkedReady : s.ff = false → ∀ n, s.phase n = .parked →
                  (∀ d, d ∈ c.deps n → s.phase d = .ok) → s.ready n = true
  failCancel  : c.failFast = false → ∀ a n, s.phase a = .failed → Anc c a n → s.cancel n = true
  failedFF    : c.failFast = true → ∀ a, s.phase a = .failed → s.ff = true
  ffCtx       : s.ff = true → s.ctx = true
  ffAll       : s.ff = true → ∀ n, s.cancel n = true ∨ s.pend n = true
  cancelWhy   : s.ctx = false → ∀ n, s.cancel n = true → ∃ a, Anc c a n ∧ s.phase a = .failed
  pendCtx     : s.ctx = false → ∀ n, s.pend n = false
  exitedWhy   : s.ctx = false → ∀ n, s.phase n = .exited → ∃ a, Anc c a n ∧ s.phase a = .failed
  abortedCtx  : ∀ n, s.phase n = .aborted → s.ctx = true
  retInv      : s.retErr.isSome = true →
                  (allTerminal c s.phase = true ∨ ∀ n, s.cancel n = true ∨ s.pend n = true)
  retErrCtx   : s.retErr = some true → s.ctx = true
  ffCfg       : s.ff = true → c.failFast = true
  ffWhy       : s.ff = true → ∃ a, a ∈ c.sel ∧ s.phase a = .failed

theorem allTerminal_iff {c : Cfg} {ph : Node → Phase} :
    allTerminal c ph = true ↔ ∀ n, n ∈ c.sel → (ph n).terminal = true := by
  simp [allTerminal]

theorem Anc.trans_dep {c : Cfg} {a x n : Node} (h : Anc c a x) (hx : x ∈ c.deps n) : Anc c a n :=
  Anc.step h hx

theorem inv_init (c : Cfg) : Inv c (init c) := by
  constructor <;> simp [init, Phase.started]
  · intro n h d hd
    simp [h] at hd
  · intro n h
    cases hd : c.deps n with
    | nil => rfl
    | cons a t => exact absurd (by simp [hd]) (h a)

theorem inv_wake {c : Cfg} {s s' : State} {n : Node} (h : Inv c s)
    (hs : step c s (.wake n) = some s') : Inv c s' := by
  obtain ⟨hsel, hph, hr, rfl⟩ := step_wake.mp hs
  have hro := h.readyOk n hr
  constructor <;> simp only [set] <;>
    grind [Inv, allTerminal_iff, Phase.started, Phase.terminal]

theorem inv_exit {c : Cfg} {s s' : State} {n : Node} (h : Inv c s)
    (hs : step c s (.exit n) = some s') : Inv c s' := by
  obtain ⟨hsel, hph, hr, rfl⟩ := step_exit.mp hs
  constructor <;> simp only [set] <;>
    grind [Inv, allTerminal_iff, Phase.started, Phase.terminal]

theorem inv_cbReturn {c : Cfg} {s s' : State} {n : Node} {r : Res} (h : Inv c s)
    (hs : step c s (.cbReturn n r) = some s') : Inv c s' := by
  obtain ⟨hsel, hph, hr⟩ := step_cbReturn.mp hs
  rcases hr with ⟨_, rfl⟩ | ⟨_, rfl⟩ | ⟨_, hc, rfl⟩ | ⟨_, hc, rfl⟩ <;>
  constructor <;> simp only [set] <;>
    grind [Inv, allTerminal_iff, Phase.started, Phase.terminal]

theorem inv_deliverCancel {c : Cfg} {s s' : State} {n : Node} (h : Inv c s)
    (hs : step c s (.deliverCancel n) = some s') : Inv c s' := by
  obtain ⟨hsel, hp, rfl⟩ := step_deliverCancel.mp hs
  constructor <;> simp only [set] <;>
    grind [Inv, allTerminal_iff, Phase.started, Phase.terminal]

theorem inv_ctxCancel {c : Cfg} {s s' : State} (h : Inv c s)
    (hs : step c s .ctxCancel = some s') : Inv c s' := by
  obtain ⟨hc, rfl⟩ := step_ctxCancel.mp hs
  constructor <;>
    grind [Inv, allTerminal_iff, Phase.started, Phase.terminal]

theorem inv_walkReturn {c : Cfg} {s s' : State} {b : Bool} (h : Inv c s)
    (hs : step c s (.walkReturn b) = some s') : Inv c s' := by
  obtain ⟨hr, hh⟩ := step_walkReturn.mp hs
  rcases hh with ⟨_, hc, rfl⟩ | ⟨_, hc, rfl⟩ <;>
  constructor <;>
    grind [Inv, allTerminal_iff, Phase.started, Phase.terminal]

theorem depsOk_iff {c : Cfg} {ph : Node → Phase} {m : Node} :
    depsOk c ph m = true ↔ ∀ d, d ∈ c.deps m → ph d = .ok := by
  simp [depsOk]

theorem inv_completeOk {c : Cfg} {s : State} {n : Node} (h : Inv c s)
    (hsel : n ∈ c.sel) (hph : s.phase n = .returned true) : Inv c (completeOk c s n) := by
  by_cases hff : s.ff = true
  · have e : completeOk c s n = { s with phase := set s.phase n .ok } := by
      simp [completeOk, hff]
    rw [e]
    constructor <;> simp only [set] <;>
      grind [Inv, allTerminal_iff, Phase.started, Phase.terminal]
  · have e : completeOk c s n = { s with phase := set s.phase n Phase.ok, ready := fun m => s.ready m || (decide (n ∈ c.deps m) && depsOk c (set s.phase n .ok) m) } := by
      simp [completeOk, hff]
    rw [e]
    constructor <;> simp only [set, Bool.or_eq_true, Bool.and_eq_true, decide_eq_true_eq, depsOk_iff] <;>
      grind [Inv, allTerminal_iff, Phase.started, Phase.terminal]

theorem inv_completeFail {c : Cfg} {s : State} {n : Node} (ok : CfgOK c) (h : Inv c s)
    (hsel : n ∈ c.sel) (hph : s.phase n = .returned false) : Inv c (completeFail c s n) := by
  have hd := ok.desc_iff
  by_cases hff : s.ff = true
  · have e : completeFail c s n = { s with phase := set s.phase n .failed } := by
      simp [completeFail, hff]
    rw [e]
    constructor <;> simp only [set] <;>
      grind [Inv, allTerminal_iff, Phase.started, Phase.terminal]
  · by_cases hF : c.failFast = true
    · have e : completeFail c s n = { s with phase := set s.phase n Phase.failed, ff := true, ctx := true, pend := fun m => s.pend m || !s.cancel m } := by
        simp [completeFail, hff, hF]
      rw [e]
      constructor <;> simp only [set, Bool.or_eq_true, Bool.not_eq_true'] <;>
        grind [Inv, allTerminal_iff, Phase.started, Phase.terminal]
    · have e : completeFail c s n = { s with phase := set s.phase n Phase.failed, cancel := fun m => s.cancel m || decide (m ∈ c.desc n) } := by
        simp [completeFail, hff, hF]
      rw [e]
      constructor <;> simp only [set, Bool.or_eq_true, decide_eq_true_eq] <;>
        grind [Inv, allTerminal_iff, Phase.started, Phase.terminal]

theorem inv_step {c : Cfg} {s s' : State} {e : Ev} (ok : CfgOK c) (h : Inv c s)
    (hs : step c s e = some s') : Inv c s' := by
  cases e with
  | wake n => exact inv_wake h hs
  | cbReturn n r => exact inv_cbReturn h hs
  | complete n =>
    obtain ⟨hsel, hh⟩ := step_complete.mp hs
    rcases hh with ⟨hp, rfl⟩ | ⟨hp, rfl⟩
    · exact inv_completeOk h hsel hp
    · exact inv_completeFail ok h hsel hp
  | exit n => exact inv_exit h hs
  | deliverCancel n => exact inv_deliverCancel h hs
  | ctxCancel => exact inv_ctxCancel h hs
  | walkReturn b => exact inv_walkReturn h hs

theorem reach_inv {c : Cfg} {s : State} (ok : CfgOK c) (h : Reach c s) : Inv c s := by
  induction h with
  | init => exact inv_init c
  | step _ hs ih => exact inv_step ok ih hs

/-- a node whose callback was entered has every transitive dependency in phase `ok` -/
theorem inv_started_anc {c : Cfg} {s : State} (h : Inv c s) {a n : Node} (ha : Anc c a n)
    (hn : (s.phase n).started = true) : s.phase a = .ok := by
  induction ha with
  | base hd => exact h.started _ hn _ hd
  | step _ hx ih =>
    have hxo := h.started _ hn _ hx
    exact ih (by simp [hxo, Phase.started])

/-- the same for a node that holds a `ready` message -/
theorem inv_ready_anc {c : Cfg} {s : State} (h : Inv c s) {a n : Node} (ha : Anc c a n)
    (hn : s.ready n = true) : s.phase a = .ok := by
  cases ha with
  | base hd => exact h.readyOk _ hn _ hd
  | step hax hx =>
    have hxo := h.readyOk _ hn _ hx
    exact inv_started_anc h hax (by simp [hxo, Phase.started])

end Grog.Walker
