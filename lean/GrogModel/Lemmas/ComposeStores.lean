/-
  Adapters between the stores group's models (GrogModel/Store.lean, Remote.lean, Tree.lean) and the build
  semantics (GrogModel/Exec.lean, Build.lean): how a persistent store state is read as an `Exec.Cache`.
-/
import GrogModel.Lemmas.Store
import GrogModel.Lemmas.Remote
import GrogModel.Lemmas.BuildNoop
set_option linter.unusedSectionVars false
namespace Grog.Compose
open Grog Grog.Exec Grog.Build

variable {κ : Type} [DecidableEq κ]

/-- How the build semantics' abstract keys, values and results appear in a store: the file name of a target result
    (`encK`: the change hash string), the digest of a value (`dig`: the configured hash) and the unmarshalling of a stored
    target result (`decR`). No law is assumed here; the theorems state the (local) facts they need. -/
structure Codec (κ : Type) where
  encK : κ → Bytes
  dig : Val → Bytes
  decR : Bytes → Option (Result κ)

/-- one entry of a sound cache (`CacheSound` is this for every entry) -/
def SoundEntry (P : Params κ) (k : κ) (r : Result κ) : Prop :=
  ∃ ks : KeyState κ, P.K ks = k ∧ ks.cmd.writes = ks.outs ∧
    (P.run ks.cmd (viewOf ks)).exit0 = true ∧ ∃ nc : Bool, r = mkRes nc ks k (P.run ks.cmd (viewOf ks)).outs

theorem cacheSound_iff (P : Params κ) (c : Cache κ) :
    CacheSound P c ↔ ∀ k r, c.res k = some r → SoundEntry P k r := Iff.rfl

/-- a cache assembled from entries of sound caches is sound (soundness is entry-wise) -/
theorem cacheSound_of_entries (P : Params κ) (c : Cache κ)
    (h : ∀ k r, c.res k = some r → ∃ c', CacheSound P c' ∧ c'.res k = some r) : CacheSound P c := by
  intro k r hr
  obtain ⟨c', hs, hr'⟩ := h k r hr
  exact hs k r hr'

/-! ### the file-system store as a cache -/

/-- The cache a fresh process sees in a store state: a result is there iff `target/<encK k>` is visible and unmarshals;
    a value is there iff `cas/<dig v>` is visible with exactly that content (a blob with other content under that name
    would be a miss for the abstraction — C07 shows it cannot occur). Taint markers (`tn`) are a separate namespace. -/
def storeCache (cd : Codec κ) (tn : Lbl → Bool) (s : Store.State) : Cache κ where
  res := fun k => (s.tgt (cd.encK k)).bind (fun b => cd.decR b.content)
  cas := fun v => match s.cas (cd.dig v) with
    | some b => b.content == v
    | none => false
  taint := tn

/-- what builds hand to `TargetResultCache.Write`: whatever the written bytes decode to, under whatever abstract key
    the file name stands for, is an entry of a sound cache (C01: `cacheSound_preserved` — a build only ever stores
    `mkRes … (run …)` under the key of the state it ran in) -/
def WritesSound (P : Params κ) (cd : Codec κ) : Store.NS → Bytes → Bytes → Prop :=
  fun ns key content => ns = .target → ∀ k r, cd.encK k = key → cd.decR content = some r → SoundEntry P k r

theorem storeCache_sound (P : Params κ) (cd : Codec κ) (tn : Lbl → Bool) (s : Store.State)
    (h : Store.Carries (WritesSound P cd) s) : CacheSound P (storeCache cd tn s) := by
  intro k r hr
  simp only [storeCache] at hr
  cases hb : s.tgt (cd.encK k) with
  | none => simp [hb] at hr
  | some b =>
    simp only [hb, Option.bind_some] at hr
    exact h.tgt (cd.encK k) b hb rfl k r rfl hr

end Grog.Compose
