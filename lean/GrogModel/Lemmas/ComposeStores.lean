/-
  Adapters between the stores group's models (GrogModel/Store.lean, Remote.lean, Tree.lean) and the build
  semantics (GrogModel/Exec.lean, Build.lean): how a persistent store state is read as an `Exec.Cache`.
-/
import GrogModel.Lemmas.Store
import GrogModel.Lemmas.Remote
import GrogModel.Lemmas.BuildNoop
set_option linter.unusedSectionVars false
namespace Grog.Compose
open Grog Grog.Exec Grog.Build

variable {κ : Type} [DecidableEq κ]

/-- How the build semantics' abstract keys, values and results appear in a store: the file name of a target result
    (`encK`: the change hash string), the digest of a value (`dig`: the configured hash) and the unmarshalling of a stored
    target result (`decR`). No law is assumed here; the theorems state the (local) facts they need. -/
structure Codec (κ : Type) where
  encK : κ → Bytes
  dig : Val → Bytes
  decR : Bytes → Option (Result κ)

/-- one entry of a sound cache (`CacheSound` is this for every entry) -/
def SoundEntry (P : Params κ) (k : κ) (r : Result κ) : Prop :=
  ∃ ks : KeyState κ, P.K ks = k ∧ ks.cmd.writes = ks.outs ∧
    (P.run ks.cmd (viewOf ks)).exit0 = true ∧ ∃ nc : Bool, r = mkRes nc ks k (P.run ks.cmd (viewOf ks)).outs

theorem cacheSound_iff (P : Params κ) (c : Cache κ) :
    CacheSound P c ↔ ∀ k r, c.res k = some r → SoundEntry P k r := Iff.rfl

/-- a cache assembled from entries of sound caches is sound (soundness is entry-wise) -/
theorem cacheSound_of_entries (P : Params κ) (c : Cache κ)
    (h : ∀ k r, c.res k = some r → ∃ c', CacheSound P c' ∧ c'.res k = some r) : CacheSound P c := by
  intro k r hr
  obtain ⟨c', hs, hr'⟩ := h k r hr
  exact hs k r hr'

/-! ### the file-system store as a cache -/

/-- The cache a fresh process sees in a store state: a result is there iff `target/<encK k>` is visible and unmarshals;
    a value is there iff `cas/<dig v>` is visible with exactly that content (a blob with other content under that name
    would be a miss for the abstraction — C07 shows it cannot occur). Taint markers (`tn`) are a separate namespace. -/
def storeCache (cd : Codec κ) (tn : Lbl → Bool) (s : Store.State) : Cache κ where
  res := fun k => (s.tgt (cd.encK k)).bind (fun b => cd.decR b.content)
  cas := fun v => match s.cas (cd.dig v) with
    | some b => b.content == v
    | none => false
  taint := tn

/-- what builds hand to `TargetResultCache.Write`: whatever the written bytes decode to, under whatever abstract key
    the file name stands for, is an entry of a sound cache (C01: `cacheSound_preserved` — a build only ever stores
    `mkRes … (run …)` under the key of the state it ran in) -/
def WritesSound (P : Params κ) (cd : Codec κ) : Store.NS → Bytes → Bytes → Prop :=
  fun ns key content => ns = .target → ∀ k r, cd.encK k = key → cd.decR content = some r → SoundEntry P k r

theorem storeCache_sound (P : Params κ) (cd : Codec κ) (tn : Lbl → Bool) (s : Store.State)
    (h : Store.Carries (WritesSound P cd) s) : CacheSound P (storeCache cd tn s) := by
  intro k r hr
  simp only [storeCache] at hr
  cases hb : s.tgt (cd.encK k) with
  | none => simp [hb] at hr
  | some b =>
    simp only [hb, Option.bind_some] at hr
    exact h.tgt (cd.encK k) b hb rfl k r rfl hr

/-! ### a build leaves everything outside the declared outputs alone -/

theorem run_fs_off {P : Params κ} (hG : Good P) {cfg : Cfg} (hm : cfg.minimal = false) {defs : Defs} {order : List Lbl}
    (hwf : WF defs order) (fuel : Nat) (p : Path) (hp : ∀ l ∈ order, ∀ t, defs l = some t → p ∉ outPaths t) :
    ∀ (rest : List Lbl), (∀ l ∈ rest, l ∈ order) → ∀ s : BState κ, (run P cfg defs fuel rest s).fs p = s.fs p := by
  intro rest
  induction rest with
  | nil => intro _ s; rfl
  | cons l rest ih =>
    intro hsub s
    have hl : l ∈ order := hsub l (by simp)
    obtain ⟨t, ht⟩ := hwf.defined l hl
    simp only [run, List.foldl_cons, stepTarget, ht]
    have := ih (fun x hx => hsub x (by simp [hx])) (buildTarget P cfg defs fuel t s)
    simp only [run] at this
    rw [this]
    exact (step_frame hG hm defs fuel t (hwf.hdeps l hl t ht).2.1 s).2.1 p (hp l hl t ht)

theorem build_fs_off {P : Params κ} (hG : Good P) {cfg : Cfg} (hm : cfg.minimal = false) (w : World κ) {order : List Lbl}
    (hwf : WF w.defs order) (p : Path) (hp : ∀ l ∈ order, ∀ t, w.defs l = some t → p ∉ outPaths t) :
    (build P cfg w order).fs p = w.fs p :=
  run_fs_off hG hm hwf (fuelFor order) p hp order (fun _ h => h) (start w)

/-! ### the two-tier store as the cache of one machine -/

open Grog.Store (NS)

/-- what `RemoteWrapper.Get` can deliver on machine `m`: the local value, else the remote one -/
def canGet (s : Remote.State) (m : Remote.Mid) (ns : NS) (k : Bytes) : Option Remote.Blob :=
  match s.loc m ns k with
  | some b => some b
  | none => s.remote ns k

/-- a successful `Get` of the transition system returns exactly `canGet` … -/
theorem get_returns_view (v : Remote.Variant) (s s' : Remote.State) (p : Store.Pid) (ns : NS) (k : Bytes)
    (b : Remote.Blob) (f : Bool) (hs : Remote.step v s (.getRes p ns k (some b) f) = some s') :
    canGet s (s.mach p) ns k = some b := by
  simp only [Remote.step] at hs
  unfold canGet
  split at hs
  · rename_i lb hlb
    split at hs
    · rename_i hc; simp [hlb, hc.1]
    · simp at hs
  · rename_i hl
    split at hs
    · rename_i hc; simp [hl, hc.1]
    · simp at hs

/-- … and whenever `canGet` has a value, the successful `Get` returning it is enabled (read-through) -/
theorem view_get_enabled (v : Remote.Variant) (s : Remote.State) (p : Store.Pid) (ns : NS) (k : Bytes) (b : Remote.Blob)
    (h : canGet s (s.mach p) ns k = some b) :
    ∃ f s', Remote.step v s (.getRes p ns k (some b) f) = some s' := by
  unfold canGet at h
  cases hl : s.loc (s.mach p) ns k with
  | some lb =>
    simp only [hl, Option.some.injEq] at h
    exact ⟨false, s, by simp [Remote.step, hl, h]⟩
  | none =>
    simp only [hl] at h
    exact ⟨true, { s with loc := Remote.upd s.loc (s.mach p) (Remote.put (s.loc (s.mach p)) ns k b) },
      by simp [Remote.step, hl, h]⟩

/-- the view is not changed by Gets (a read-through fill copies what the view already showed) -/
theorem view_stable_get (v : Remote.Variant) (s s' : Remote.State) (p : Store.Pid) (ns : NS) (k : Bytes)
    (r : Option Remote.Blob) (f : Bool) (hs : Remote.step v s (.getRes p ns k r f) = some s') :
    ∀ m ns' k', canGet s' m ns' k' = canGet s m ns' k' := by
  intro m ns' k'
  cases r with
  | none =>
    simp only [Remote.step] at hs
    split at hs
    · simp at hs
    · rename_i hl
      split at hs
      · split at hs
        · rename_i b hb
          simp at hs; subst hs
          unfold canGet
          simp only [Remote.upd]
          by_cases e : m = s.mach p
          · subst e
            by_cases e2 : ns' = ns ∧ k' = k
            · obtain ⟨rfl, rfl⟩ := e2
              simp [Remote.put, hl, hb]
            · simp [Remote.put, e2]
          · simp [e]
        · simp at hs
      · simp at hs; rw [← hs]
  | some b =>
    simp only [Remote.step] at hs
    split at hs
    · split at hs <;> simp at hs; rw [← hs]
    · rename_i hl
      split at hs
      · rename_i hc
        simp at hs; subst hs
        unfold canGet
        simp only [Remote.upd]
        by_cases e : m = s.mach p
        · subst e
          by_cases e2 : ns' = ns ∧ k' = k
          · obtain ⟨rfl, rfl⟩ := e2
            simp [Remote.put, hl, hc.1]
          · simp [Remote.put, e2]
        · simp [e]
      · simp at hs

/-- The cache machine `m` sees through the wrapper: results and values it can `Get` (values only if the delivered
    content is the value itself). `tn`: the machine's local taint markers. -/
def viewCache (cd : Codec κ) (tn : Lbl → Bool) (s : Remote.State) (m : Remote.Mid) : Cache κ where
  res := fun k => (canGet s m .target (cd.encK k)).bind (fun b => cd.decR b.content)
  cas := fun v => match canGet s m .cas (cd.dig v) with
    | some b => b.content == v
    | none => false
  taint := tn

/-! ### what has been uploaded stays uploaded -/

/-- event `e` does not replace the remote entry `(ns, k)` by anything but `b` -/
def WritesOnly (ns : NS) (k : Bytes) (b : Remote.Blob) (e : Remote.Ev) : Prop :=
  ∀ p b' l ok, e = Remote.Ev.setRes p ns k b' l true ok → b' = b

theorem remote_kept (v : Remote.Variant) (s s' : Remote.State) (e : Remote.Ev) (ns : NS) (k : Bytes) (b : Remote.Blob)
    (hs : Remote.step v s e = some s') (h : s.remote ns k = some b) (hw : WritesOnly ns k b e) : s'.remote ns k = some b := by
  cases e with
  | proc p m => simp [Remote.step] at hs; subst hs; exact h
  | localSet m ns' k' b' => simp [Remote.step] at hs; subst hs; exact h
  | existsRes p ns' k' r =>
    cases r <;> simp only [Remote.step] at hs <;> split at hs <;> simp at hs <;> subst hs
    · split <;> exact h
    · exact h
    · exact h
  | existsAllRes p k' r =>
    cases r <;> simp only [Remote.step] at hs <;> split at hs <;> simp at hs <;> subst hs <;> exact h
  | getRes p ns' k' r f =>
    cases r with
    | none =>
      simp only [Remote.step] at hs
      split at hs
      · simp at hs
      · split at hs
        · split at hs <;> simp at hs
          subst hs; exact h
        · simp at hs; subst hs; exact h
    | some b' =>
      simp only [Remote.step] at hs
      split at hs
      · split at hs <;> simp at hs; subst hs; exact h
      · split at hs <;> simp at hs; subst hs; exact h
  | taintSet p l la ra ok => simp only [Remote.step] at hs; split at hs <;> simp at hs; subst hs; exact h
  | taintExists p l r => cases r <;> simp only [Remote.step] at hs <;> split at hs <;> simp at hs <;> subst hs <;> exact h
  | taintDelete p l la ra ok => simp only [Remote.step] at hs; split at hs <;> simp at hs; subst hs; exact h
  | setRes p ns' k' b' lst rst ok =>
    simp only [Remote.step] at hs
    split at hs
    · simp at hs; subst hs
      cases rst with
      | false => cases lst <;> simp <;> split <;> exact h
      | true =>
        have key : Remote.put s.remote ns' k' b' ns k = some b := by
          simp only [Remote.put]
          split
          · rename_i hc
            obtain ⟨rfl, rfl⟩ := hc
            rw [hw p b' lst ok rfl]
          · exact h
        cases lst <;> simp <;> split <;> exact key
    · simp at hs

theorem remote_kept_run (v : Remote.Variant) (ns : NS) (k : Bytes) (b : Remote.Blob) (es : List Remote.Ev) :
    ∀ (s s' : Remote.State), Remote.run v s es = some s' → s.remote ns k = some b → (∀ e ∈ es, WritesOnly ns k b e) →
      s'.remote ns k = some b := by
  induction es with
  | nil => intro s s' hr h _; simp [Remote.run] at hr; subst hr; exact h
  | cons e es ih =>
    intro s s' hr h hw
    simp only [Remote.run] at hr
    cases hst : Remote.step v s e with
    | none => simp [hst] at hr
    | some s1 =>
      simp only [hst] at hr
      exact ih s1 s' hr (remote_kept v s s1 e ns k b hst h (hw e (by simp))) (fun e' he' => hw e' (by simp [he']))

/-- a tee `Set` after which the remote tier holds the value (in particular every `Set` that returned nil) -/
theorem set_publishes (v : Remote.Variant) (s s' : Remote.State) (p : Store.Pid) (ns : NS) (k : Bytes) (b : Remote.Blob)
    (lst ok : Bool) (hs : Remote.step v s (.setRes p ns k b lst true ok) = some s') : s'.remote ns k = some b := by
  simp only [Remote.step] at hs
  split at hs
  · simp at hs; subst hs
    have key : Remote.put s.remote ns k b ns k = some b := by simp [Remote.put]
    cases lst <;> simp <;> split <;> exact key
  · simp at hs

theorem run_append (v : Remote.Variant) (s : Remote.State) (a b : List Remote.Ev) :
    Remote.run v s (a ++ b) = (Remote.run v s a).bind (fun s1 => Remote.run v s1 b) := by
  induction a generalizing s with
  | nil => simp [Remote.run]
  | cons e a ih =>
    simp only [List.cons_append, Remote.run]
    cases Remote.step v s e with
    | none => simp
    | some s1 => simpa using ih s1

/-- **write-through, on traces**: if the trace contains a `Set` of `(ns, k) := b` that reached the remote tier and no later
    event replaces that entry by something else, the final remote store holds it -/
theorem published_of_trace (v : Remote.Variant) (s0 s' : Remote.State) (pre post : List Remote.Ev) (p : Store.Pid) (ns : NS)
    (k : Bytes) (b : Remote.Blob) (lst ok : Bool)
    (hr : Remote.run v s0 (pre ++ Remote.Ev.setRes p ns k b lst true ok :: post) = some s')
    (hpost : ∀ e ∈ post, WritesOnly ns k b e) : s'.remote ns k = some b := by
  rw [run_append] at hr
  cases h1 : Remote.run v s0 pre with
  | none => simp [h1] at hr
  | some s1 =>
    simp only [h1, Option.bind_some, Remote.run] at hr
    cases h2 : Remote.step v s1 (.setRes p ns k b lst true ok) with
    | none => simp [h2] at hr
    | some s2 =>
      simp only [h2] at hr
      exact remote_kept_run v ns k b post s2 s' hr (set_publishes v s1 s2 p ns k b lst ok h2) hpost

/-! ### contents of the two-tier store: whatever is there was passed to some `Set` -/

structure RCarries (Q : NS → Bytes → Bytes → Prop) (s : Remote.State) : Prop where
  remote : ∀ ns k b, s.remote ns k = some b → Q ns k b.content
  loc : ∀ m ns k b, s.loc m ns k = some b → Q ns k b.content

/-- every value written by an event of the trace (tee `Set`s, entries left by runs without remote cache) satisfies `Q` -/
def RWritesSatisfy (Q : NS → Bytes → Bytes → Prop) (es : List Remote.Ev) : Prop :=
  (∀ p ns k b l r ok, Remote.Ev.setRes p ns k b l r ok ∈ es → Q ns k b.content) ∧
  (∀ m ns k b, Remote.Ev.localSet m ns k b ∈ es → Q ns k b.content)

theorem rcarries_init (Q : NS → Bytes → Bytes → Prop) : RCarries Q Remote.init := by
  constructor <;> simp [Remote.init]

theorem put_carries {Q : NS → Bytes → Bytes → Prop} (f : NS → Bytes → Option Remote.Blob) (ns : NS) (k : Bytes) (b : Remote.Blob)
    (hf : ∀ ns' k' b', f ns' k' = some b' → Q ns' k' b'.content) (hq : Q ns k b.content) :
    ∀ ns' k' b', Remote.put f ns k b ns' k' = some b' → Q ns' k' b'.content := by
  intro ns' k' b' h
  simp only [Remote.put] at h
  split at h
  · rename_i hc; obtain ⟨rfl, rfl⟩ := hc; simp at h; subst h; exact hq
  · exact hf ns' k' b' h

theorem upd_loc_carries {Q : NS → Bytes → Bytes → Prop} (loc : Remote.Mid → NS → Bytes → Option Remote.Blob) (m : Remote.Mid)
    (g : NS → Bytes → Option Remote.Blob)
    (hl : ∀ m' ns' k' b', loc m' ns' k' = some b' → Q ns' k' b'.content)
    (hg : ∀ ns' k' b', g ns' k' = some b' → Q ns' k' b'.content) :
    ∀ m' ns' k' b', Remote.upd loc m g m' ns' k' = some b' → Q ns' k' b'.content := by
  intro m' ns' k' b' h
  simp only [Remote.upd] at h
  split at h
  · exact hg ns' k' b' h
  · exact hl m' ns' k' b' h

theorem rcarries_step {Q : NS → Bytes → Bytes → Prop} {v : Remote.Variant} {s s' : Remote.State} (h : RCarries Q s) (e : Remote.Ev)
    (hq1 : ∀ p ns k b l r ok, e = Remote.Ev.setRes p ns k b l r ok → Q ns k b.content)
    (hq2 : ∀ m ns k b, e = Remote.Ev.localSet m ns k b → Q ns k b.content)
    (hs : Remote.step v s e = some s') : RCarries Q s' := by
  obtain ⟨h1, h2⟩ := h
  cases e with
  | proc p m => simp [Remote.step] at hs; subst hs; exact ⟨h1, h2⟩
  | localSet m ns k b =>
    simp [Remote.step] at hs; subst hs
    exact ⟨h1, upd_loc_carries s.loc m _ h2 (put_carries _ ns k b (h2 m) (hq2 m ns k b rfl))⟩
  | existsRes p ns k r =>
    cases r <;> simp only [Remote.step] at hs <;> split at hs <;> simp at hs <;> subst hs
    · split <;> exact ⟨h1, h2⟩
    · exact ⟨h1, h2⟩
    · exact ⟨h1, h2⟩
  | existsAllRes p k r =>
    cases r <;> simp only [Remote.step] at hs <;> split at hs <;> simp at hs <;> subst hs <;> exact ⟨h1, h2⟩
  | getRes p ns k r f =>
    cases r with
    | none =>
      simp only [Remote.step] at hs
      split at hs
      · simp at hs
      · split at hs
        · split at hs
          · rename_i b hb
            simp at hs; subst hs
            exact ⟨h1, upd_loc_carries s.loc _ _ h2 (put_carries _ ns k b (h2 _) (h1 ns k b hb))⟩
          · simp at hs
        · simp at hs; subst hs; exact ⟨h1, h2⟩
    | some b =>
      simp only [Remote.step] at hs
      split at hs
      · split at hs <;> simp at hs; subst hs; exact ⟨h1, h2⟩
      · split at hs
        · rename_i hc
          simp at hs; subst hs
          exact ⟨h1, upd_loc_carries s.loc _ _ h2 (put_carries _ ns k b (h2 _) (h1 ns k b hc.1))⟩
        · simp at hs
  | taintSet p l la ra ok => simp only [Remote.step] at hs; split at hs <;> simp at hs; subst hs; exact ⟨h1, h2⟩
  | taintExists p l r => cases r <;> simp only [Remote.step] at hs <;> split at hs <;> simp at hs <;> subst hs <;> exact ⟨h1, h2⟩
  | taintDelete p l la ra ok => simp only [Remote.step] at hs; split at hs <;> simp at hs; subst hs; exact ⟨h1, h2⟩
  | setRes p ns k b lst rst ok =>
    have hq := hq1 p ns k b lst rst ok rfl
    simp only [Remote.step] at hs
    split at hs
    · simp at hs; subst hs
      have L : ∀ m' ns' k' b', Remote.upd s.loc (s.mach p) (Remote.put (s.loc (s.mach p)) ns k b) m' ns' k' = some b' → Q ns' k' b'.content :=
        upd_loc_carries s.loc _ _ h2 (put_carries _ ns k b (h2 _) hq)
      have R : ∀ ns' k' b', Remote.put s.remote ns k b ns' k' = some b' → Q ns' k' b'.content := put_carries _ ns k b h1 hq
      cases lst <;> cases rst <;> simp <;> split <;> first
        | exact ⟨h1, h2⟩ | exact ⟨h1, L⟩ | exact ⟨R, h2⟩ | exact ⟨R, L⟩
    · simp at hs

theorem rcarries_run {Q : NS → Bytes → Bytes → Prop} {v : Remote.Variant} (es : List Remote.Ev) :
    ∀ (s s' : Remote.State), RCarries Q s → RWritesSatisfy Q es → Remote.run v s es = some s' → RCarries Q s' := by
  induction es with
  | nil => intro s s' h _ hr; simp [Remote.run] at hr; subst hr; exact h
  | cons e es ih =>
    intro s s' h hw hr
    simp only [Remote.run] at hr
    cases hst : Remote.step v s e with
    | none => simp [hst] at hr
    | some s1 =>
      simp only [hst] at hr
      refine ih s1 s' (rcarries_step h e ?_ ?_ hst)
        ⟨fun p ns k b l r ok hm => hw.1 p ns k b l r ok (List.mem_cons_of_mem _ hm),
         fun m ns k b hm => hw.2 m ns k b (List.mem_cons_of_mem _ hm)⟩ hr
      · intro p ns k b l r ok he; exact hw.1 p ns k b l r ok (by rw [he]; simp)
      · intro m ns k b he; exact hw.2 m ns k b (by rw [he]; simp)

end Grog.Compose
