/-
  The Starlark `target(...)` builtin is a left inverse of the canonical rendering of a DTO.
-/
import GrogModel.Loader
namespace Grog.Loader
open Grog

theorem strElems_map (xs : List Bytes) : strElems (xs.map .str) = .ok xs := by
  induction xs with
  | nil => rfl
  | cons x r ih => simp [strElems, ih, Except.map]

theorem strPairs_map (kv : KV) : strPairs (kv.map (fun p => (SVal.str p.1, SVal.str p.2))) = .ok kv := by
  induction kv with
  | nil => rfl
  | cons x r ih => simp [strPairs, ih, Except.map]

theorem checkElems_map (cs : KV) :
    checkElems (cs.map (fun c => SVal.dict [(.str sCommand, .str c.1), (.str sExpected, .str c.2)])) = .ok cs := by
  induction cs with
  | nil => rfl
  | cons x r ih =>
    have h1 : dictGet sCommand [(SVal.str sCommand, SVal.str x.1), (SVal.str sExpected, SVal.str x.2)] = some (.str x.1) := by
      simp [dictGet]
    have h2 : dictGet sExpected [(SVal.str sCommand, SVal.str x.1), (SVal.str sExpected, SVal.str x.2)] = some (.str x.2) := by
      have : sCommand ≠ sExpected := by decide
      simp [dictGet, this]
    simp [checkElems, asCheck, h1, h2, ih, Except.map]

theorem star_roundtrip (t : TargetDTO) : starTarget (kwargsOf t) = .ok t := by
  cases hp : t.platforms with
  | none =>
    simp [starTarget, kwargsOf, hp, kwOk, kwGet, optArg, asStr, asStrList, asStrMap, asChecks, strElems_map, strPairs_map,
      checkElems_map, bind, Except.bind, pure, Except.pure]
    cases t; simp_all
  | some l =>
    simp [starTarget, kwargsOf, hp, kwOk, kwGet, optArg, asStr, asStrList, asStrMap, asChecks, strElems_map, strPairs_map,
      checkElems_map, bind, Except.bind, pure, Except.pure, Except.map]
    cases t; simp_all

end Grog.Loader
