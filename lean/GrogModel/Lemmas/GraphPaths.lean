/-
  The path-enumerating traversals of the old tree (`pathsFrom`): what they return on ranked (acyclic)
  graphs, and their size on the width-2 ladder.
-/
import GrogModel.Lemmas.GraphDfs
namespace Grog

theorem mem_pathsFrom_sound (es : List Edge) :
    ∀ (fuel v x : Nat), x ∈ pathsFrom (succs es) fuel v → ReachPlus es v x := by
  intro fuel
  induction fuel with
  | zero => intro v x h; simp [pathsFrom] at h
  | succ f ih =>
    intro v x h
    simp only [pathsFrom, List.mem_flatMap, List.mem_cons] at h
    obtain ⟨d, hd, hx⟩ := h
    rcases hx with rfl | hx
    · exact ⟨x, mem_succs.mp hd, Reach.refl _⟩
    · obtain ⟨y, e, r⟩ := ih d x hx
      exact ⟨d, mem_succs.mp hd, Reach.step e r⟩

theorem mem_pathsFrom_complete {es : List Edge} {rank : Nat → Nat} {N : Nat} (hr : Ranked es rank N)
    {y x : Nat} (h : Reach es y x) :
    ∀ (fuel v : Nat), (v, y) ∈ es → N ≤ fuel + rank v → x ∈ pathsFrom (succs es) fuel v := by
  induction h with
  | refl a =>
    intro fuel v e hN
    have := hr _ e
    cases fuel with
    | zero => simp only at this; omega
    | succ f =>
      simp only [pathsFrom, List.mem_flatMap, List.mem_cons]
      exact ⟨a, mem_succs.mpr e, Or.inl rfl⟩
  | @step a b c e' _ ih =>
    intro fuel v e hN
    have h1 := hr _ e
    cases fuel with
    | zero => simp only at h1; omega
    | succ f =>
      simp only [pathsFrom, List.mem_flatMap, List.mem_cons]
      refine ⟨a, mem_succs.mpr e, Or.inr (ih f a e' ?_)⟩
      simp only at h1; omega

/-- on a ranked graph, with enough fuel, path enumeration and the visited-set traversal return the
    same set of nodes -/
theorem mem_pathsFrom_iff_descendantsV {es : List Edge} {rank : Nat → Nat} {N fuel : Nat}
    (hr : Ranked es rank N) (hf : N ≤ fuel) (v x : Nat) :
    x ∈ pathsFrom (succs es) fuel v ↔ x ∈ (descendantsV es v).nodes := by
  rw [mem_descendantsV]
  constructor
  · intro h
    have hp := mem_pathsFrom_sound es fuel v x h
    refine ⟨hp, ?_⟩
    have := hp.rank_lt hr
    intro heq; subst heq; omega
  · rintro ⟨⟨y, e, r⟩, _⟩
    exact mem_pathsFrom_complete hr r fuel v e (by omega)

theorem ranked_flip {es : List Edge} {rank : Nat → Nat} {N : Nat} (hr : Ranked es rank N) :
    Ranked (flipEdges es) (fun x => N - rank x) N := by
  intro e he
  obtain ⟨a, b⟩ := e
  have := hr _ (mem_flipEdges.mp he)
  simp only at this ⊢
  omega

theorem preds_eq_succs_flip (es : List Edge) : preds es = succs (flipEdges es) := by
  funext v; exact (succs_flipEdges es v).symm

/-! ### the ladder -/

theorem succs_append (a b : List Edge) (v : Nat) : succs (a ++ b) v = succs a v ++ succs b v := by
  simp [succs]

theorem ladderEdges_succ (d : Nat) : ladderEdges (d + 1) = ladderEdges d ++ ladderRung d := by
  simp [ladderEdges, List.range_succ]

theorem succs_ladderRung (l v : Nat) :
    succs (ladderRung l) v = if v / 2 = l then [2 * l + 2, 2 * l + 3] else [] := by
  by_cases h : v / 2 = l
  · have : v = 2 * l ∨ v = 2 * l + 1 := by omega
    rcases this with rfl | rfl
    · have h2 : ¬ (2 * l + 1 = 2 * l) := by omega
      simp [succs, ladderRung, h, h2]
    · have h2 : ¬ (2 * l = 2 * l + 1) := by omega
      simp [succs, ladderRung, h, h2]
  · have h1 : ¬ (2 * l = v) := by omega
    have h2 : ¬ (2 * l + 1 = v) := by omega
    simp [succs, ladderRung, h, h1, h2]

theorem succs_ladderEdges (d : Nat) : succs (ladderEdges d) = ladderAdj d := by
  funext v
  induction d with
  | zero => simp [ladderEdges, succs, ladderAdj]
  | succ d ih =>
    rw [ladderEdges_succ, succs_append, ih, succs_ladderRung]
    simp only [ladderAdj]
    by_cases h1 : v / 2 < d
    · have h2 : ¬ (v / 2 = d) := by omega
      have h3 : v / 2 < d + 1 := by omega
      simp [h1, h2, h3]
    · by_cases h2 : v / 2 = d
      · have h3 : v / 2 < d + 1 := by omega
        simp [h1, h2, h3]
      · have h3 : ¬ (v / 2 < d + 1) := by omega
        simp [h1, h2, h3]

/-- exact size of the path enumeration from a node `k` levels below the top of the ladder -/
theorem ladder_paths_length (d : Nat) :
    ∀ (k fuel v : Nat), v / 2 + k = d → k ≤ fuel →
      (pathsFrom (ladderAdj d) fuel v).length + 2 = 2 ^ (k + 1) := by
  intro k
  induction k with
  | zero =>
    intro fuel v hv _
    have h : ¬ (v / 2 < d) := by omega
    cases fuel <;> simp [pathsFrom, ladderAdj, h]
  | succ k ih =>
    intro fuel v hv hf
    cases fuel with
    | zero => omega
    | succ f =>
      have h : v / 2 < d := by omega
      have ha := ih f (2 * (v / 2) + 2) (by omega) (by omega)
      have hb := ih f (2 * (v / 2) + 3) (by omega) (by omega)
      have hp : 2 ^ (k + 1 + 1) = 2 ^ (k + 1) * 2 := Nat.pow_succ ..
      simp only [pathsFrom, ladderAdj, h, ↓reduceIte, List.flatMap_cons, List.flatMap_nil,
        List.append_nil, List.length_append, List.length_cons]
      omega

theorem mem_ladderEdges {d : Nat} {e : Edge} (h : e ∈ ladderEdges d) :
    e.1 < 2 * (d + 1) ∧ e.2 < 2 * (d + 1) ∧ e.1 / 2 + 1 = e.2 / 2 ∧ e.2 / 2 ≤ d := by
  simp only [ladderEdges, List.mem_flatMap, List.mem_range] at h
  obtain ⟨l, hl, he⟩ := h
  simp only [ladderRung, List.mem_cons, List.not_mem_nil, or_false] at he
  rcases he with rfl | rfl | rfl | rfl <;> simp only <;> omega

theorem length_ladderEdges (d : Nat) : (ladderEdges d).length = 4 * d := by
  induction d with
  | zero => simp [ladderEdges]
  | succ d ih => rw [ladderEdges_succ, List.length_append, ih]; simp [ladderRung]; omega

/-- the ladder is acyclic: the level of a node is a rank -/
theorem ranked_ladder (d : Nat) : Ranked (ladderEdges d) (fun v => v / 2) d := by
  intro e he
  have := mem_ladderEdges he
  simp only; omega

end Grog
