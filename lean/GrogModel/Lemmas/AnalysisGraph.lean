/-
  Graph lemmas for the analysis model: paths, the depth-first cycle search (`visit`, `visitList`,
  `findCycleFrom`, `findCycleG`) and the ancestor search (`ancLoop`).
-/
import GrogModel.Analysis
namespace Grog.Analysis
open Grog

/-! ### paths of one or more steps -/

/-- one or more steps along a relation -/
inductive TPath {α : Type} (r : α → α → Prop) : α → α → Prop
  | single {a b} : r a b → TPath r a b
  | cons {a b c} : r a b → TPath r b c → TPath r a c

namespace TPath
variable {α : Type} {r : α → α → Prop}

theorem trans {a b c : α} (h₁ : TPath r a b) (h₂ : TPath r b c) : TPath r a c := by
  induction h₁ with
  | single h => exact .cons h h₂
  | cons h _ ih => exact .cons h (ih h₂)

theorem snoc {a b c : α} (h₁ : TPath r a b) (h₂ : r b c) : TPath r a c :=
  h₁.trans (.single h₂)

theorem mono {s : α → α → Prop} (hrs : ∀ a b, r a b → s a b) {a b : α} (h : TPath r a b) : TPath s a b := by
  induction h with
  | single h => exact .single (hrs _ _ h)
  | cons h _ ih => exact .cons (hrs _ _ h) ih

theorem flip {a b : α} (h : TPath r a b) : TPath (fun x y => r y x) b a := by
  induction h with
  | single h => exact .single h
  | cons h _ ih => exact ih.snoc h

/-- the last vertex is the target of a step -/
theorem last_step {a b : α} (h : TPath r a b) : ∃ x, r x b := by
  induction h with
  | single h => exact ⟨_, h⟩
  | cons _ _ ih => exact ih

theorem first_step {a b : α} (h : TPath r a b) : ∃ x, r a x := by
  cases h with
  | single h => exact ⟨_, h⟩
  | cons h _ => exact ⟨_, h⟩

/-- a set closed under steps is closed under paths -/
theorem closed {S : α → Prop} (hS : ∀ a b, S a → r a b → S b) {a b : α} (h : TPath r a b) (ha : S a) : S b := by
  induction h with
  | single h => exact hS _ _ ha h
  | cons h _ ih => exact ih (hS _ _ ha h)

end TPath

/-- the step relation of an adjacency function -/
def stepOf (succ : Label → List Label) : Label → Label → Prop := fun u v => v ∈ succ u

/-- no vertex lies on a cycle (self-loops included) -/
def Acyclic (succ : Label → List Label) : Prop := ∀ v, ¬ TPath (stepOf succ) v v

/-! ### finishing order of the depth-first search is a topological order -/

/-- newest first: every successor of an entry occurs later in the list, and no entry twice -/
inductive Topo (succ : Label → List Label) : List Label → Prop
  | nil : Topo succ []
  | cons {u l} : Topo succ l → u ∉ l → (∀ v ∈ succ u, v ∈ l) → Topo succ (u :: l)

theorem Topo.closed {succ} {l : List Label} (h : Topo succ l) :
    ∀ u ∈ l, ∀ v ∈ succ u, v ∈ l := by
  induction h with
  | nil => intro u hu; cases hu
  | cons _ _ hs ih =>
    intro u hu v hv
    rcases List.mem_cons.mp hu with rfl | hu
    · exact List.mem_cons_of_mem _ (hs v hv)
    · exact List.mem_cons_of_mem _ (ih u hu v hv)

theorem Topo.path_mem {succ} {l : List Label} (h : Topo succ l) {u w : Label} (hu : u ∈ l)
    (hp : TPath (stepOf succ) u w) : w ∈ l :=
  TPath.closed (S := (· ∈ l)) (fun a b ha hab => h.closed a ha b hab) hp hu

theorem Topo.no_cycle {succ} {l : List Label} (h : Topo succ l) :
    ∀ u ∈ l, ¬ TPath (stepOf succ) u u := by
  induction h with
  | nil => intro u hu; cases hu
  | @cons x l' ht hx hs ih =>
    intro u hu hp
    rcases List.mem_cons.mp hu with rfl | hu
    · -- a path from the head leads into the tail and stays there
      apply hx
      cases hp with
      | single h => exact hs _ h
      | cons h hp' => exact ht.path_mem (hs _ h) hp'
    · exact ih u hu hp

/-! ### the search -/

/-- what a call of `visit`/`visitList` on stack `stack` and finished list `black` may return -/
def Good (succ : Label → List Label) (stack black : List Label) (must : List Label) : DfsRes → Prop
  | .ok b' => Topo succ b' ∧ (∀ x ∈ black, x ∈ b') ∧ (∀ s ∈ stack, s ∉ b') ∧ (∀ v ∈ must, v ∈ b')
  | .cycle _ => ∃ x, TPath (stepOf succ) x x
  | .fuel => False

section dfs
variable (succ : Label → List Label) (V : List Label)

/-- the specification a recursive call has to meet, for a fixed stack -/
def RecSpec (rec : List Label → List Label → Label → DfsRes) (stack : List Label) : Prop :=
  ∀ black v, Topo succ black → (∀ s ∈ stack, s ∉ black) → v ∉ stack → v ∉ black → v ∈ V →
    (∀ s ∈ stack, TPath (stepOf succ) s v) → Good succ stack black [v] (rec stack black v)

theorem visitList_good (hV : ∀ u v, v ∈ succ u → v ∈ V)
    (rec : List Label → List Label → Label → DfsRes) (t : Label) (rest : List Label)
    (hrec : RecSpec succ V rec (t :: rest))
    (hreach : ∀ s ∈ rest, TPath (stepOf succ) s t) :
    ∀ (vs : List Label) (black : List Label), (∀ v ∈ vs, v ∈ succ t) → Topo succ black →
      (∀ s ∈ t :: rest, s ∉ black) →
      Good succ (t :: rest) black vs (visitList rec (t :: rest) vs black) := by
  intro vs
  induction vs with
  | nil =>
    intro black _ ht hd
    simp only [visitList, Good]
    exact ⟨ht, fun x hx => hx, hd, fun v hv => by cases hv⟩
  | cons v vs ih =>
    intro black hvs ht hd
    have hv : v ∈ succ t := hvs v (List.mem_cons_self)
    have hvs' : ∀ w ∈ vs, w ∈ succ t := fun w hw => hvs w (List.mem_cons_of_mem _ hw)
    simp only [visitList]
    split
    · -- already finished
      rename_i hb
      have := ih black hvs' ht hd
      revert this
      cases hres : visitList rec (t :: rest) vs black <;> simp only [Good]
      · exact id
      · rintro ⟨h1, h2, h3, h4⟩
        refine ⟨h1, h2, h3, ?_⟩
        intro w hw
        rcases List.mem_cons.mp hw with rfl | hw
        · exact h2 _ hb
        · exact h4 w hw
      · exact id
    · rename_i hb
      split
      · -- on the stack: a cycle
        rename_i hst
        simp only [Good]
        rcases List.mem_cons.mp hst with rfl | hst
        · exact ⟨_, .single hv⟩
        · exact ⟨v, (hreach v hst).snoc hv⟩
      · rename_i hst
        have hreach' : ∀ s ∈ t :: rest, TPath (stepOf succ) s v := by
          intro s hs
          rcases List.mem_cons.mp hs with rfl | hs
          · exact .single hv
          · exact (hreach s hs).snoc hv
        have hr := hrec black v ht hd hst hb (hV _ _ hv) hreach'
        revert hr
        cases hres : rec (t :: rest) black v <;> simp only [Good]
        · exact id
        · rename_i b1
          rintro ⟨h1, h2, h3, h4⟩
          have := ih b1 hvs' h1 h3
          revert this
          cases hres2 : visitList rec (t :: rest) vs b1 <;> simp only [Good]
          · exact id
          · rintro ⟨g1, g2, g3, g4⟩
            refine ⟨g1, fun x hx => g2 x (h2 x hx), g3, ?_⟩
            intro w hw
            rcases List.mem_cons.mp hw with rfl | hw
            · exact g2 _ (h4 _ List.mem_cons_self)
            · exact g4 w hw
          · exact id
        · exact id

theorem visit_good (hV : ∀ u v, v ∈ succ u → v ∈ V) :
    ∀ (f : Nat) (stack : List Label), stack.Nodup → (∀ s ∈ stack, s ∈ V) → V.length ≤ f + stack.length →
      RecSpec succ V (visit succ f) stack := by
  intro f
  induction f with
  | zero =>
    intro stack hsn hsV hlen black v _ _ hvs _ hvV _
    exfalso
    have hn : (v :: stack).Nodup := List.nodup_cons.mpr ⟨hvs, hsn⟩
    have hsub : (v :: stack) ⊆ V := by
      intro x hx
      rcases List.mem_cons.mp hx with rfl | hx
      · exact hvV
      · exact hsV x hx
    have := hn.length_le_of_subset hsub
    simp at this hlen
    omega
  | succ f ih =>
    intro stack hsn hsV hlen black u ht hd hus hub huV hreach
    have hn : (u :: stack).Nodup := List.nodup_cons.mpr ⟨hus, hsn⟩
    have hsub : ∀ s ∈ u :: stack, s ∈ V := by
      intro x hx
      rcases List.mem_cons.mp hx with rfl | hx
      · exact huV
      · exact hsV x hx
    have hrec := ih (u :: stack) hn hsub (by simp; omega)
    have hd' : ∀ s ∈ u :: stack, s ∉ black := by
      intro x hx
      rcases List.mem_cons.mp hx with rfl | hx
      · exact hub
      · exact hd x hx
    have := visitList_good succ V hV (visit succ f) u stack hrec hreach (succ u) black (fun v hv => hv) ht hd'
    revert this
    simp only [visit]
    cases hres : visitList (visit succ f) (u :: stack) (succ u) black <;> simp only [Good]
    · exact id
    · rename_i b1
      rintro ⟨h1, h2, h3, h4⟩
      refine ⟨.cons h1 (h3 u List.mem_cons_self) h4, fun x hx => List.mem_cons_of_mem _ (h2 x hx), ?_, ?_⟩
      · intro s hs hmem
        rcases List.mem_cons.mp hmem with rfl | hmem
        · exact hus hs
        · exact h3 s (List.mem_cons_of_mem _ hs) hmem
      · intro v hv
        rcases List.mem_cons.mp hv with rfl | hv
        · exact List.mem_cons_self
        · cases hv
    · exact id

theorem findCycleFrom_good (hV : ∀ u v, v ∈ succ u → v ∈ V) (fuel : Nat) (hf : V.length ≤ fuel) :
    ∀ (starts black : List Label), (∀ s ∈ starts, s ∈ V) → Topo succ black →
      Good succ [] black starts (findCycleFrom succ fuel starts black) := by
  intro starts
  induction starts with
  | nil =>
    intro black _ ht
    simp only [findCycleFrom, Good]
    refine ⟨ht, fun x hx => hx, ?_, ?_⟩ <;> simp
  | cons n ns ih =>
    intro black hsV ht
    have hsV' : ∀ s ∈ ns, s ∈ V := fun s hs => hsV s (List.mem_cons_of_mem _ hs)
    simp only [findCycleFrom]
    split
    · rename_i hb
      have := ih black hsV' ht
      revert this
      cases hres : findCycleFrom succ fuel ns black <;> simp only [Good]
      · exact id
      · rintro ⟨h1, h2, h3, h4⟩
        refine ⟨h1, h2, h3, ?_⟩
        intro w hw
        rcases List.mem_cons.mp hw with rfl | hw
        · exact h2 _ hb
        · exact h4 w hw
      · exact id
    · rename_i hb
      have hr := visit_good succ V hV fuel [] List.nodup_nil (fun s hs => by cases hs) (by simpa using hf)
        black n ht (fun s hs => by cases hs) (by simp) hb (hsV n List.mem_cons_self) (fun s hs => by cases hs)
      revert hr
      cases hres : visit succ fuel [] black n <;> simp only [Good]
      · exact id
      · rename_i b1
        rintro ⟨h1, h2, _, h4⟩
        have := ih b1 hsV' h1
        revert this
        cases hres2 : findCycleFrom succ fuel ns b1 <;> simp only [Good]
        · exact id
        · rintro ⟨g1, g2, g3, g4⟩
          refine ⟨g1, fun x hx => g2 x (h2 x hx), g3, ?_⟩
          intro w hw
          rcases List.mem_cons.mp hw with rfl | hw
          · exact g2 _ (h4 _ List.mem_cons_self)
          · exact g4 w hw
        · exact id
      · exact id

end dfs

/-! ### sorting keeps the elements -/

theorem mem_insertLabel {l x : Label} {ls : List Label} : x ∈ insertLabel l ls ↔ x = l ∨ x ∈ ls := by
  induction ls with
  | nil => simp [insertLabel]
  | cons m r ih =>
    simp only [insertLabel]
    split
    · simp only [List.mem_cons, ih]
      constructor
      · rintro (h | h | h) <;> simp [h]
      · rintro (h | h | h) <;> simp [h]
    · simp [List.mem_cons]

theorem mem_sortLabels {x : Label} {ls : List Label} : x ∈ sortLabels ls ↔ x ∈ ls := by
  induction ls with
  | nil => simp [sortLabels]
  | cons a r ih =>
    have : sortLabels (a :: r) = insertLabel a (sortLabels r) := rfl
    rw [this, mem_insertLabel, ih]; simp

/-! ### `findCycleG` decides acyclicity -/

/-- a path ends in a vertex of `V` when all successors are in `V` -/
theorem TPath.end_mem {succ : Label → List Label} {V : List Label} (hV : ∀ u v, v ∈ succ u → v ∈ V)
    {a b : Label} (h : TPath (stepOf succ) a b) : b ∈ V := by
  obtain ⟨x, hx⟩ := h.last_step
  exact hV _ _ hx

theorem findCycleG_spec (V : List Label) (succ : Label → List Label)
    (hV : ∀ u v, v ∈ succ u → v ∈ V) :
    match findCycleG V succ with
    | .ok _ => Acyclic succ
    | .cycle _ => ¬ Acyclic succ
    | .fuel => False := by
  have h := findCycleFrom_good succ V hV V.length (Nat.le_refl _) (sortLabels V) []
    (fun s hs => mem_sortLabels.mp hs) .nil
  unfold findCycleG
  revert h
  cases hres : findCycleFrom succ V.length (sortLabels V) [] <;> simp only [Good]
  · rintro ⟨x, hx⟩ hac
    exact hac x hx
  · rintro ⟨h1, _, _, h4⟩ v hp
    have hvV : v ∈ V := TPath.end_mem hV hp
    exact h1.no_cycle v (h4 v (mem_sortLabels.mpr hvV)) hp
  · exact id

/-! ### the ancestor search -/

section anc
variable (pred : Label → List Label)

/-- soundness: everything collected satisfies any property that holds of the start entries and is
    preserved along `pred` -/
theorem ancLoop_sound (R : Label → Prop) (hR : ∀ x y, R x → y ∈ pred x → R y) :
    ∀ (fuel : Nat) (stack set : List Label), (∀ x ∈ stack, R x) → (∀ x ∈ set, R x) →
      ∀ x ∈ ancLoop pred fuel stack set, R x := by
  intro fuel
  induction fuel with
  | zero => intro stack set _ hs x hx; simp only [ancLoop] at hx; exact hs x hx
  | succ f ih =>
    intro stack set hst hs x hx
    cases stack with
    | nil => simp only [ancLoop] at hx; exact hs x hx
    | cons y st =>
      simp only [ancLoop] at hx
      split at hx
      · exact ih st set (fun z hz => hst z (List.mem_cons_of_mem _ hz)) hs x hx
      · have hy : R y := hst y List.mem_cons_self
        refine ih (pred y ++ st) (y :: set) ?_ ?_ x hx
        · intro z hz
          rcases List.mem_append.mp hz with hz | hz
          · exact hR y z hy hz
          · exact hst z (List.mem_cons_of_mem _ hz)
        · intro z hz
          rcases List.mem_cons.mp hz with rfl | hz
          · exact hy
          · exact hs z hz

variable (V : List Label)

/-- for every unmarked vertex one marking step plus its pushes -/
def potSum (set : List Label) : List Label → Nat
  | [] => 0
  | v :: W => (if v ∈ set then 0 else 1 + (pred v).length) + potSum set W

/-- work still to do: stack entries, and the marking steps of `potSum` -/
def ancPot (stack set : List Label) : Nat :=
  stack.length + potSum pred set V

theorem potSum_mono (x : Label) (set : List Label) :
    ∀ W, potSum pred (x :: set) W ≤ potSum pred set W := by
  intro W
  induction W with
  | nil => simp [potSum]
  | cons z Z ih =>
    simp only [potSum]
    by_cases hz : z ∈ set
    · have : z ∈ x :: set := List.mem_cons_of_mem _ hz
      simp only [hz, this, if_true]; omega
    · simp only [hz, if_false]
      split <;> omega

theorem potSum_mark {x : Label} {set : List Label} (hxs : x ∉ set) :
    ∀ W, x ∈ W → potSum pred (x :: set) W + (1 + (pred x).length) ≤ potSum pred set W := by
  intro W
  induction W with
  | nil => intro h; cases h
  | cons w W' ih =>
    intro hx
    simp only [potSum]
    by_cases hwx : w = x
    · subst hwx
      have := potSum_mono pred w set W'
      simp only [List.mem_cons_self, if_true, hxs, if_false]
      omega
    · have hx' : x ∈ W' := by
        rcases List.mem_cons.mp hx with h | h
        · exact absurd h.symm hwx
        · exact h
      have := ih hx'
      by_cases hws : w ∈ set
      · have h2 : w ∈ x :: set := List.mem_cons_of_mem _ hws
        simp only [hws, h2, if_true]; omega
      · have h2 : w ∉ x :: set := by
          intro h; rcases List.mem_cons.mp h with h | h
          · exact hwx h
          · exact hws h
        simp only [hws, h2, if_false]; omega

/-- completeness: with enough fuel the result contains the start entries and is closed under `pred` -/
theorem ancLoop_closed (hV : ∀ x y, y ∈ pred x → y ∈ V) :
    ∀ (fuel : Nat) (stack set : List Label), (∀ x ∈ stack, x ∈ V) →
      (∀ y ∈ set, ∀ z ∈ pred y, z ∈ set ∨ z ∈ stack) → ancPot pred V stack set ≤ fuel →
      (∀ x ∈ set, x ∈ ancLoop pred fuel stack set) ∧ (∀ x ∈ stack, x ∈ ancLoop pred fuel stack set) ∧
      (∀ y ∈ ancLoop pred fuel stack set, ∀ z ∈ pred y, z ∈ ancLoop pred fuel stack set) := by
  intro fuel
  induction fuel with
  | zero =>
    intro stack set _ hinv hpot
    have : stack = [] := by
      cases stack with
      | nil => rfl
      | cons a b => simp [ancPot] at hpot
    subst this
    simp only [ancLoop]
    refine ⟨fun x hx => hx, ?_, ?_⟩
    · intro x hx; cases hx
    intro y hy z hz
    rcases hinv y hy z hz with h | h
    · exact h
    · exact nomatch h
  | succ f ih =>
    intro stack set hsV hinv hpot
    cases stack with
    | nil =>
      simp only [ancLoop]
      refine ⟨fun x hx => hx, ?_, ?_⟩
      · intro x hx; cases hx
      intro y hy z hz
      rcases hinv y hy z hz with h | h
      · exact h
      · exact nomatch h
    | cons x st =>
      simp only [ancLoop]
      split
      · rename_i hxs
        have hinv' : ∀ y ∈ set, ∀ z ∈ pred y, z ∈ set ∨ z ∈ st := by
          intro y hy z hz
          rcases hinv y hy z hz with h | h
          · exact .inl h
          · rcases List.mem_cons.mp h with rfl | h
            · exact .inl hxs
            · exact .inr h
        have hpot' : ancPot pred V st set ≤ f := by
          simp only [ancPot, List.length_cons] at hpot ⊢; omega
        obtain ⟨h1, h2, h3⟩ := ih st set (fun z hz => hsV z (List.mem_cons_of_mem _ hz)) hinv' hpot'
        refine ⟨h1, ?_, h3⟩
        intro z hz
        rcases List.mem_cons.mp hz with rfl | hz
        · exact h1 _ hxs
        · exact h2 z hz
      · rename_i hxs
        have hxV : x ∈ V := hsV x List.mem_cons_self
        have hsV' : ∀ z ∈ pred x ++ st, z ∈ V := by
          intro z hz
          rcases List.mem_append.mp hz with hz | hz
          · exact hV x z hz
          · exact hsV z (List.mem_cons_of_mem _ hz)
        have hinv' : ∀ y ∈ x :: set, ∀ z ∈ pred y, z ∈ x :: set ∨ z ∈ pred x ++ st := by
          intro y hy z hz
          rcases List.mem_cons.mp hy with rfl | hy
          · exact .inr (List.mem_append_left _ hz)
          · rcases hinv y hy z hz with h | h
            · exact .inl (List.mem_cons_of_mem _ h)
            · rcases List.mem_cons.mp h with rfl | h
              · exact .inl List.mem_cons_self
              · exact .inr (List.mem_append_right _ h)
        have hpot' : ancPot pred V (pred x ++ st) (x :: set) ≤ f := by
          have := potSum_mark pred hxs V hxV
          simp only [ancPot, List.length_cons, List.length_append] at hpot ⊢
          omega
        obtain ⟨h1, h2, h3⟩ := ih (pred x ++ st) (x :: set) hsV' hinv' hpot'
        refine ⟨fun z hz => h1 z (List.mem_cons_of_mem _ hz), ?_, h3⟩
        intro z hz
        rcases List.mem_cons.mp hz with rfl | hz
        · exact h1 _ List.mem_cons_self
        · exact h2 z (List.mem_append_right _ hz)

end anc

end Grog.Analysis
