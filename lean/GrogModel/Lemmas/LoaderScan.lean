/-
  Lemmas about the annotation scanners of GrogModel/Loader.lean.
-/
import GrogModel.Loader
namespace Grog.Loader
open Grog

theorem joinNL_nil_of_nil {ls : List Bytes} (h : joinNL ls ≠ []) : ls ≠ [] := by
  intro e; subst e; simp [joinNL] at h

theorem idx_zero_ok {ns : List Nat} (h : ns ≠ []) : ∃ v, idx ns 0 = .ok v := by
  cases ns with
  | nil => contradiction
  | cons a t => exact ⟨a, by simp [idx]⟩

theorem idx_last_ok {ns : List Nat} (h : ns ≠ []) : ∃ v, idx ns ((ns.length : Int) - 1) = .ok v := by
  cases ns with
  | nil => contradiction
  | cons a t =>
    have h1 : ¬ (((a :: t).length : Int) - 1 < 0) := by simp
    have h2 : (((a :: t).length : Int) - 1).toNat = t.length := by simp
    have h3 : (a :: t)[t.length]? = some ((a :: t)[t.length]'(by simp)) := List.getElem?_eq_getElem (by simp)
    refine ⟨(a :: t)[t.length]'(by simp), ?_⟩
    unfold idx
    rw [if_neg h1, h2, h3]

/-- the current `handleTarget` takes no out-of-range index when it is handed as many line numbers as
    annotation lines (which the scan loop guarantees). -/
theorem handleTarget_cur_no_panic (decode : Bytes → Option Annotation)
    (ls : List Bytes) (ns : List Nat) (tl : Bytes) (tn : Nat) (hlen : ls.length = ns.length) :
    handleTarget decode .cur ls ns tl tn ≠ .error .indexPanic := by
  unfold handleTarget
  simp only
  by_cases hc : (joinNL ls).length > 0
  · have hne : ls ≠ [] := joinNL_nil_of_nil (by intro e; rw [e] at hc; simp at hc)
    have hns : ns ≠ [] := by
      intro e; subst e; simp at hlen; exact hne hlen
    obtain ⟨f, hf⟩ := idx_zero_ok hns
    obtain ⟨l, hl⟩ := idx_last_ok hns
    simp only [hc, if_true]
    cases hd : decode (joinNL ls) with
    | none =>
      simp only [hf, hl, bind, Except.bind, throw, throwThe, MonadExceptOf.throw]
      intro h; cases h
    | some a =>
      simp only [bind, Except.bind, pure, Except.pure]
      split <;> simp [throw, throwThe, MonadExceptOf.throw]
  · simp only [hc, if_false, bind, Except.bind, pure, Except.pure]
    split <;> simp [throw, throwThe, MonadExceptOf.throw]

/-- scan states in which the collected lines and line numbers have the same length -/
def ScanSt.Balanced : ScanSt → Prop
  | .outside => True
  | .inBlock ls ns => ls.length = ns.length

theorem mkGo_cur_no_panic (decode : Bytes → Option Annotation) (lines : List Bytes) :
    ∀ (st : ScanSt) (n : Nat) (acc : List TargetDTO) (found : Bool), st.Balanced →
      (mkGo decode .cur st n lines acc found).err ≠ some .indexPanic := by
  induction lines with
  | nil => intro st n acc found _; cases st <;> simp [mkGo]
  | cons l rest ih =>
    intro st n acc found hb
    cases st with
    | outside =>
      simp only [mkGo]
      split
      · exact ih _ _ _ _ (by simp [ScanSt.Balanced])
      · exact ih _ _ _ _ (by simp [ScanSt.Balanced])
    | inBlock ls ns =>
      simp only [mkGo]
      split
      · exact ih _ _ _ _ hb
      · split
        · exact ih _ _ _ _ (by simp [ScanSt.Balanced] at hb ⊢; exact hb)
        · have hlen : ls.reverse.length = ns.reverse.length := by
            simp [ScanSt.Balanced] at hb; simp [hb]
          have := handleTarget_cur_no_panic decode ls.reverse ns.reverse l (n + 1) hlen
          split
          · rename_i e he
            simp only
            intro h; injection h with h; subst h; exact this he
          · exact ih _ _ _ _ (by simp [ScanSt.Balanced])

/-! ### script scanner -/

theorem scriptHandle_no_panic (decode : Bytes → Option Annotation) (ls : List Bytes) (ns : List Nat)
    (hlen : ls.length = ns.length) (hne : ls ≠ []) :
    scriptHandle decode ls ns ≠ .error .indexPanic := by
  have hns : ns ≠ [] := by
    intro e; subst e; simp at hlen; exact hne hlen
  obtain ⟨f, hf⟩ := idx_zero_ok hns
  obtain ⟨l, hl⟩ := idx_last_ok hns
  unfold scriptHandle
  simp only [hl, bind, Except.bind]
  split
  · cases hd : decode (joinNL ls) with
    | none => simp only [hf, throw, throwThe, MonadExceptOf.throw]; intro h; cases h
    | some a => simp [pure, Except.pure]
  · simp [pure, Except.pure]

theorem scriptGo_no_panic (decode : Bytes → Option Annotation) (lines : List Bytes) :
    ∀ (st : ScanSt) (n : Nat) (ann : Annotation), st.Balanced →
      scriptGo decode st n lines ann ≠ .error .indexPanic := by
  induction lines with
  | nil => intro st n ann _; cases st <;> simp [scriptGo]
  | cons l rest ih =>
    intro st n ann hb
    cases st with
    | outside =>
      simp only [scriptGo]
      split
      · exact ih _ _ _ (by simp [ScanSt.Balanced])
      · exact ih _ _ _ (by simp [ScanSt.Balanced])
    | inBlock ls ns =>
      simp only [scriptGo]
      split
      · exact ih _ _ _ hb
      · split
        · exact ih _ _ _ (by simp [ScanSt.Balanced] at hb ⊢; exact hb)
        · split
          · exact ih _ _ _ (by simp [ScanSt.Balanced])
          · rename_i hempty
            have hne : ls.reverse ≠ [] := by
              intro e; apply hempty; simpa using e
            have hlen : ls.reverse.length = ns.reverse.length := by
              simp [ScanSt.Balanced] at hb; simp [hb]
            have := scriptHandle_no_panic decode ls.reverse ns.reverse hlen hne
            split
            · rename_i e he
              intro h; injection h with h; subst h; exact this he
            · exact ih _ _ _ (by simp [ScanSt.Balanced])

end Grog.Loader
