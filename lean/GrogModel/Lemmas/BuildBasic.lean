/-
  Basic facts about `Exec.execTarget`, `Exec.tryHit`, `Exec.buildTarget` (helper lemmas for C01, C02, C13, C14, C15).
-/
import GrogModel.Build
set_option linter.unusedSectionVars false
namespace Grog.Exec
open Grog

variable {κ : Type} [DecidableEq κ]

/-- a small target used by the satisfiability examples -/
def mkT (l : Lbl) (outs : List OutDef) (checks : List (Path × Option Val)) (noCache : Bool) (deps : List Lbl := []) : Target where
  label := l
  cmd := ⟨[], 0, outs, [], false⟩
  inputs := []
  outs := outs
  deps := deps
  hdeps := deps
  ldeps := deps
  fp := []
  plat := []
  noCache := noCache
  checks := checks

/-- the output hash `execTarget` computes -/
def ohFor (cfg : Cfg) (t : Target) (k : κ) (ovs : Outs) : OH κ :=
  if t.outs.isEmpty then .self k else if t.noCache || !cfg.enableCache then .nocache ovs else .outs ovs

/-- the result `execTarget` stores -/
def resFor (cfg : Cfg) (t : Target) (k : κ) (ovs : Outs) : Result κ :=
  { oh := ohFor cfg t k ovs, outs := if t.noCache || !cfg.enableCache then [] else ovs }

/-- the workspace after the command of `t` ran successfully in `fs` -/
def fsAfter (P : Params κ) (defs : Defs) (t : Target) (fs : FS) : FS :=
  writeSets (writeOuts fs (P.run t.cmd (viewAt defs t fs)).outs) (P.run t.cmd (viewAt defs t fs)).sets

theorem execTarget_log (P : Params κ) (cfg : Cfg) (defs : Defs) (t : Target) (k : κ) (clr : Bool) (s : BState κ) :
    (execTarget P cfg defs t k clr s).1.log = t.label :: s.log := by
  unfold execTarget
  simp only
  split
  · rfl
  · split
    · rfl
    · split <;> rfl

/-- characterisation of a successful execution -/
theorem execTarget_true {P : Params κ} {cfg : Cfg} {defs : Defs} {t : Target} {k : κ} {clr : Bool} {s s' : BState κ}
    (h : execTarget P cfg defs t k clr s = (s', true)) :
    (P.run t.cmd (viewAt defs t s.fs)).exit0 = true ∧
    s'.fs = fsAfter P defs t s.fs ∧
    checksPass s'.fs t.checks = true ∧
    ∃ ovs, collect s'.fs t.outs = some ovs ∧
      s'.cache.res = upd s.cache.res k (some (resFor cfg t k ovs)) ∧
      s'.cache.cas = (if t.noCache || !cfg.enableCache then s.cache.cas else addBlobs s.cache.cas ovs) ∧
      s'.cache.taint = (if clr && P.fx.syncTaint then upd s.cache.taint t.label false else s.cache.taint) ∧
      s'.st = upd s.st t.label (some { ok := true, key := some k, oh := some (ohFor cfg t k ovs), loaded := true }) := by
  unfold execTarget at h
  simp only at h
  split at h
  · simp at h
  · split at h
    · simp at h
    · split at h
      · simp at h
      · rename_i hx hc _ ovs hcol
        simp only [Prod.mk.injEq, and_true] at h
        subst h
        refine ⟨by simpa using hx, rfl, by simpa [fsAfter] using hc, ovs, hcol, ?_, rfl, rfl, ?_⟩
        · simp [resFor, ohFor]
        · simp [ohFor]

/-- the workspace after an execution attempt: untouched, or what the command (which returned exit 0) left -/
theorem execTarget_fs (P : Params κ) (cfg : Cfg) (defs : Defs) (t : Target) (k : κ) (clr : Bool) (s : BState κ) :
    (execTarget P cfg defs t k clr s).1.fs = s.fs ∨
    ((P.run t.cmd (viewAt defs t s.fs)).exit0 = true ∧ (execTarget P cfg defs t k clr s).1.fs = fsAfter P defs t s.fs) := by
  unfold execTarget
  simp only
  split
  · exact Or.inl rfl
  · rename_i hx
    have hx' : (P.run t.cmd (viewAt defs t s.fs)).exit0 = true := by simpa using hx
    split
    · exact Or.inr ⟨hx', rfl⟩
    · split <;> exact Or.inr ⟨hx', rfl⟩

/-- a failed execution stores nothing and marks nothing -/
theorem execTarget_false {P : Params κ} {cfg : Cfg} {defs : Defs} {t : Target} {k : κ} {clr : Bool} {s s' : BState κ}
    (h : execTarget P cfg defs t k clr s = (s', false)) :
    s'.cache = s.cache ∧ s'.st = s.st ∧
    ((P.run t.cmd (viewAt defs t s.fs)).exit0 = false ∨ checksPass (fsAfter P defs t s.fs) t.checks = false ∨
      collect (fsAfter P defs t s.fs) t.outs = none) := by
  unfold execTarget at h
  simp only at h
  split at h
  · rename_i hx
    simp only [Prod.mk.injEq, and_true] at h; subst h
    exact ⟨rfl, rfl, Or.inl hx⟩
  · split at h
    · rename_i hx hc
      simp only [Prod.mk.injEq, and_true] at h; subst h
      exact ⟨rfl, rfl, Or.inr (Or.inl hc)⟩
    · split at h
      · rename_i hx hc _ hcol
        simp only [Prod.mk.injEq, and_true] at h; subst h
        exact ⟨rfl, rfl, Or.inr (Or.inr hcol)⟩
      · simp at h

end Grog.Exec

namespace Grog.Exec
open Grog
variable {κ : Type} [DecidableEq κ]

/-! ### file-system writes -/

theorem writeOuts_not_mem (l : Outs) (fs : FS) (p : Path) (h : p ∉ l.map (·.1.path)) : writeOuts fs l p = fs p := by
  induction l generalizing fs with
  | nil => rfl
  | cons ov l ih =>
    simp only [List.map_cons, List.mem_cons, not_or] at h
    simp only [writeOuts]
    rw [ih _ h.2, upd_other _ _ _ _ h.1]

theorem writeOuts_mem_isSome (l : Outs) (fs : FS) (p : Path) (h : p ∈ l.map (·.1.path)) : (writeOuts fs l p).isSome = true := by
  induction l generalizing fs with
  | nil => simp at h
  | cons ov l ih =>
    simp only [writeOuts]
    by_cases hp : p ∈ l.map (·.1.path)
    · exact ih _ hp
    · rw [writeOuts_not_mem l _ p hp]
      simp only [List.map_cons, List.mem_cons] at h
      rcases h with h | h
      · subst h; simp
      · exact absurd h hp

/-- with pairwise distinct paths every written value is found again -/
theorem writeOuts_get (l : Outs) (fs : FS) (hn : (l.map (·.1.path)).Nodup) (ov : OutDef × Val) (h : ov ∈ l) :
    writeOuts fs l ov.1.path = some ov.2 := by
  induction l generalizing fs with
  | nil => simp at h
  | cons a l ih =>
    simp only [List.map_cons, List.nodup_cons] at hn
    simp only [writeOuts]
    rcases List.mem_cons.1 h with h | h
    · subst h
      rw [writeOuts_not_mem l _ _ hn.1]; simp
    · exact ih _ hn.2 h

theorem writeOuts_agree (l : Outs) (fs fs' : FS) (p : Path) (h : p ∈ l.map (·.1.path)) : writeOuts fs l p = writeOuts fs' l p := by
  induction l generalizing fs fs' with
  | nil => simp at h
  | cons ov l ih =>
    simp only [writeOuts]
    by_cases hp : p ∈ l.map (·.1.path)
    · exact ih _ _ hp
    · rw [writeOuts_not_mem l _ p hp, writeOuts_not_mem l _ p hp]
      simp only [List.map_cons, List.mem_cons] at h
      rcases h with h | h
      · subst h; simp
      · exact absurd h hp

theorem writeSets_not_mem (l : List (Path × Val)) (fs : FS) (p : Path) (h : p ∉ l.map (·.1)) : writeSets fs l p = fs p := by
  induction l generalizing fs with
  | nil => rfl
  | cons pv l ih =>
    simp only [List.map_cons, List.mem_cons, not_or] at h
    simp only [writeSets]
    rw [ih _ h.2, upd_other _ _ _ _ h.1]

theorem collect_some {fs : FS} {outs : List OutDef} {ovs : Outs} (h : collect fs outs = some ovs) :
    ovs.map (·.1) = outs ∧ ∀ ov ∈ ovs, fs ov.1.path = some ov.2 := by
  induction outs generalizing ovs with
  | nil => simp [collect] at h; subst h; simp
  | cons o os ih =>
    simp only [collect] at h
    split at h
    · rename_i v r hv hr
      simp only [Option.some.injEq] at h; subst h
      obtain ⟨h1, h2⟩ := ih hr
      refine ⟨by simp [h1], ?_⟩
      intro ov hov
      rcases List.mem_cons.1 hov with hov | hov
      · subst hov; exact hv
      · exact h2 ov hov
    · simp at h

theorem collect_congr {fs fs' : FS} {outs : List OutDef} (h : ∀ o ∈ outs, fs o.path = fs' o.path) :
    collect fs outs = collect fs' outs := by
  induction outs with
  | nil => rfl
  | cons o os ih =>
    simp only [collect]
    rw [h o (by simp), ih (fun o' ho' => h o' (by simp [ho']))]

theorem checksPass_congr {fs fs' : FS} {cs : List (Path × Option Val)} (h : ∀ c ∈ cs, fs c.1 = fs' c.1) :
    checksPass fs cs = checksPass fs' cs := by
  unfold checksPass
  induction cs with
  | nil => rfl
  | cons c cs ih =>
    simp only [List.all_cons]
    rw [h c (by simp), ih (fun c' hc' => h c' (by simp [hc']))]

/-! ### the hit branch -/

/-- characterisation of a served hit in mode `all` -/
theorem tryHit_all_some {P : Params κ} {cfg : Cfg} {t : Target} {k : κ} {s s1 : BState κ}
    (hm : cfg.minimal = false) (h : tryHit P cfg t k s = some s1) :
    ∃ r fs', s.cache.res k = some r ∧ s.cache.taint t.label = false ∧ t.noCache = false ∧ cfg.enableCache = true ∧
      (checksPass s.fs t.checks = true ∨ P.fx.gateChecks = false) ∧
      restore t r s.cache s.fs = some fs' ∧
      s1 = { s with fs := fs', st := upd s.st t.label (some { ok := true, key := some k, oh := some r.oh, loaded := true }) } := by
  unfold tryHit at h
  split at h
  · simp at h
  · rename_i r hr
    split at h
    · rename_i hg
      simp only [hm, Bool.false_eq_true, ↓reduceIte] at h
      split at h
      · rename_i fs' hfs
        simp only [Option.some.injEq] at h
        simp only [Bool.and_eq_true, Bool.not_eq_eq_eq_not, Bool.not_true, Bool.or_eq_true] at hg
        exact ⟨r, fs', hr, hg.1.1.1, hg.1.1.2, hg.1.2, by simpa using hg.2, hfs, h.symm⟩
      · simp at h
    · simp at h

theorem restore_some {t : Target} {r : Result κ} {c : Cache κ} {fs fs' : FS} (h : restore t r c fs = some fs') :
    r.outs.map (·.1) = t.outs ∧ (∀ ov ∈ r.outs, c.cas ov.2 = true) ∧ fs' = writeOuts fs r.outs := by
  unfold restore at h
  split at h
  · rename_i hc
    simp only [Bool.and_eq_true, List.all_eq_true] at hc
    simp only [Option.some.injEq] at h
    refine ⟨?_, hc.2, h.symm⟩
    simpa [validate] using hc.1
  · simp at h

/-! ### the whole decision, mode `all` -/

inductive Outcome (P : Params κ) (cfg : Cfg) (defs : Defs) (t : Target) (s s' : BState κ) : Prop where
  | depFailed (h : depsOk s.st t.deps = false) (e : s' = failT s t.label)
  | noHash (h : depsOk s.st t.deps = true) (h2 : depOhs s.st t.hdeps = none) (e : s' = failT s t.label)
  | hit (ohs : List (OH κ)) (h : depsOk s.st t.deps = true) (h2 : depOhs s.st t.hdeps = some ohs)
      (e : tryHit P cfg t (P.K (keyState t s.fs ohs)) s = some s')
  | ran (ohs : List (OH κ)) (h : depsOk s.st t.deps = true) (h2 : depOhs s.st t.hdeps = some ohs)
      (h3 : tryHit P cfg t (P.K (keyState t s.fs ohs)) s = none)
      (e : execTarget P cfg defs t (P.K (keyState t s.fs ohs)) (s.cache.taint t.label) s = (s', true))
  | failed (ohs : List (OH κ)) (s2 : BState κ) (h : depsOk s.st t.deps = true) (h2 : depOhs s.st t.hdeps = some ohs)
      (h3 : tryHit P cfg t (P.K (keyState t s.fs ohs)) s = none)
      (e : execTarget P cfg defs t (P.K (keyState t s.fs ohs)) (s.cache.taint t.label) s = (s2, false))
      (e2 : s' = failT s2 t.label)

theorem buildTarget_all (P : Params κ) (cfg : Cfg) (defs : Defs) (fuel : Nat) (t : Target) (s : BState κ)
    (hm : cfg.minimal = false) : Outcome P cfg defs t s (buildTarget P cfg defs fuel t s) := by
  rw [buildTarget_all_eq P cfg defs fuel t s hm]
  unfold buildTargetNoPre
  by_cases hd : depsOk s.st t.deps = false
  · simp only [hd, ↓reduceIte]; exact .depFailed hd rfl
  · have hd' : depsOk s.st t.deps = true := by simpa using hd
    simp only [hd', Bool.true_eq_false, ↓reduceIte]
    cases ho : depOhs s.st t.hdeps with
    | none => exact .noHash hd' ho rfl
    | some ohs =>
      simp only
      cases hh : tryHit P cfg t (P.K (keyState t s.fs ohs)) s with
      | some s1 => exact .hit ohs hd' ho hh
      | none =>
        simp only [hm, Bool.false_eq_true, ↓reduceIte, Bool.not_true]
        cases he : execTarget P cfg defs t (P.K (keyState t s.fs ohs)) (s.cache.taint t.label) s with
        | mk s2 ok =>
          cases ok with
          | true => simp only [↓reduceIte]; exact .ran ohs hd' ho hh he
          | false => simp only [Bool.false_eq_true, ↓reduceIte]; exact .failed ohs s2 hd' ho hh he rfl

end Grog.Exec
