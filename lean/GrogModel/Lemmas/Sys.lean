/-
  Lemmas about the composition walker × pool tasks.
-/
import GrogModel.Lemmas.Walker
import GrogModel.Pool
namespace Grog.Sys
open Grog.Walker

/-- a walker event other than a callback return leaves running nodes running -/
theorem walker_step_keeps_running {c : Cfg} {w w' : Walker.State} {e : Walker.Ev}
    (hs : Walker.step c w e = some w') (he : isCbReturn e = false) {m : Node}
    (hm : w.phase m = .running) : w'.phase m = .running := by
  cases e with
  | cbReturn n r => simp [isCbReturn] at he
  | wake n => obtain ⟨_, hp, _, rfl⟩ := step_wake.mp hs; simp only [Walker.set]; grind
  | exit n => obtain ⟨_, hp, _, rfl⟩ := step_exit.mp hs; simp only [Walker.set]; grind
  | complete n =>
    obtain ⟨_, hh⟩ := step_complete.mp hs
    rcases hh with ⟨hp, rfl⟩ | ⟨hp, rfl⟩
    · simp only [completeOk_phase, Walker.set]; grind
    · simp only [completeFail_phase, Walker.set]; grind
  | deliverCancel n => obtain ⟨_, _, rfl⟩ := step_deliverCancel.mp hs; exact hm
  | ctxCancel => obtain ⟨_, rfl⟩ := step_ctxCancel.mp hs; exact hm
  | walkReturn b =>
    obtain ⟨_, hh⟩ := step_walkReturn.mp hs
    rcases hh with ⟨_, _, rfl⟩ | ⟨_, _, rfl⟩ <;> exact hm

/-- the walker component of a reachable composed state is a reachable walker state -/
theorem step_walker {c : Cfg} {s s' : State} {e : Ev} (hs : step c s e = some s') :
    s'.w = s.w ∨ ∃ we, Walker.step c s.w we = some s'.w := by
  cases e <;> simp only [step] at hs
  case walker e =>
    split at hs
    · simp at hs
    · split at hs
      · rename_i w' hw; simp at hs; subst hs; exact Or.inr ⟨e, hw⟩
      · simp at hs
  case submit n => split at hs <;> simp at hs; subst hs; exact Or.inl rfl
  case take n => split at hs <;> simp at hs; subst hs; exact Or.inl rfl
  case cmdStart n => split at hs <;> simp at hs; subst hs; exact Or.inl rfl
  case cmdEnd n => split at hs <;> simp at hs; subst hs; exact Or.inl rfl
  case done n => split at hs <;> simp at hs; subst hs; exact Or.inl rfl
  case cbReturn n r =>
    split at hs
    · split at hs
      · rename_i w' hw; simp at hs; subst hs; exact Or.inr ⟨_, hw⟩
      · simp at hs
    · simp at hs

theorem reach_walker {c : Cfg} {s : State} (h : Reach c s) : Walker.Reach c s.w := by
  induction h with
  | init => exact Walker.Reach.init
  | step _ hs ih =>
    rcases step_walker hs with h | ⟨we, h⟩
    · rw [h]; exact ih
    · exact Walker.Reach.step ih h

/-- a task that is queued or on a worker belongs to a node whose callback is running -/
def Bracket (s : State) : Prop :=
  ∀ n, (s.task n).active = true → s.w.phase n = .running

theorem bracket_step {c : Cfg} {s s' : State} {e : Ev} (h : Bracket s) (hs : step c s e = some s') :
    Bracket s' := by
  cases e <;> simp only [step] at hs
  case walker e =>
    split at hs
    · simp at hs
    · rename_i he
      split at hs
      · rename_i w' hw
        simp at hs; subst hs
        intro n hn
        exact walker_step_keeps_running hw (by simpa using he) (h n hn)
      · simp at hs
  case submit n =>
    split at hs <;> simp at hs
    rename_i g; subst hs
    intro m hm
    by_cases hmn : m = n
    · subst hmn; exact g.1
    · simp [Walker.set, hmn] at hm; exact h m hm
  case take n =>
    split at hs <;> simp at hs
    rename_i g; subst hs
    intro m hm
    by_cases hmn : m = n
    · subst hmn; exact h m (by simp [g, TaskSt.active])
    · simp [Walker.set, hmn] at hm; exact h m hm
  case cmdStart n =>
    split at hs <;> simp at hs
    rename_i g; subst hs
    intro m hm
    by_cases hmn : m = n
    · subst hmn; exact h m (by simp [g.1, TaskSt.active])
    · simp [Walker.set, hmn] at hm; exact h m hm
  case cmdEnd n =>
    split at hs <;> simp at hs
    rename_i g; subst hs
    intro m hm
    by_cases hmn : m = n
    · subst hmn; exact h m (by simp [g, TaskSt.active])
    · simp [Walker.set, hmn] at hm; exact h m hm
  case done n =>
    split at hs <;> simp at hs
    rename_i g; subst hs
    intro m hm
    by_cases hmn : m = n
    · subst hmn; simp [Walker.set, TaskSt.active] at hm
    · simp [Walker.set, hmn] at hm; exact h m hm
  case cbReturn n r =>
    split at hs
    · rename_i g
      split at hs
      · rename_i w' hw
        simp at hs; subst hs
        intro m hm
        have hmn : m ≠ n := by
          intro e; subst e
          rcases g with g | g <;> simp [g, TaskSt.active] at hm
        have := h m hm
        obtain ⟨_, _, hr⟩ := step_cbReturn.mp hw
        rcases hr with ⟨_, rfl⟩ | ⟨_, rfl⟩ | ⟨_, _, rfl⟩ | ⟨_, _, rfl⟩ <;> simp [Walker.set, hmn, this]
      · simp at hs
    · simp at hs

theorem reach_bracket {c : Cfg} {s : State} (h : Reach c s) : Bracket s := by
  induction h with
  | init => intro n hn; simp [init, TaskSt.active] at hn
  | step _ hs ih => exact bracket_step ih hs

/-! ### `W` workers -/

theorem stepW_step {c : Cfg} {W : Nat} {s s' : State} {e : Ev} (h : stepW c W s e = some s') : step c s e = some s' := by
  cases e <;> simp only [stepW] at h <;> try exact h
  split at h
  · exact h
  · simp at h

/-- every run with `W` workers is a run of the unbounded composition: all theorems over `Reach` apply -/
theorem reachW_reach {c : Cfg} {W : Nat} {s : State} (h : ReachW c W s) : Reach c s := by
  induction h with
  | init => exact Reach.init
  | step _ hs ih => exact Reach.step ih (stepW_step hs)

/-- tasks exist only for selected nodes, so `onWorkers` / `commands` count all of them -/
theorem task_only_selected {c : Cfg} (ok : CfgOK c) {s : State} (h : Reach c s) : ∀ n, s.task n ≠ .none → n ∈ c.sel := by
  induction h with
  | init => intro n hn; simp [init] at hn
  | @step s e s' hr hs ih =>
    have inv := reach_inv ok (reach_walker hr)
    intro n hn
    cases e <;> simp only [step] at hs
    case walker e =>
      split at hs
      · simp at hs
      · split at hs
        · simp at hs; subst hs; exact ih n hn
        · simp at hs
    case cbReturn m r =>
      split at hs
      · split at hs
        · simp at hs; subst hs; exact ih n hn
        · simp at hs
      · simp at hs
    case submit m =>
      split at hs <;> simp at hs
      rename_i g; subst hs
      by_cases hnm : n = m
      · subst hnm
        refine Classical.byContradiction fun hns => ?_
        have := inv.nonSel n hns
        rw [this] at g; exact absurd g.1 (by simp)
      · simp [Walker.set, hnm] at hn; exact ih n hn
    all_goals
      split at hs <;> simp at hs
      rename_i g; subst hs
      rename_i m
      by_cases hnm : n = m
      · subst hnm; exact ih n (by simp_all)
      · simp [Walker.set, hnm] at hn; exact ih n hn

theorem countP_set_le {β : Type} (p : β → Bool) (f : Node → β) (n : Node) (v : β) :
    ∀ (l : List Node), l.Nodup → l.countP (fun m => p (Walker.set f n v m)) ≤ l.countP (fun m => p (f m)) + 1 := by
  intro l
  induction l with
  | nil => intro _; simp
  | cons a l ih =>
    intro hl
    have ⟨ha, hl'⟩ := List.nodup_cons.mp hl
    by_cases han : a = n
    · subst han
      have : l.countP (fun m => p (Walker.set f a v m)) = l.countP (fun m => p (f m)) := by
        apply List.countP_congr
        intro m hm
        have : m ≠ a := fun e => ha (e ▸ hm)
        simp [Walker.set, this]
      simp only [List.countP_cons, this]
      split <;> split <;> omega
    · have := ih hl'
      have hh : p (Walker.set f n v a) = p (f a) := by simp [Walker.set, han]
      simp only [List.countP_cons, hh]
      omega

theorem countP_set_mono {β : Type} (p : β → Bool) (f : Node → β) (n : Node) (v : β) (hv : p v = true → p (f n) = true) (l : List Node) :
    l.countP (fun m => p (Walker.set f n v m)) ≤ l.countP (fun m => p (f m)) := by
  apply List.countP_mono_left
  intro m _ hm
  by_cases hmn : m = n
  · subst hmn; simp [Walker.set] at hm; simpa using hv hm
  · simpa [Walker.set, hmn] using hm

/-- **the worker bound**: with `W` workers never more than `W` tasks are on a worker -/
theorem onWorkers_le {c : Cfg} {W : Nat} (hsel : c.sel.Nodup) {s : State} (h : ReachW c W s) : onWorkers c s ≤ W := by
  induction h with
  | init => simp [onWorkers, init, TaskSt.onWorker]
  | @step s e s' _ hs ih =>
    cases e <;> simp only [stepW] at hs
    case take n =>
      split at hs
      · rename_i hlt
        simp only [step] at hs
        split at hs <;> simp at hs
        subst hs
        have := countP_set_le TaskSt.onWorker s.task n (.busy false) c.sel hsel
        simp only [onWorkers] at hlt ⊢
        omega
      · simp at hs
    case walker e =>
      simp only [step] at hs
      split at hs
      · simp at hs
      · split at hs
        · simp at hs; subst hs; exact ih
        · simp at hs
    case cbReturn m r =>
      simp only [step] at hs
      split at hs
      · split at hs
        · simp at hs; subst hs; exact ih
        · simp at hs
      · simp at hs
    all_goals
      simp only [step] at hs
      split at hs <;> simp at hs
      rename_i g; subst hs
      refine Nat.le_trans (countP_set_mono TaskSt.onWorker s.task _ _ ?_ c.sel) ih
      simp_all [TaskSt.onWorker]

theorem commands_le_onWorkers (c : Cfg) (s : State) : commands c s ≤ onWorkers c s := by
  apply List.countP_mono_left
  intro n _ h
  cases ht : s.task n <;> simp_all [TaskSt.inCommand, TaskSt.onWorker]

end Grog.Sys
