/-
  Lemmas about the composition walker × pool tasks.
-/
import GrogModel.Lemmas.Walker
import GrogModel.Pool
namespace Grog.Sys
open Grog.Walker

/-- a walker event other than a callback return leaves running nodes running -/
theorem walker_step_keeps_running {c : Cfg} {w w' : Walker.State} {e : Walker.Ev}
    (hs : Walker.step c w e = some w') (he : isCbReturn e = false) {m : Node}
    (hm : w.phase m = .running) : w'.phase m = .running := by
  cases e with
  | cbReturn n r => simp [isCbReturn] at he
  | wake n => obtain ⟨_, hp, _, rfl⟩ := step_wake.mp hs; simp only [Walker.set]; grind
  | exit n => obtain ⟨_, hp, _, rfl⟩ := step_exit.mp hs; simp only [Walker.set]; grind
  | complete n =>
    obtain ⟨_, hh⟩ := step_complete.mp hs
    rcases hh with ⟨hp, rfl⟩ | ⟨hp, rfl⟩
    · simp only [completeOk_phase, Walker.set]; grind
    · simp only [completeFail_phase, Walker.set]; grind
  | deliverCancel n => obtain ⟨_, _, rfl⟩ := step_deliverCancel.mp hs; exact hm
  | ctxCancel => obtain ⟨_, rfl⟩ := step_ctxCancel.mp hs; exact hm
  | walkReturn b =>
    obtain ⟨_, hh⟩ := step_walkReturn.mp hs
    rcases hh with ⟨_, _, rfl⟩ | ⟨_, _, rfl⟩ <;> exact hm

/-- the walker component of a reachable composed state is a reachable walker state -/
theorem step_walker {c : Cfg} {s s' : State} {e : Ev} (hs : step c s e = some s') :
    s'.w = s.w ∨ ∃ we, Walker.step c s.w we = some s'.w := by
  cases e <;> simp only [step] at hs
  case walker e =>
    split at hs
    · simp at hs
    · split at hs
      · rename_i w' hw; simp at hs; subst hs; exact Or.inr ⟨e, hw⟩
      · simp at hs
  case submit n => split at hs <;> simp at hs; subst hs; exact Or.inl rfl
  case take n => split at hs <;> simp at hs; subst hs; exact Or.inl rfl
  case cmdStart n => split at hs <;> simp at hs; subst hs; exact Or.inl rfl
  case cmdEnd n => split at hs <;> simp at hs; subst hs; exact Or.inl rfl
  case done n => split at hs <;> simp at hs; subst hs; exact Or.inl rfl
  case cbReturn n r =>
    split at hs
    · split at hs
      · rename_i w' hw; simp at hs; subst hs; exact Or.inr ⟨_, hw⟩
      · simp at hs
    · simp at hs

theorem reach_walker {c : Cfg} {s : State} (h : Reach c s) : Walker.Reach c s.w := by
  induction h with
  | init => exact Walker.Reach.init
  | step _ hs ih =>
    rcases step_walker hs with h | ⟨we, h⟩
    · rw [h]; exact ih
    · exact Walker.Reach.step ih h

/-- a task that is queued or on a worker belongs to a node whose callback is running -/
def Bracket (s : State) : Prop :=
  ∀ n, (s.task n).active = true → s.w.phase n = .running

theorem bracket_step {c : Cfg} {s s' : State} {e : Ev} (h : Bracket s) (hs : step c s e = some s') :
    Bracket s' := by
  cases e <;> simp only [step] at hs
  case walker e =>
    split at hs
    · simp at hs
    · rename_i he
      split at hs
      · rename_i w' hw
        simp at hs; subst hs
        intro n hn
        exact walker_step_keeps_running hw (by simpa using he) (h n hn)
      · simp at hs
  case submit n =>
    split at hs <;> simp at hs
    rename_i g; subst hs
    intro m hm
    by_cases hmn : m = n
    · subst hmn; exact g.1
    · simp [Walker.set, hmn] at hm; exact h m hm
  case take n =>
    split at hs <;> simp at hs
    rename_i g; subst hs
    intro m hm
    by_cases hmn : m = n
    · subst hmn; exact h m (by simp [g, TaskSt.active])
    · simp [Walker.set, hmn] at hm; exact h m hm
  case cmdStart n =>
    split at hs <;> simp at hs
    rename_i g; subst hs
    intro m hm
    by_cases hmn : m = n
    · subst hmn; exact h m (by simp [g.1, TaskSt.active])
    · simp [Walker.set, hmn] at hm; exact h m hm
  case cmdEnd n =>
    split at hs <;> simp at hs
    rename_i g; subst hs
    intro m hm
    by_cases hmn : m = n
    · subst hmn; exact h m (by simp [g, TaskSt.active])
    · simp [Walker.set, hmn] at hm; exact h m hm
  case done n =>
    split at hs <;> simp at hs
    rename_i g; subst hs
    intro m hm
    by_cases hmn : m = n
    · subst hmn; simp [Walker.set, TaskSt.active] at hm
    · simp [Walker.set, hmn] at hm; exact h m hm
  case cbReturn n r =>
    split at hs
    · rename_i g
      split at hs
      · rename_i w' hw
        simp at hs; subst hs
        intro m hm
        have hmn : m ≠ n := by
          intro e; subst e
          rcases g with g | g <;> simp [g, TaskSt.active] at hm
        have := h m hm
        obtain ⟨_, _, hr⟩ := step_cbReturn.mp hw
        rcases hr with ⟨_, rfl⟩ | ⟨_, rfl⟩ | ⟨_, _, rfl⟩ <;> simp [Walker.set, hmn, this]
      · simp at hs
    · simp at hs

theorem reach_bracket {c : Cfg} {s : State} (h : Reach c s) : Bracket s := by
  induction h with
  | init => intro n hn; simp [init, TaskSt.active] at hn
  | step _ hs ih => exact bracket_step ih hs

end Grog.Sys
