/-
  Lemmas about the lexical path model (GrogModel/Paths.lean): split/join round trips, the normal
  form produced by `normComps`, idempotence of `clean`, and the string tests `pathWithin`,
  `triesToEscape`, `isWithinWorkspace` expressed on component lists.
-/
import GrogModel.Paths
namespace Grog.Paths
open Grog

/-! ### split / join -/

theorem splitSlash_ne_nil (p : Bytes) : splitSlash p ≠ [] := by
  induction p with
  | nil => simp [splitSlash]
  | cons c t ih =>
    simp only [splitSlash]
    split
    · simp
    · split <;> simp

theorem splitSlash_cons_ne {c : UInt8} (hc : c ≠ cSlash) (t : Bytes) :
    ∃ h r, splitSlash t = h :: r ∧ splitSlash (c :: t) = (c :: h) :: r := by
  cases hs : splitSlash t with
  | nil => exact absurd hs (splitSlash_ne_nil t)
  | cons h r => exact ⟨h, r, rfl, by simp [splitSlash, hc, hs]⟩

/-- components produced by splitting contain no slash -/
theorem splitSlash_noSlash (p : Bytes) : ∀ c ∈ splitSlash p, cSlash ∉ c := by
  induction p with
  | nil => simp [splitSlash]
  | cons a t ih =>
    by_cases ha : a = cSlash
    · subst ha
      simp only [splitSlash, if_true]
      intro c hc
      rcases List.mem_cons.mp hc with rfl | hc
      · simp
      · exact ih c hc
    · obtain ⟨h, r, hs, hs'⟩ := splitSlash_cons_ne ha t
      rw [hs']
      rw [hs] at ih
      intro c hc
      rcases List.mem_cons.mp hc with rfl | hc
      · intro hm
        rcases List.mem_cons.mp hm with hm | hm
        · exact ha hm.symm
        · exact ih h List.mem_cons_self hm
      · exact ih c (List.mem_cons_of_mem _ hc)

/-- splitting `a ++ "/" ++ b` splits both parts -/
theorem splitSlash_append (a b : Bytes) :
    splitSlash (a ++ cSlash :: b) = splitSlash a ++ splitSlash b := by
  induction a with
  | nil => simp [splitSlash]
  | cons c t ih =>
    by_cases hc : c = cSlash
    · subst hc
      simp only [List.cons_append, splitSlash, if_true, ih]
    · obtain ⟨h, r, hs, hs'⟩ := splitSlash_cons_ne hc t
      obtain ⟨h2, r2, hs2, hs2'⟩ := splitSlash_cons_ne hc (t ++ cSlash :: b)
      rw [List.cons_append, hs2', hs']
      rw [ih, hs] at hs2
      simp only [List.cons_append, List.cons.injEq] at hs2
      obtain ⟨rfl, rfl⟩ := hs2
      simp

/-- a slash-free string is its own single component -/
theorem splitSlash_noSlash_self {c : Bytes} (hc : cSlash ∉ c) : splitSlash c = [c] := by
  induction c with
  | nil => simp [splitSlash]
  | cons a t ih =>
    have ha : a ≠ cSlash := fun h => hc (h ▸ List.mem_cons_self)
    have ht : cSlash ∉ t := fun h => hc (List.mem_cons_of_mem _ h)
    simp [splitSlash, ha, ih ht]

theorem joinSlash_cons_cons (c d : Bytes) (r : List Bytes) :
    joinSlash (c :: d :: r) = c ++ cSlash :: joinSlash (d :: r) := rfl

/-- join then split is the identity on non-empty lists of slash-free components -/
theorem splitSlash_joinSlash {cs : List Bytes} (hne : cs ≠ []) (hns : ∀ c ∈ cs, cSlash ∉ c) :
    splitSlash (joinSlash cs) = cs := by
  induction cs with
  | nil => exact absurd rfl hne
  | cons c r ih =>
    cases r with
    | nil => simpa [joinSlash] using splitSlash_noSlash_self (hns c List.mem_cons_self)
    | cons d r' =>
      rw [joinSlash_cons_cons, splitSlash_append,
        splitSlash_noSlash_self (hns c List.mem_cons_self),
        ih (by simp) (fun x hx => hns x (List.mem_cons_of_mem _ hx))]
      simp

theorem joinSlash_append {a b : List Bytes} (ha : a ≠ []) (hb : b ≠ []) :
    joinSlash (a ++ b) = joinSlash a ++ cSlash :: joinSlash b := by
  induction a with
  | nil => exact absurd rfl ha
  | cons c r ih =>
    cases r with
    | nil =>
      cases b with
      | nil => exact absurd rfl hb
      | cons d b' => simp [joinSlash]
    | cons d r' =>
      have := ih (by simp)
      simp only [List.cons_append] at this ⊢
      rw [joinSlash_cons_cons, this, joinSlash_cons_cons]
      simp

/-! ### the normal form -/

/-- components that can occur in a cleaned path -/
def CompsOK (cs : List Bytes) : Prop := ∀ c ∈ cs, c ≠ [] ∧ c ≠ dot ∧ cSlash ∉ c

/-- on the stack (top first): below a `..` there are only `..` -/
def ddOK : List Bytes → Prop
  | [] => True
  | [_] => True
  | x :: y :: r => (x = dotdot → y = dotdot) ∧ ddOK (y :: r)

theorem ddOK_tail {x : Bytes} {r : List Bytes} (h : ddOK (x :: r)) : ddOK r := by
  cases r with
  | nil => trivial
  | cons y r' => exact h.2

theorem ddOK_append_right : ∀ (l m : List Bytes), ddOK (l ++ m) → ddOK m := by
  intro l
  induction l with
  | nil => intro m h; exact h
  | cons x l' ih => intro m h; exact ih m (ddOK_tail h)

/-- invariant of the component loop -/
structure StackOK (rooted : Bool) (st : List Bytes) : Prop where
  comps : CompsOK st
  dd : ddOK st
  root : rooted = true → dotdot ∉ st

theorem stackOK_nil (rooted : Bool) : StackOK rooted [] := by
  refine ⟨?_, trivial, ?_⟩
  · intro c h; cases h
  · intro _ h; cases h

theorem dotdot_ok : dotdot ≠ [] ∧ dotdot ≠ dot ∧ cSlash ∉ dotdot := by decide

theorem step_ok {rooted : Bool} {st : List Bytes} (h : StackOK rooted st) {c : Bytes} (hc : cSlash ∉ c) :
    StackOK rooted (step rooted st c) := by
  unfold step
  split
  · exact h
  · split
    · exact h
    · rename_i h1 h2
      split
      · rename_i hdd
        cases st with
        | nil =>
          cases rooted with
          | true => exact stackOK_nil true
          | false =>
            refine ⟨?_, trivial, by simp⟩
            intro x hx
            simp at hx; subst hx; exact dotdot_ok
        | cons top rest =>
          simp only
          split
          · rename_i htop
            refine ⟨?_, ⟨fun _ => htop, h.dd⟩, ?_⟩
            · intro x hx
              rcases List.mem_cons.mp hx with rfl | hx
              · exact dotdot_ok
              · exact h.comps x hx
            · intro hr; exact absurd (htop ▸ List.mem_cons_self) (h.root hr)
          · exact ⟨fun x hx => h.comps x (List.mem_cons_of_mem _ hx), ddOK_tail h.dd,
              fun hr hm => h.root hr (List.mem_cons_of_mem _ hm)⟩
      · rename_i hdd
        refine ⟨?_, ?_, ?_⟩
        · intro x hx
          rcases List.mem_cons.mp hx with rfl | hx
          · exact ⟨h1, h2, hc⟩
          · exact h.comps x hx
        · cases st with
          | nil => trivial
          | cons y r => exact ⟨fun he => absurd he hdd, h.dd⟩
        · intro hr hm
          rcases List.mem_cons.mp hm with hm | hm
          · exact hdd hm.symm
          · exact h.root hr hm

theorem foldl_step_ok {rooted : Bool} : ∀ (cs st : List Bytes), StackOK rooted st → (∀ c ∈ cs, cSlash ∉ c) →
    StackOK rooted (cs.foldl (step rooted) st) := by
  intro cs
  induction cs with
  | nil => intro st h _; exact h
  | cons c r ih =>
    intro st h hc
    exact ih _ (step_ok h (hc c List.mem_cons_self)) (fun x hx => hc x (List.mem_cons_of_mem _ hx))

/-- what `normComps` returns, as a stack -/
theorem normComps_stack (rooted : Bool) (cs : List Bytes) (hc : ∀ c ∈ cs, cSlash ∉ c) :
    StackOK rooted (normComps rooted cs).reverse := by
  simpa [normComps] using foldl_step_ok cs [] (stackOK_nil rooted) hc

theorem normComps_ok (rooted : Bool) (cs : List Bytes) (hc : ∀ c ∈ cs, cSlash ∉ c) :
    CompsOK (normComps rooted cs) := by
  intro c hm
  exact (normComps_stack rooted cs hc).comps c (List.mem_reverse.mpr hm)

/-- the loop leaves an already normal list alone -/
theorem foldl_step_fixed (rooted : Bool) : ∀ (cs st : List Bytes), CompsOK cs → ddOK (cs.reverse ++ st) →
    (rooted = true → dotdot ∉ cs) → cs.foldl (step rooted) st = cs.reverse ++ st := by
  intro cs
  induction cs with
  | nil => intro st _ _ _; rfl
  | cons c r ih =>
    intro st hok hdd hroot
    have hc := hok c List.mem_cons_self
    have hdd' : ddOK (r.reverse ++ (c :: st)) := by simpa using hdd
    have hstep : step rooted st c = c :: st := by
      unfold step
      simp only [hc.1, hc.2.1, if_false]
      split
      · rename_i hcd
        have hpair : ddOK (c :: st) := ddOK_append_right _ _ hdd'
        have hnr : rooted = false := by
          cases rooted with
          | false => rfl
          | true => exact absurd (hcd ▸ List.mem_cons_self) (hroot rfl)
        cases st with
        | nil => simp [hnr, hcd]
        | cons top rest =>
          have : top = dotdot := hpair.1 hcd
          simp [this, hcd]
      · rfl
    simp only [List.foldl_cons, hstep]
    rw [ih (c :: st) (fun x hx => hok x (List.mem_cons_of_mem _ hx)) hdd'
      (fun hr hm => hroot hr (List.mem_cons_of_mem _ hm))]
    simp

theorem normComps_fixed (rooted : Bool) (cs : List Bytes) (h : StackOK rooted cs.reverse) :
    normComps rooted cs = cs := by
  unfold normComps
  rw [foldl_step_fixed rooted cs [] ?_ (by simpa using h.dd) ?_]
  · simp
  · intro c hc; exact h.comps c (List.mem_reverse.mpr hc)
  · intro hr hm; exact h.root hr (List.mem_reverse.mpr hm)

/-- an empty component in front changes nothing -/
theorem normComps_nil_cons (rooted : Bool) (cs : List Bytes) :
    normComps rooted ([] :: cs) = normComps rooted cs := by
  simp [normComps, step]

/-! ### clean -/

theorem isAbs_cons_slash (p : Bytes) : isAbs (cSlash :: p) = true := by simp [isAbs]

theorem isAbs_iff {p : Bytes} : isAbs p = true ↔ ∃ t, p = cSlash :: t := by
  cases p with
  | nil => simp [isAbs]
  | cons c t => simp [isAbs]

theorem renderRel_not_abs {cs : List Bytes} (h : CompsOK cs) : isAbs (renderRel cs) = false := by
  unfold renderRel
  split
  · decide
  · rename_i hne
    cases cs with
    | nil => exact absurd rfl hne
    | cons c r =>
      obtain ⟨h1, _, h3⟩ := h c List.mem_cons_self
      cases c with
      | nil => exact absurd rfl h1
      | cons a t =>
        have ha : a ≠ cSlash := fun he => h3 (he ▸ List.mem_cons_self)
        cases r with
        | nil => simp [joinSlash, isAbs, ha]
        | cons d r' => simp [joinSlash, isAbs, ha]

/-- components of a printed relative normal form -/
theorem splitSlash_renderRel {cs : List Bytes} (h : CompsOK cs) :
    normComps false (splitSlash (renderRel cs)) = normComps false cs := by
  unfold renderRel
  split
  · rename_i he; subst he; decide
  · rename_i hne
    rw [splitSlash_joinSlash hne (fun c hc => (h c hc).2.2)]

/-- `Clean` of a relative path, on components -/
theorem clean_rel {p : Bytes} (h : isAbs p = false) :
    clean p = renderRel (normComps false (splitSlash p)) := by
  simp [clean, h]

/-- `Clean` is idempotent (relative paths; the rooted case is not needed by the analysis) -/
theorem clean_normal_form {p : Bytes} (h : isAbs p = false) : clean (clean p) = clean p := by
  have hs := normComps_stack false (splitSlash p) (splitSlash_noSlash p)
  have hok := normComps_ok false (splitSlash p) (splitSlash_noSlash p)
  rw [clean_rel h, clean_rel (renderRel_not_abs hok), splitSlash_renderRel hok, normComps_fixed false _ hs]

/-- `cleanOutputPath` on components, for a relative package path and a relative identifier -/
theorem cleanOutputPath_rel {pkg ident : Bytes} (hp : isAbs pkg = false) (hi : isAbs ident = false) :
    cleanOutputPath pkg ident = renderRel (normComps false (splitSlash pkg ++ splitSlash ident)) := by
  unfold cleanOutputPath join
  by_cases hpe : pkg = []
  · subst hpe
    by_cases hie : ident = []
    · subst hie; decide
    · have : List.dropWhile (fun x => decide (x = [])) [[], ident] = [ident] := by
        simp [List.dropWhile, hie]
      rw [this]
      show clean (clean ident) = _
      rw [clean_normal_form hi, clean_rel hi]
      show _ = renderRel (normComps false ([] :: splitSlash ident))
      rw [normComps_nil_cons]
  · have : List.dropWhile (fun x => decide (x = [])) [pkg, ident] = [pkg, ident] := by
      simp [List.dropWhile, hpe]
    rw [this]
    have habs : isAbs (pkg ++ cSlash :: ident) = false := by
      cases pkg with
      | nil => exact absurd rfl hpe
      | cons a t => simpa [isAbs] using hp
    show clean (clean (pkg ++ cSlash :: ident)) = _
    rw [clean_normal_form habs, clean_rel habs, splitSlash_append]

/-! ### string tests on printed normal forms -/

theorem renderRel_eq_dot {cs : List Bytes} (h : CompsOK cs) : renderRel cs = dot ↔ cs = [] := by
  constructor
  · intro he
    by_cases hne : cs = []
    · exact hne
    · exfalso
      have hs : splitSlash (renderRel cs) = cs := by
        unfold renderRel; rw [if_neg hne]
        exact splitSlash_joinSlash hne (fun c hc => (h c hc).2.2)
      rw [he] at hs
      have : cs = [dot] := by rw [← hs]; decide
      subst this
      exact (h dot List.mem_cons_self).2.1 rfl
  · intro he; subst he; rfl

/-- printing is injective on normal forms -/
theorem renderRel_inj {a b : List Bytes} (ha : CompsOK a) (hb : CompsOK b) (h : renderRel a = renderRel b) :
    a = b := by
  by_cases hae : a = []
  · subst hae
    exact ((renderRel_eq_dot hb).mp h.symm).symm
  · by_cases hbe : b = []
    · subst hbe
      exact (renderRel_eq_dot ha).mp h
    · have h1 : splitSlash (renderRel a) = a := by
        unfold renderRel; rw [if_neg hae]
        exact splitSlash_joinSlash hae (fun c hc => (ha c hc).2.2)
      have h2 : splitSlash (renderRel b) = b := by
        unfold renderRel; rw [if_neg hbe]
        exact splitSlash_joinSlash hbe (fun c hc => (hb c hc).2.2)
      rw [← h1, ← h2, h]

/-- a printed non-empty normal form starts with its first component, followed by `/` or the end -/
theorem renderRel_cons {c : Bytes} {r : List Bytes} :
    renderRel (c :: r) = if r = [] then c else c ++ cSlash :: joinSlash r := by
  unfold renderRel
  cases r with
  | nil => simp [joinSlash]
  | cons d r' => simp [joinSlash]

theorem joinSlash_ne_nil {d : List Bytes} (hd : CompsOK d) (hdne : d ≠ []) : joinSlash d ≠ [] := by
  cases d with
  | nil => exact absurd rfl hdne
  | cons c r =>
    have hc := (hd c List.mem_cons_self).1
    cases r with
    | nil => simpa [joinSlash] using hc
    | cons e r' => simp [joinSlash, hc]

theorem prefix_slash_iff {d p : List Bytes} (hd : CompsOK d) (hp : CompsOK p) (hdne : d ≠ []) :
    (joinSlash d ++ [cSlash]) <+: renderRel p ↔ ∃ r, r ≠ [] ∧ p = d ++ r := by
  constructor
  · rintro ⟨rest, hrest⟩
    have hpne : p ≠ [] := by
      intro he; subst he
      have : (joinSlash d ++ [cSlash] ++ rest).length = 1 := by rw [hrest]; rfl
      have hj := joinSlash_ne_nil hd hdne
      cases hjd : joinSlash d with
      | nil => exact hj hjd
      | cons a b => rw [hjd] at this; simp at this
    have hsp : splitSlash (renderRel p) = p := by
      unfold renderRel; rw [if_neg hpne]
      exact splitSlash_joinSlash hpne (fun c hc => (hp c hc).2.2)
    have : splitSlash (joinSlash d ++ cSlash :: rest) = d ++ splitSlash rest := by
      rw [splitSlash_append, splitSlash_joinSlash hdne (fun c hc => (hd c hc).2.2)]
    refine ⟨splitSlash rest, splitSlash_ne_nil rest, ?_⟩
    rw [← this, ← hsp, ← hrest]; simp
  · rintro ⟨r, hr, rfl⟩
    have hne : d ++ r ≠ [] := by simp [hdne]
    unfold renderRel
    rw [if_neg hne, joinSlash_append hdne hr]
    exact ⟨joinSlash r, by simp⟩

/-- the escape test on a printed normal form: first component is `..` -/
theorem escapes_renderRel {p : List Bytes} (hp : CompsOK p) :
    ((dotdot ++ [cSlash]).isPrefixOf (renderRel p) || renderRel p == dotdot) = true ↔
      p.head? = some dotdot := by
  cases p with
  | nil => decide
  | cons c r =>
    have hc := hp c List.mem_cons_self
    simp only [List.head?_cons, Option.some.injEq]
    constructor
    · intro h
      have hsp : splitSlash (renderRel (c :: r)) = c :: r :=
        by
          unfold renderRel; rw [if_neg (by simp)]
          exact splitSlash_joinSlash (by simp) (fun x hx => (hp x hx).2.2)
      rcases Bool.or_eq_true _ _ |>.mp h with h | h
      · rw [List.isPrefixOf_iff_prefix] at h
        obtain ⟨rest, hrest⟩ := h
        have : splitSlash (dotdot ++ cSlash :: rest) = dotdot :: splitSlash rest := by
          rw [splitSlash_append]; rfl
        have h2 : splitSlash (renderRel (c :: r)) = dotdot :: splitSlash rest := by
          rw [← this, ← hrest]; simp
        rw [hsp] at h2
        exact (List.cons.inj h2).1
      · have he : renderRel (c :: r) = dotdot := by simpa using h
        rw [he] at hsp
        have : splitSlash dotdot = [dotdot] := by decide
        rw [this] at hsp
        exact (List.cons.inj hsp).1.symm
    · intro he
      subst he
      rw [renderRel_cons]
      cases r with
      | nil => decide
      | cons d r' =>
        simp only [reduceCtorEq, if_false]
        apply Bool.or_eq_true _ _ |>.mpr
        left
        rw [List.isPrefixOf_iff_prefix]
        exact ⟨joinSlash (d :: r'), by simp⟩

/-- `pathTriesToEscape` of a relative path, on components -/
theorem triesToEscape_rel {p : Bytes} (h : isAbs p = false) :
    triesToEscape p = true ↔ (normComps false (splitSlash p)).head? = some dotdot := by
  unfold triesToEscape
  simp only
  rw [clean_rel h]
  exact escapes_renderRel (normComps_ok false _ (splitSlash_noSlash p))


/-! ### resolving a relative path under a rooted one -/

/-- what a relative normal-form stack `r` (top first) does to a rooted stack `st`: each `..` removes one entry,
    names are pushed -/
def embed : List Bytes → List Bytes → List Bytes
  | [], st => st
  | x :: r, st => if x = dotdot then (embed r st).drop 1 else x :: embed r st

theorem dotdot_not_mem_embed {st : List Bytes} (hst : dotdot ∉ st) : ∀ r, dotdot ∉ embed r st := by
  intro r
  induction r with
  | nil => exact hst
  | cons x r ih =>
    simp only [embed]
    split
    · intro h; exact ih (List.mem_of_mem_drop h)
    · rename_i hx
      intro h
      rcases List.mem_cons.mp h with h | h
      · exact hx h.symm
      · exact ih h

theorem step_true_dotdot {E : List Bytes} (h : dotdot ∉ E) : step true E dotdot = E.drop 1 := by
  unfold step
  have h1 : dotdot ≠ [] := by decide
  have h2 : dotdot ≠ dot := by decide
  simp only [h1, h2, if_false, if_true]
  cases E with
  | nil => rfl
  | cons top rest =>
    have : top ≠ dotdot := fun he => h (he ▸ List.mem_cons_self)
    simp [this]

theorem step_embed {st : List Bytes} (hst : dotdot ∉ st) (r : List Bytes) (c : Bytes) :
    step true (embed r st) c = embed (step false r c) st := by
  by_cases hc1 : c = []
  · subst hc1; simp [step]
  by_cases hc2 : c = dot
  · subst hc2; simp [step]
  by_cases hc3 : c = dotdot
  · subst hc3
    rw [step_true_dotdot (dotdot_not_mem_embed hst r)]
    unfold step
    have h1 : dotdot ≠ [] := by decide
    have h2 : dotdot ≠ dot := by decide
    simp only [h1, h2, if_false, if_true]
    cases r with
    | nil => simp [embed]
    | cons top rest =>
      simp only [Bool.false_eq_true, if_false]
      by_cases ht : top = dotdot
      · simp [ht, embed]
      · simp [ht, embed]
  · have : step false r c = c :: r := by simp [step, hc1, hc2, hc3]
    rw [this]
    simp [step, hc1, hc2, hc3, embed]

theorem foldl_step_embed {st : List Bytes} (hst : dotdot ∉ st) : ∀ (cs r : List Bytes),
    cs.foldl (step true) (embed r st) = embed (cs.foldl (step false) r) st := by
  intro cs
  induction cs with
  | nil => intro r; rfl
  | cons c cs ih =>
    intro r
    simp only [List.foldl_cons]
    rw [step_embed hst, ih]

theorem dotdot_not_mem_step_true {st : List Bytes} {c : Bytes} (h : dotdot ∉ st) : dotdot ∉ step true st c := by
  by_cases hc : c = dotdot
  · subst hc
    rw [step_true_dotdot h]
    intro hm; exact h (List.mem_of_mem_drop hm)
  · unfold step
    split
    · exact h
    · split
      · exact h
      · intro hm
        rcases List.mem_cons.mp hm with hm | hm
        · exact hc hm.symm
        · exact h hm

theorem dotdot_not_mem_foldl_true : ∀ (cs st : List Bytes), dotdot ∉ st → dotdot ∉ cs.foldl (step true) st := by
  intro cs
  induction cs with
  | nil => intro st h; exact h
  | cons c cs ih => intro st h; exact ih _ (dotdot_not_mem_step_true h)

/-- under a rooted prefix, only the relative normal form of the rest matters -/
theorem normComps_true_append_congr (A X Y : List Bytes) (h : normComps false X = normComps false Y) :
    normComps true (A ++ X) = normComps true (A ++ Y) := by
  have hf : X.foldl (step false) [] = Y.foldl (step false) [] := by
    have := congrArg List.reverse h
    simpa [normComps] using this
  have hW := dotdot_not_mem_foldl_true A [] (by simp)
  unfold normComps
  simp only [List.foldl_append]
  have e1 := foldl_step_embed hW X []
  have e2 := foldl_step_embed hW Y []
  simp only [embed] at e1 e2
  rw [e1, e2, hf]

/-! ### absolute paths -/

/-- how a rooted normal form is printed -/
def renderAbs (cs : List Bytes) : Bytes := cSlash :: joinSlash cs

theorem clean_abs {p : Bytes} (h : isAbs p = true) : clean p = renderAbs (normComps true (splitSlash p)) := by
  simp [clean, h, renderAbs]

theorem joinSlash_inj {a b : List Bytes} (ha : CompsOK a) (hb : CompsOK b) (h : joinSlash a = joinSlash b) : a = b := by
  by_cases hae : a = []
  · subst hae
    by_cases hbe : b = []
    · exact hbe.symm
    · exact absurd h.symm (joinSlash_ne_nil hb hbe)
  · by_cases hbe : b = []
    · subst hbe; exact absurd h (joinSlash_ne_nil ha hae)
    · rw [← splitSlash_joinSlash hae (fun c hc => (ha c hc).2.2), ← splitSlash_joinSlash hbe (fun c hc => (hb c hc).2.2), h]

theorem renderAbs_inj {a b : List Bytes} (ha : CompsOK a) (hb : CompsOK b) (h : renderAbs a = renderAbs b) : a = b :=
  joinSlash_inj ha hb (List.cons.inj h).2

/-- `pathWithin` on printed rooted normal forms is the prefix relation on components -/
theorem within_abs_iff {p d : List Bytes} (hp : CompsOK p) (hd : CompsOK d) :
    pathWithin true true (renderAbs p) (renderAbs d) = true ↔ d <+: p := by
  unfold pathWithin
  have hnd : (renderAbs d == dot) = false := by simp [renderAbs, dot, cSlash]
  simp only [hnd, Bool.and_false, Bool.false_eq_true, if_false, Bool.true_and]
  by_cases hde : d = []
  · subst hde
    have : (renderAbs [] == [cSlash]) = true := by simp [renderAbs, joinSlash]
    simp [this, renderAbs, joinSlash]
  · have hne : (renderAbs d == [cSlash]) = false := by
      have := joinSlash_ne_nil hd hde
      simp [renderAbs, this]
    simp only [hne, Bool.false_eq_true, if_false, Bool.or_eq_true, beq_iff_eq, List.isPrefixOf_iff_prefix]
    by_cases hpe : p = []
    · subst hpe
      constructor
      · rintro (h | h)
        · exact absurd (renderAbs_inj hp hd h).symm hde
        · obtain ⟨t, ht⟩ := h
          have := congrArg List.length ht
          have hl : 0 < (joinSlash d).length := List.length_pos_iff.mpr (joinSlash_ne_nil hd hde)
          simp [renderAbs, joinSlash] at this
      · intro h
        exact absurd (List.prefix_nil.mp h) hde
    · have hrp : renderRel p = joinSlash p := by unfold renderRel; rw [if_neg hpe]
      have hpre : (renderAbs d ++ [cSlash]) <+: renderAbs p ↔ (joinSlash d ++ [cSlash]) <+: renderRel p := by
        rw [hrp]
        simp [renderAbs, List.cons_prefix_cons]
      rw [hpre, prefix_slash_iff hd hp hde]
      constructor
      · rintro (h | ⟨r, _, rfl⟩)
        · rw [renderAbs_inj hp hd h]; exact List.prefix_refl _
        · exact List.prefix_append _ _
      · rintro ⟨r, rfl⟩
        by_cases hr : r = []
        · subst hr; left; simp
        · right; exact ⟨r, hr, rfl⟩

/-- `resolvedOutputPath` on components: the output resolved from an absolute workspace root -/
theorem resolvedOutputPath_abs {ws pkg ident : Bytes} (hws : isAbs ws = true) (hp : isAbs pkg = false)
    (hi : isAbs ident = false) :
    resolvedOutputPath ws pkg ident =
      renderAbs (normComps true (splitSlash ws ++ (splitSlash pkg ++ splitSlash ident))) := by
  obtain ⟨t, rfl⟩ := isAbs_iff.mp hws
  unfold resolvedOutputPath
  rw [cleanOutputPath_rel hp hi]
  have hok := normComps_ok false (splitSlash pkg ++ splitSlash ident) (by
    intro c hc
    rcases List.mem_append.mp hc with hc | hc <;> exact splitSlash_noSlash _ c hc)
  have hst := normComps_stack false (splitSlash pkg ++ splitSlash ident) (by
    intro c hc
    rcases List.mem_append.mp hc with hc | hc <;> exact splitSlash_noSlash _ c hc)
  generalize hnf : normComps false (splitSlash pkg ++ splitSlash ident) = nf at hok hst
  have hj : join [cSlash :: t, renderRel nf] = clean ((cSlash :: t) ++ cSlash :: renderRel nf) := by
    simp [join, List.dropWhile, joinSlash]
  have habs : isAbs ((cSlash :: t) ++ cSlash :: renderRel nf) = true := by simp [isAbs]
  rw [hj, clean_abs habs, splitSlash_append]
  congr 1
  apply normComps_true_append_congr
  rw [splitSlash_renderRel hok, normComps_fixed false nf hst, ← hnf]

/-! ### the workspace test -/

theorem comps_clean_abs {p : Bytes} (h : isAbs p = true) :
    comps (clean p) = normComps true (splitSlash p) := by
  have hok := normComps_ok true (splitSlash p) (splitSlash_noSlash p)
  simp only [clean, h, if_true, comps]
  have : splitSlash (cSlash :: joinSlash (normComps true (splitSlash p))) =
      [] :: splitSlash (joinSlash (normComps true (splitSlash p))) := by
    simp [splitSlash]
  rw [this]
  generalize normComps true (splitSlash p) = nf at hok
  by_cases hne : nf = []
  · subst hne; decide
  · rw [splitSlash_joinSlash hne (fun c hc => (hok c hc).2.2)]
    simp only [List.filter_cons, ne_eq, not_true_eq_false, decide_false, Bool.false_eq_true, if_false]
    rw [List.filter_eq_self]
    intro c hc
    simpa using (hok c hc).1

/-- `isWithinWorkspace` for an absolute workspace root, on components -/
theorem isWithinWorkspace_abs {ws pkg rel : Bytes} (h : isAbs ws = true) :
    isWithinWorkspace ws pkg rel = true ↔
      normComps true (splitSlash ws) <+:
        normComps true (splitSlash ws ++ (splitSlash pkg ++ splitSlash rel)) := by
  obtain ⟨t, rfl⟩ := isAbs_iff.mp h
  unfold isWithinWorkspace
  rw [List.isPrefixOf_iff_prefix, comps_clean_abs h]
  have hj : join [cSlash :: t, pkg, rel] = clean ((cSlash :: t) ++ cSlash :: (pkg ++ cSlash :: rel)) := by
    simp [join, List.dropWhile, joinSlash]
  have habs : isAbs ((cSlash :: t) ++ cSlash :: (pkg ++ cSlash :: rel)) = true := by simp [isAbs]
  rw [hj, comps_clean_abs habs, splitSlash_append, splitSlash_append]

end Grog.Paths
