/-
  Failures on the build model (mode `all`): a step that leaves its target not ok stores nothing; if the dependencies were ok it
  executed the command; over a whole build every target that is not ok although its dependencies are ok has its label in the log.
  Core Lean only.
-/
import GrogModel.Lemmas.BuildNoop
import GrogModel.Lemmas.BuildReexec
namespace Grog.Build
open Grog Grog.Exec

variable {κ : Type} [DecidableEq κ]

/-- a step after which its target is not ok leaves the whole cache (results, blobs, taints) as it was -/
theorem buildTarget_not_ok_cache (P : Params κ) (cfg : Cfg) (defs : Defs) (fuel : Nat) (t : Target) (s : BState κ)
    (hm : cfg.minimal = false) (hn : ¬ okAt (buildTarget P cfg defs fuel t s) t.label) :
    (buildTarget P cfg defs fuel t s).cache = s.cache ∧ (buildTarget P cfg defs fuel t s).st t.label = some failStat := by
  have hcase := buildTarget_all P cfg defs fuel t s hm
  cases hcase with
  | depFailed h e => rw [e]; exact ⟨rfl, by simp [failT, upd_same]⟩
  | noHash h h2 e => rw [e]; exact ⟨rfl, by simp [failT, upd_same]⟩
  | failed ohs s2 h h2 h3 e e2 =>
    obtain ⟨hc, _, _⟩ := execTarget_false e
    rw [e2]; exact ⟨by simp only [failT]; exact hc, by simp [failT, upd_same]⟩
  | hit ohs h h2 e =>
    obtain ⟨r, fs', _, _, _, _, _, _, hs1⟩ := tryHit_all_some hm e
    have hok : okAt (buildTarget P cfg defs fuel t s) t.label := by
      rw [hs1]; exact ⟨_, upd_same _ _ _, rfl⟩
    exact absurd hok hn
  | ran ohs h h2 h3 e =>
    obtain ⟨_, _, _, ovs, _, _, _, _, hst⟩ := execTarget_true e
    have hok : okAt (buildTarget P cfg defs fuel t s) t.label := by
      unfold okAt; rw [hst]; exact ⟨_, upd_same _ _ _, rfl⟩
    exact absurd hok hn

/-- …and if its dependencies were ok and had output hashes, the command was executed (and failed: non-zero exit, a failing check
    afterwards, or a missing declared output) -/
theorem buildTarget_not_ok_ran (P : Params κ) (cfg : Cfg) (defs : Defs) (fuel : Nat) (t : Target) (s : BState κ)
    (hm : cfg.minimal = false) (hn : ¬ okAt (buildTarget P cfg defs fuel t s) t.label)
    (hd : depsOk s.st t.deps = true) (ho : depOhs s.st t.hdeps ≠ none) :
    (buildTarget P cfg defs fuel t s).log = t.label :: s.log ∧
    ((P.run t.cmd (viewAt defs t s.fs)).exit0 = false ∨ checksPass (fsAfter P defs t s.fs) t.checks = false ∨
      collect (fsAfter P defs t s.fs) t.outs = none) := by
  have hcase := buildTarget_all P cfg defs fuel t s hm
  cases hcase with
  | depFailed h e => rw [hd] at h; cases h
  | noHash h h2 e => exact absurd h2 ho
  | failed ohs s2 h h2 h3 e e2 =>
    obtain ⟨_, _, hwhy⟩ := execTarget_false e
    have := execTarget_log P cfg defs t (P.K (keyState t s.fs ohs)) (s.cache.taint t.label) s
    rw [e] at this
    rw [e2]; exact ⟨by simp only [failT]; exact this, hwhy⟩
  | hit ohs h h2 e =>
    obtain ⟨r, fs', _, _, _, _, _, _, hs1⟩ := tryHit_all_some hm e
    have hok : okAt (buildTarget P cfg defs fuel t s) t.label := by
      rw [hs1]; exact ⟨_, upd_same _ _ _, rfl⟩
    exact absurd hok hn
  | ran ohs h h2 h3 e =>
    obtain ⟨_, _, _, ovs, _, _, _, _, hst⟩ := execTarget_true e
    have hok : okAt (buildTarget P cfg defs fuel t s) t.label := by
      unfold okAt; rw [hst]; exact ⟨_, upd_same _ _ _, rfl⟩
    exact absurd hok hn

theorem depOhs_some_of (st : Lbl → Option (TStat κ)) : ∀ (deps : List Lbl),
    (∀ d ∈ deps, ∃ ts oh, st d = some ts ∧ ts.oh = some oh) → depOhs st deps ≠ none := by
  intro deps
  induction deps with
  | nil => intro _; simp [depOhs]
  | cons d ds ih =>
    intro h
    obtain ⟨ts, oh, h1, h2⟩ := h d (by simp)
    have := ih (fun d' hd' => h d' (by simp [hd']))
    simp only [depOhs, ohOf, h1, h2]
    cases hr : depOhs st ds with
    | none => exact absurd hr this
    | some r => simp

/-- a build leaves everything outside the declared output paths of its targets alone -/
theorem run_fs_off {P : Params κ} (hG : Good P) {cfg : Cfg} (hm : cfg.minimal = false) (defs : Defs) (fuel : Nat) :
    ∀ (rest : List Lbl) (s : BState κ), (∀ l ∈ rest, ∀ t, defs l = some t → t.cmd.writes = t.outs) →
      ∀ p, (∀ l ∈ rest, ∀ t, defs l = some t → p ∉ outPaths t) → (run P cfg defs fuel rest s).fs p = s.fs p := by
  intro rest
  induction rest with
  | nil => intro s _ p _; rfl
  | cons l0 rest ih =>
    intro s hw p hp
    have hrun : run P cfg defs fuel (l0 :: rest) s = run P cfg defs fuel rest (stepTarget P cfg defs fuel s l0) := by
      simp [run, List.foldl_cons]
    rw [hrun, ih _ (fun l hl => hw l (by simp [hl])) p (fun l hl => hp l (by simp [hl]))]
    unfold stepTarget
    cases hd : defs l0 with
    | none => rfl
    | some t0 =>
      exact (step_frame hG hm defs fuel t0 (hw l0 (by simp) t0 hd) s).2.1 p (hp l0 (by simp) t0 hd)

/-- targets of the processed prefix that are not ok although all their dependencies are ok had their command executed -/
def Attempted (defs : Defs) (s : BState κ) (pre : List Lbl) : Prop :=
  ∀ l ∈ pre, ∀ t, defs l = some t → ¬ okAt s l → (∀ d ∈ t.deps, okAt s d) → l ∈ s.log

theorem attempted_step {P : Params κ} (hG : Good P) {cfg : Cfg} (hm : cfg.minimal = false)
    {defs : Defs} {order : List Lbl} (hwf : WF defs order) (fuel : Nat)
    (pre : List Lbl) (l0 : Lbl) (suf : List Lbl) (ho : order = pre ++ l0 :: suf) (t0 : Target) (ht0 : defs l0 = some t0)
    {s : BState κ} {c : Spec.CState} (hI : Inv P defs order s c pre) (hA : Attempted defs s pre) :
    Attempted defs (buildTarget P cfg defs fuel t0 s) (pre ++ [l0]) := by
  have hl0o : l0 ∈ order := by rw [ho]; simp
  have hlab0 : t0.label = l0 := hwf.label l0 t0 ht0
  obtain ⟨hhd0, hwr0, _⟩ := hwf.hdeps l0 hl0o t0 ht0
  have hfr := step_frame hG hm defs fuel t0 hwr0 s
  have hne : ∀ l ∈ pre, l ≠ t0.label := by
    intro l hl e
    rw [hlab0] at e
    have hnd := hwf.nodup; rw [ho] at hnd
    exact (List.nodup_append.1 hnd).2.2 l hl l0 (by simp) e
  have hst : ∀ l ∈ pre, okAt (buildTarget P cfg defs fuel t0 s) l ↔ okAt s l := by
    intro l hl; simp only [okAt, hfr.1 l (hne l hl)]
  have hlog : ∀ l, l ∈ s.log → l ∈ (buildTarget P cfg defs fuel t0 s).log := by
    intro l hl
    rcases buildTarget_log_cases P cfg defs fuel t0 s hm with h | h <;> rw [h]
    · exact hl
    · simp [hl]
  intro l hl t ht hnok hdeps
  rcases List.mem_append.1 hl with hl1 | hl2
  · -- an earlier target: nothing about it changed
    obtain ⟨pre1, suf1, hsplit⟩ := List.append_of_mem hl1
    have hdpre : ∀ d ∈ t.deps, d ∈ pre := by
      intro d hd
      have := hwf.topo pre1 l (suf1 ++ l0 :: suf) (by rw [ho, hsplit]; simp) t ht d hd
      rw [hsplit]; simp [this]
    exact hlog l (hA l hl1 t ht (fun h => hnok ((hst l hl1).2 h)) (fun d hd => (hst d (hdpre d hd)).1 (hdeps d hd)))
  · simp only [List.mem_singleton] at hl2; subst hl2
    rw [ht0] at ht; simp only [Option.some.injEq] at ht; subst ht
    have hdpre : ∀ d ∈ t0.deps, d ∈ pre := hwf.topo pre l suf ho t0 ht0
    have hdok : ∀ d ∈ t0.deps, okAt s d := fun d hd => (hst d (hdpre d hd)).1 (hdeps d hd)
    have hd : depsOk s.st t0.deps = true := depsOk_intro _ _ hdok
    have hoh : depOhs s.st t0.hdeps ≠ none := by
      apply depOhs_some_of
      intro d hdm
      rw [hhd0] at hdm
      obtain ⟨ts, hts, hk⟩ := hdok d hdm
      obtain ⟨_, oh, _, hoh, _⟩ := hI.dep d (hdpre d hdm) ts hts hk
      exact ⟨ts, oh, hts, hoh⟩
    have := (buildTarget_not_ok_ran P cfg defs fuel t0 s hm (by rw [hlab0]; exact hnok) hd hoh).1
    rw [this, hlab0]; simp

theorem attempted_run_aux {P : Params κ} (hG : Good P) (hfx : P.fx.gateChecks = true) {cfg : Cfg} (hm : cfg.minimal = false)
    {defs : Defs} {order : List Lbl} (hwf : WF defs order) (fuel : Nat) :
    ∀ (rest pre : List Lbl) (s : BState κ) (c : Spec.CState), order = pre ++ rest → Inv P defs order s c pre →
      Attempted defs s pre → Attempted defs (run P cfg defs fuel rest s) (pre ++ rest) := by
  intro rest
  induction rest with
  | nil => intro pre s c _ _ hA; simpa [run] using hA
  | cons l0 rest ih =>
    intro pre s c ho hI hA
    obtain ⟨t0, ht0⟩ := hwf.defined l0 (by rw [ho]; simp)
    have hI' := step_inv hG hfx hm hwf fuel pre l0 rest ho t0 ht0 hI
    have hA' := attempted_step hG hm hwf fuel pre l0 rest ho t0 ht0 hI hA
    have := ih (pre ++ [l0]) _ _ (by rw [ho]; simp) hI' hA'
    simp only [run, List.foldl_cons, stepTarget, ht0]
    simpa [run] using this

end Grog.Build
