/-
  The backend operations that writing a directory output emits (per GrogModel/Tree.lean: `encList`, `treeMsg`) form a run
  of the store transition system (GrogModel/Store.lean): the ordering guards of `setBegin` (referenced digests confirmed
  first, blobs under the digest of their content) are *satisfied by the code's order*, with the references of the tree blob
  read off its content.
-/
import GrogModel.Lemmas.Store
import GrogModel.Lemmas.TreeBuild
namespace Grog.Store
open Grog

/-- the digests a marshalled tree references — what a reader of the blob will fetch: the file nodes of the root and of
    every child directory (`treeFileDigests` of the harness; `deT (serT m) = m` makes this a function of the content) -/
def treeRefs (m : TreeMsg) : List Digest := (m.root :: m.children).flatMap (fun d => d.files.map (·.digest))

section
variable (H : Bytes → Digest) (serD : Directory → Bytes) (serT : TreeMsg → Bytes)

/-- file nodes of every sub-directory message are among the uploads -/
theorem kids_files_in_ups : (es : List (Name × Entry)) →
    ∀ k ∈ (encList H serD es).kids, ∀ f ∈ k.2.files, f.digest ∈ (encList H serD es).ups.map (·.1)
  | [] => by simp [encList]
  | (_, .file _ _) :: rest => by
    intro k hk f hf
    simp only [encList] at hk ⊢
    have := kids_files_in_ups rest k hk f hf
    simp only [List.map_cons, List.mem_cons]; exact Or.inr this
  | (_, .link _) :: rest => by
    intro k hk f hf
    simp only [encList] at hk ⊢
    exact kids_files_in_ups rest k hk f hf
  | (_, .dir s) :: rest => by
    intro k hk f hf
    simp only [encList, List.mem_append, List.mem_cons] at hk
    simp only [encList, List.map_append, List.mem_append]
    rcases hk with h | rfl | h
    · exact Or.inl (kids_files_in_ups s k h f hf)
    · left
      simp only [encList_dir] at hf
      obtain ⟨b, hm, hd⟩ := mem_filesOf H hf
      rw [hd]
      exact List.mem_map.mpr ⟨(H b, b), ups_of_file_mem H serD hm, rfl⟩
    · exact Or.inr (kids_files_in_ups rest k h f hf)

/-- **the references read off the tree blob are digests of uploaded file blobs** -/
theorem treeRefs_subset_ups (es : List (Name × Entry)) :
    ∀ d ∈ treeRefs (treeMsg H serD es), d ∈ (encList H serD es).ups.map (·.1) := by
  intro d hd
  simp only [treeRefs, treeMsg, List.flatMap_cons, List.mem_append, List.mem_flatMap, List.mem_map] at hd
  rcases hd with ⟨f, hf, rfl⟩ | ⟨c, hc, f, hf, rfl⟩
  · simp only [encList_dir] at hf
    obtain ⟨b, hm, hdg⟩ := mem_filesOf H hf
    rw [hdg]
    exact List.mem_map.mpr ⟨(H b, b), ups_of_file_mem H serD hm, rfl⟩
  · simp only [children, List.mem_map] at hc
    obtain ⟨k, hk, rfl⟩ := hc
    have hk' : k ∈ (encList H serD es).kids := by simpa using mem_sortKids _ _ hk
    exact kids_files_in_ups H serD es k hk' f hf

/-! ### what `Cas.Write` does at the backend, and that it is a run -/

/-- the state after `setEnd p op o` when `pe` is the pending operation `op` of `p` (the body of `step`) -/
def endState (s : State) (p : Pid) (op : Nat) (o : SetOut) (pe : Pending) : State :=
  let s1 := { s with pend := upd s.pend p ((s.pend p).filter (fun q => q.op != op)) }
  let s2 := if o = .errNotStored then s1 else store s1 pe
  if o = .ok && pe.ns = .cas then { s2 with conf := upd s2.conf p (pe.key :: s2.conf p) } else s2

theorem step_setEnd (s : State) (p : Pid) (op : Nat) (o : SetOut) (pe : Pending)
    (hf : (s.pend p).find? (fun pe => pe.op == op) = some pe) :
    step H s (.setEnd p op o) = some (endState s p op o pe) := by
  simp only [step, hf, endState]

theorem step_setBegin (s : State) (p : Pid) (op : Nat) (ns : NS) (k c : Bytes) (refs : List Digest)
    (hr : ∀ r ∈ refs, r ∈ s.conf p) (hk : ns = .cas → H c = k) (hop : ∀ pe ∈ s.pend p, pe.op ≠ op) :
    step H s (.setBegin p op ns k c refs) =
      some { s with pend := upd s.pend p (⟨op, ns, k, ⟨c, refs⟩⟩ :: s.pend p) } := by
  have hall : (refs.all fun r => decide (r ∈ s.conf p)) = true := by
    simp only [List.all_eq_true, decide_eq_true_eq]; exact hr
  have hg : (ns != NS.cas || H c == k) = true := by
    cases ns with
    | cas => simp [hk rfl]
    | target => simp
  have hops : ((s.pend p).all fun pe => pe.op != op) = true := by
    simp only [List.all_eq_true, bne_iff_ne, ne_eq]; exact hop
  simp [step, hall, hg, hops]

/-- a `Set` that meets its guard, issued by a process with nothing in flight, and returning nil -/
theorem set_ok_run (s : State) (p : Pid) (ns : NS) (k c : Bytes) (refs : List Digest)
    (hp : s.pend p = []) (hr : ∀ r ∈ refs, r ∈ s.conf p) (hk : ns = .cas → H c = k) :
    ∃ s', run H s [.setBegin p 0 ns k c refs, .setEnd p 0 .ok] = some s' ∧ s'.pend p = [] ∧
      (∀ x ∈ s.conf p, x ∈ s'.conf p) ∧
      (ns = .cas → k ∈ s'.conf p ∧ s'.tgt = s.tgt) ∧
      (ns = .target → s'.tgt k = some ⟨c, refs⟩ ∧ s'.conf = s.conf) := by
  let pe : Pending := ⟨0, ns, k, ⟨c, refs⟩⟩
  let s1 : State := { s with pend := upd s.pend p (pe :: s.pend p) }
  have h1 : step H s (.setBegin p 0 ns k c refs) = some s1 :=
    step_setBegin H s p 0 ns k c refs hr hk (by rw [hp]; intro pe hpe; simp at hpe)
  have hf : (s1.pend p).find? (fun q => q.op == 0) = some pe := by simp [s1, upd, hp, pe]
  have h2 := step_setEnd H s1 p 0 .ok pe hf
  refine ⟨endState s1 p 0 .ok pe, by simp only [run, h1, h2], ?_, ?_, ?_, ?_⟩
  · cases ns <;> simp [endState, s1, pe, upd, hp, store]
  · intro x hx
    cases ns <;> simp [endState, s1, pe, upd, store, hx]
  · intro hns; subst hns
    exact ⟨by simp [endState, s1, pe, upd, store], by simp [endState, s1, pe, store]⟩
  · intro hns; subst hns
    exact ⟨by simp [endState, s1, pe, store], by simp [endState, s1, pe, store]⟩

/-- `Cas.Write d b`: nothing if the memo has `d`; `Exists` — skip on yes; else `Set`, which (no fault) returns nil -/
def casWriteEvs (s : State) (p : Pid) (d : Digest) (b : Bytes) (refs : List Digest) : List Ev :=
  if d ∈ s.conf p then []
  else if vis s d then [.existsRes p .cas d .yes]
  else [.existsRes p .cas d .no, .setBegin p 0 .cas d b refs, .setEnd p 0 .ok]

theorem casWrite_run (s : State) (p : Pid) (d : Digest) (b : Bytes) (refs : List Digest)
    (hp : s.pend p = []) (hH : H b = d) (hr : ∀ r ∈ refs, r ∈ s.conf p) :
    ∃ s', run H s (casWriteEvs s p d b refs) = some s' ∧ d ∈ s'.conf p ∧ s'.pend p = [] ∧
      (∀ x ∈ s.conf p, x ∈ s'.conf p) ∧ s'.tgt = s.tgt := by
  unfold casWriteEvs
  by_cases hc : d ∈ s.conf p
  · simp only [hc, if_true]; exact ⟨s, rfl, hc, hp, fun x hx => hx, rfl⟩
  · simp only [hc, if_false]
    by_cases hv : vis s d = true
    · simp only [hv, if_true]
      refine ⟨{ s with conf := upd s.conf p (d :: s.conf p) }, ?_, by simp [upd], by simpa using hp,
        fun x hx => by simp [upd, hx], rfl⟩
      have : has s .cas d = true := by simpa [has, vis] using hv
      simp [run, step, this]
    · have hv' : has s NS.cas d = false := by simpa [has, vis] using hv
      simp only [hv, Bool.false_eq_true, if_false]
      have h1 : step H s (.existsRes p .cas d .no) = some s := by simp [step, hv']
      obtain ⟨s', h2, hp', hmono, hcas, _⟩ := set_ok_run H s p .cas d b refs hp hr (fun _ => hH)
      refine ⟨s', ?_, (hcas rfl).1, hp', hmono, (hcas rfl).2⟩
      simp only [run, h1]; simpa [run] using h2

/-- file blobs one after the other (the code uploads them concurrently; any order is a run, this is one) -/
def blobsEvs (H : Bytes → Digest) : State → Pid → List (Digest × Bytes) → List Ev
  | _, _, [] => []
  | s, p, (d, b) :: rest =>
    let evs := casWriteEvs s p d b []
    match run H s evs with
    | some s' => evs ++ blobsEvs H s' p rest
    | none => evs

theorem run_append' (s : State) (a b : List Ev) :
    run H s (a ++ b) = (run H s a).bind (fun s1 => run H s1 b) := by
  induction a generalizing s with
  | nil => simp [run]
  | cons e a ih =>
    simp only [List.cons_append, run]
    cases step H s e with
    | none => simp
    | some s1 => simpa using ih s1

theorem blobs_run (l : List (Digest × Bytes)) (hform : ∀ u ∈ l, u.1 = H u.2) :
    ∀ (s : State) (p : Pid), s.pend p = [] →
      ∃ s', run H s (blobsEvs H s p l) = some s' ∧ (∀ u ∈ l, u.1 ∈ s'.conf p) ∧ s'.pend p = [] ∧
        (∀ x ∈ s.conf p, x ∈ s'.conf p) ∧ s'.tgt = s.tgt := by
  induction l with
  | nil => intro s p hp; exact ⟨s, rfl, fun u hu => by simp at hu, hp, fun x hx => hx, rfl⟩
  | cons u rest ih =>
    intro s p hp
    obtain ⟨d, b⟩ := u
    obtain ⟨s1, h1, hd, hp1, hmono1, ht1⟩ := casWrite_run H s p d b [] hp (hform (d, b) (by simp)).symm (fun r hr => by simp at hr)
    obtain ⟨s2, h2, hall, hp2, hmono2, ht2⟩ := ih (fun u hu => hform u (by simp [hu])) s1 p hp1
    refine ⟨s2, ?_, ?_, hp2, fun x hx => hmono2 x (hmono1 x hx), by rw [ht2, ht1]⟩
    · simp only [blobsEvs, h1, run_append', Option.bind_some, h2]
    · intro u hu
      simp only [List.mem_cons] at hu
      rcases hu with rfl | hu
      · exact hmono2 _ hd
      · exact hall u hu

/-- `DirectoryOutputHandler.Write` followed by `TargetResultCache.Write` for one directory output, as backend events of
    process `p`: the file blobs, then the tree blob (references read off its content), then the target result (referencing
    the tree) under key `k` with marshalled content `rbytes` -/
def dirOutputEvs (es : List (Name × Entry)) (s : State) (p : Pid) (k rbytes : Bytes) : List Ev :=
  let ups := (encList H serD es).ups
  let m := treeMsg H serD es
  let e1 := blobsEvs H s p ups
  match run H s e1 with
  | none => e1
  | some s1 =>
    let e2 := casWriteEvs s1 p (H (serT m)) (serT m) (treeRefs m)
    match run H s1 e2 with
    | none => e1 ++ e2
    | some _ => e1 ++ e2 ++ [.setBegin p 0 .target k rbytes [H (serT m)], .setEnd p 0 .ok]

/-- **The code's order satisfies the guards.** For every directory tree, from every store state in which process `p` has no
    write in flight, the events of writing the output are a run of `Store.step` — every `setBegin` passes its guard: file
    blobs are stored under the digest of their content, the tree blob only after every digest its content references is
    confirmed, the result only after the tree blob — and afterwards the result is visible and references the tree. -/
theorem dirOutput_is_run (es : List (Name × Entry)) (s : State) (p : Pid) (k rbytes : Bytes) (hp : s.pend p = []) :
    ∃ s', run H s (dirOutputEvs H serD serT es s p k rbytes) = some s' ∧
      s'.tgt k = some ⟨rbytes, [H (serT (treeMsg H serD es))]⟩ ∧ H (serT (treeMsg H serD es)) ∈ s'.conf p ∧
      (∀ r ∈ treeRefs (treeMsg H serD es), r ∈ s'.conf p) := by
  obtain ⟨s1, h1, hall, hp1, _, _⟩ := blobs_run H (encList H serD es).ups (ups_form H serD es) s p hp
  have hrefs : ∀ r ∈ treeRefs (treeMsg H serD es), r ∈ s1.conf p := by
    intro r hr
    obtain ⟨u, hu, rfl⟩ := List.mem_map.mp (treeRefs_subset_ups H serD es r hr)
    exact hall u hu
  obtain ⟨s2, h2, htd, hp2, hmono2, _⟩ := casWrite_run H s1 p (H (serT (treeMsg H serD es))) (serT (treeMsg H serD es))
    (treeRefs (treeMsg H serD es)) hp1 rfl hrefs
  obtain ⟨s3, h3, _, _, _, htg⟩ := set_ok_run H s2 p .target k rbytes [H (serT (treeMsg H serD es))] hp2
    (fun r hr => by simp at hr; rw [hr]; exact htd) (fun h => by cases h)
  refine ⟨s3, ?_, (htg rfl).1, ?_, ?_⟩
  · simp only [dirOutputEvs, h1, h2, run_append', Option.bind_some, h3]
  · rw [(htg rfl).2]; exact htd
  · intro r hr; rw [(htg rfl).2]; exact hmono2 r (hrefs r hr)

end
end Grog.Store
