/-
  Enrichment depends on its parameters (glob resolution, duration parsing) only at the patterns and
  timeout strings that occur in the DTO.
-/
import GrogModel.Loader
namespace Grog.Loader
open Grog List

theorem resolveIncl_congr {g1 g2 : Bytes → Option (List Bytes)} (ins : List Bytes)
    (h : ∀ i ∈ ins, g1 i = g2 i) : resolveIncl g1 ins = resolveIncl g2 ins := by
  induction ins with
  | nil => rfl
  | cons i r ih =>
    have hr := ih (fun j hj => h j (mem_cons_of_mem _ hj))
    simp only [resolveIncl, hr, h i (mem_cons_self ..)]

theorem resolveExcl_congr {g1 g2 : Bytes → Option (List Bytes)} (ex : List Bytes)
    (h : ∀ i ∈ ex, g1 i = g2 i) : resolveExcl g1 ex = resolveExcl g2 ex := by
  induction ex with
  | nil => rfl
  | cons i r ih =>
    have hr := ih (fun j hj => h j (mem_cons_of_mem _ hj))
    simp only [resolveExcl, hr, h i (mem_cons_self ..)]

theorem resolveInputs_congr {g1 g2 : Bytes → Option (List Bytes)} (ins ex : List Bytes)
    (h : ∀ i ∈ ins ++ ex, g1 i = g2 i) : resolveInputs g1 ins ex = resolveInputs g2 ins ex := by
  unfold resolveInputs
  rw [resolveIncl_congr ins (fun i hi => h i (mem_append_left _ hi)),
      resolveExcl_congr ex (fun i hi => h i (mem_append_right _ hi))]

/-- the two parameter pairs agree on everything target `t` mentions -/
def AgreeOn (g1 g2 : Bytes → Option (List Bytes)) (d1 d2 : Bytes → Option Nat) (t : TargetDTO) : Prop :=
  (∀ i ∈ t.inputs ++ t.excludes, g1 i = g2 i) ∧ d1 t.timeout = d2 t.timeout

theorem enrichTarget_congr {g1 g2 : Bytes → Option (List Bytes)} {d1 d2 : Bytes → Option Nat}
    (defs : Option (List Bytes)) (pkg : Bytes) (done : List Target) (t : TargetDTO)
    (h : AgreeOn g1 g2 d1 d2 t) :
    enrichTarget g1 d1 defs pkg done t = enrichTarget g2 d2 defs pkg done t := by
  unfold enrichTarget
  rw [resolveInputs_congr t.inputs t.excludes h.1, h.2]

theorem enrichTargets_congr {g1 g2 : Bytes → Option (List Bytes)} {d1 d2 : Bytes → Option Nat}
    (defs : Option (List Bytes)) (ts : List (Option TargetDTO)) :
    ∀ (pkg : Bytes) (done : List Target), (∀ t, some t ∈ ts → AgreeOn g1 g2 d1 d2 t) →
      enrichTargets g1 d1 defs pkg done ts = enrichTargets g2 d2 defs pkg done ts := by
  induction ts with
  | nil => intro pkg done _; rfl
  | cons t rest ih =>
    intro pkg done h
    cases t with
    | none => rfl
    | some t =>
      simp only [enrichTargets]
      rw [enrichTarget_congr defs pkg done t (h t (mem_cons_self ..))]
      split
      · rfl
      · exact ih _ _ (fun u hu => h u (mem_cons_of_mem _ hu))

theorem enrich_congr {g1 g2 : Bytes → Option (List Bytes)} {d1 d2 : Bytes → Option Nat}
    (pkg : Bytes) (dto : PackageDTO) (h : ∀ t, some t ∈ dto.targets → AgreeOn g1 g2 d1 d2 t) :
    enrich g1 d1 pkg dto = enrich g2 d2 pkg dto := by
  unfold enrich
  rw [enrichTargets_congr dto.defaultPlatforms dto.targets pkg [] h]

end Grog.Loader
