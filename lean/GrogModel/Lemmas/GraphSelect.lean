/-
  `selectLoop` (the loop of `SelectTargetsForBuild` over the matching nodes with the shared visited
  set): what a successful run guarantees, what a platform error means, totality, cost.
-/
import GrogModel.Select
import GrogModel.Lemmas.GraphDfs
namespace Grog

/-- everything a successful `selectLoop es ok roots vis c = ok sel c'` guarantees
    (`fl` = flipped edges: successors in `fl` are direct dependencies) -/
structure SelInv (es : List Edge) (ok : Nat → Bool) (roots vis sel : List Nat) (c c' : Nat) : Prop where
  ext : ∃ l, sel = l ++ vis
  sound : ∀ x ∈ sel, x ∈ vis ∨ ∃ r ∈ roots, Reach (flipEdges es) r x
  rootsIn : ∀ r ∈ roots, r ∈ sel
  closed : ∀ u ∈ sel, u ∉ vis → ∀ w ∈ succs (flipEdges es) u, w ∈ sel
  allOk : ∀ x ∈ sel, x ∈ vis ∨ x ∈ roots ∨ ok x = true
  nodup : vis.Nodup → sel.Nodup
  cost : c' + rem (flipEdges es) sel = c + roots.length + rem (flipEdges es) vis

theorem selectLoop_ok_inv (es : List Edge) (ok : Nat → Bool) :
    ∀ (roots vis sel : List Nat) (c c' : Nat),
      selectLoop es ok roots vis c = .ok sel c' → SelInv es ok roots vis sel c c' := by
  intro roots
  induction roots with
  | nil =>
    intro vis sel c c' h
    simp only [selectLoop, SelRes.ok.injEq] at h
    obtain ⟨rfl, rfl⟩ := h
    exact ⟨⟨[], rfl⟩, fun x hx => Or.inl hx, by simp, fun u hu hn => absurd hu hn,
      fun x hx => Or.inl hx, id, by simp⟩
  | cons r rs ih =>
    intro vis sel c c' h
    simp only [selectLoop] at h
    by_cases hv : r ∈ vis
    · simp only [List.contains_iff_mem, hv, ↓reduceIte] at h
      have J := ih vis sel (c + 1) c' h
      obtain ⟨l, hl⟩ := J.ext
      refine ⟨⟨l, hl⟩, ?_, ?_, J.closed, ?_, J.nodup, ?_⟩
      · intro x hx
        rcases J.sound x hx with h1 | ⟨t, ht, hr⟩
        · exact Or.inl h1
        · exact Or.inr ⟨t, List.mem_cons_of_mem _ ht, hr⟩
      · intro t ht
        rcases List.mem_cons.mp ht with rfl | ht
        · rw [hl]; exact List.mem_append_right _ hv
        · exact J.rootsIn t ht
      · intro x hx
        rcases J.allOk x hx with h1 | h1 | h1
        · exact Or.inl h1
        · exact Or.inr (Or.inl (List.mem_cons_of_mem _ h1))
        · exact Or.inr (Or.inr h1)
      · have := J.cost; simp only [List.length_cons]; omega
    · simp only [List.contains_iff_mem, hv, ↓reduceIte] at h
      cases hd : dfs (flipEdges es) ok es.length (succs (flipEdges es) r) (r :: vis) with
      | bad cc ss => simp [hd] at h
      | fuel => simp [hd] at h
      | done vis' s =>
        simp only [hd] at h
        have I := dfs_done_inv _ _ _ _ _ _ _ hd
        have J := ih vis' sel (c + 1 + s) c' h
        obtain ⟨l1, hl1⟩ := I.ext
        obtain ⟨l2, hl2⟩ := J.ext
        have hsub : ∀ x ∈ vis', x ∈ sel := by
          intro x hx; rw [hl2]; exact List.mem_append_right _ hx
        have hr : r ∈ vis' := by rw [hl1]; exact List.mem_append_right _ (List.mem_cons_self ..)
        refine ⟨⟨l2 ++ l1 ++ [r], by rw [hl2, hl1]; simp⟩, ?_, ?_, ?_, ?_, ?_, ?_⟩
        · intro x hx
          rcases J.sound x hx with h1 | ⟨t, ht, hreach⟩
          · rcases I.sound x h1 with h2 | ⟨t, ht, hreach⟩
            · rcases List.mem_cons.mp h2 with rfl | h2
              · exact Or.inr ⟨x, List.mem_cons_self .., Reach.refl _⟩
              · exact Or.inl h2
            · exact Or.inr ⟨r, List.mem_cons_self .., Reach.step (mem_succs.mp ht) hreach⟩
          · exact Or.inr ⟨t, List.mem_cons_of_mem _ ht, hreach⟩
        · intro t ht
          rcases List.mem_cons.mp ht with rfl | ht
          · exact hsub _ hr
          · exact J.rootsIn t ht
        · intro u hu hn w hw
          by_cases huv : u ∈ vis'
          · by_cases hur : u = r
            · subst hur; exact hsub _ (I.todoIn w hw)
            · exact hsub _ (I.closed u huv (by simp [hur, hn]) w hw)
          · exact J.closed u hu huv w hw
        · intro x hx
          rcases J.allOk x hx with h1 | h1 | h1
          · rcases I.allOk x h1 with h2 | h2
            · rcases List.mem_cons.mp h2 with rfl | h2
              · exact Or.inr (Or.inl (List.mem_cons_self ..))
              · exact Or.inl h2
            · exact Or.inr (Or.inr h2)
          · exact Or.inr (Or.inl (List.mem_cons_of_mem _ h1))
          · exact Or.inr (Or.inr h1)
        · intro hn; exact J.nodup (I.nodup (List.nodup_cons.mpr ⟨hv, hn⟩))
        · have h1 := I.steps
          have h2 := J.cost
          have h3 := rem_split (flipEdges es) vis r hv
          simp only [List.length_cons]; omega

/-- a platform error names a rejected node that is a (transitive) dependency of one of the roots -/
theorem selectLoop_err_inv (es : List Edge) (ok : Nat → Bool) :
    ∀ (roots vis : List Nat) (c x cx : Nat),
      selectLoop es ok roots vis c = .platformError x cx →
        ok x = false ∧ (∃ r ∈ roots, Reach (flipEdges es) r x) ∧ cx ≤ c + roots.length + rem (flipEdges es) vis := by
  intro roots
  induction roots with
  | nil => intro vis c x cx h; simp [selectLoop] at h
  | cons r rs ih =>
    intro vis c x cx h
    simp only [selectLoop] at h
    by_cases hv : r ∈ vis
    · simp only [List.contains_iff_mem, hv, ↓reduceIte] at h
      obtain ⟨h1, ⟨t, ht, hr⟩, hc⟩ := ih vis (c + 1) x cx h
      exact ⟨h1, ⟨t, List.mem_cons_of_mem _ ht, hr⟩, by simp only [List.length_cons]; omega⟩
    · simp only [List.contains_iff_mem, hv, ↓reduceIte] at h
      have hsplit := rem_split (flipEdges es) vis r hv
      cases hd : dfs (flipEdges es) ok es.length (succs (flipEdges es) r) (r :: vis) with
      | bad cc ss =>
        simp only [hd, SelRes.platformError.injEq] at h
        obtain ⟨rfl, rfl⟩ := h
        obtain ⟨h1, _, ⟨t, ht, hr⟩, hs⟩ := dfs_bad_inv _ _ _ _ _ _ _ hd
        exact ⟨h1, ⟨r, List.mem_cons_self .., Reach.step (mem_succs.mp ht) hr⟩, by simp only [List.length_cons]; omega⟩
      | fuel => simp [hd] at h
      | done vis' s =>
        simp only [hd] at h
        have I := dfs_done_inv _ _ _ _ _ _ _ hd
        obtain ⟨h1, ⟨t, ht, hr⟩, hc⟩ := ih vis' (c + 1 + s) x cx h
        have := I.steps
        exact ⟨h1, ⟨t, List.mem_cons_of_mem _ ht, hr⟩, by simp only [List.length_cons]; omega⟩

/-- the fuel `|E|` given to every traversal of the loop is always enough -/
theorem selectLoop_ne_fuel (es : List Edge) (ok : Nat → Bool) :
    ∀ (roots vis : List Nat) (c : Nat), selectLoop es ok roots vis c ≠ .fuel := by
  intro roots
  induction roots with
  | nil => intro vis c; simp [selectLoop]
  | cons r rs ih =>
    intro vis c
    simp only [selectLoop]
    by_cases hv : r ∈ vis
    · simp only [List.contains_iff_mem, hv, ↓reduceIte]; exact ih _ _
    · simp only [List.contains_iff_mem, hv, ↓reduceIte]
      have hf := dfs_fuel_enough (flipEdges es) ok es.length (succs (flipEdges es) r) (r :: vis) (by
        have h1 := rem_split (flipEdges es) vis r hv
        have h2 := rem_le (flipEdges es) vis
        rw [length_flipEdges] at h2; omega)
      cases hd : dfs (flipEdges es) ok es.length (succs (flipEdges es) r) (r :: vis) with
      | bad cc ss => simp
      | fuel => exact absurd hd hf
      | done vis' s => simp only; exact ih _ _

/-- a successful run from the empty visited set: the selected set is closed under direct
    dependencies and consists exactly of the roots and their transitive dependencies; if all roots
    pass `ok`, so does every selected node -/
theorem selectLoop_ok_spec {es : List Edge} {ok : Nat → Bool} {roots sel : List Nat} {c' : Nat}
    (h : selectLoop es ok roots [] 0 = .ok sel c') :
    (∀ x, x ∈ sel ↔ ∃ r ∈ roots, Reach es x r) ∧
    (∀ y ∈ sel, ∀ x, (x, y) ∈ es → x ∈ sel) ∧
    ((∀ r ∈ roots, ok r = true) → ∀ x ∈ sel, ok x = true) ∧
    sel.Nodup ∧ c' ≤ roots.length + es.length := by
  have J := selectLoop_ok_inv es ok roots [] sel 0 c' h
  have hclosed : ∀ u ∈ sel, ∀ w ∈ succs (flipEdges es) u, w ∈ sel :=
    fun u hu w hw => J.closed u hu (by simp) w hw
  refine ⟨?_, ?_, ?_, J.nodup (by simp), ?_⟩
  · intro x
    constructor
    · intro hx
      rcases J.sound x hx with h1 | ⟨r, hr, hreach⟩
      · simp at h1
      · exact ⟨r, hr, reach_flip.mp hreach⟩
    · rintro ⟨r, hr, hreach⟩
      exact reach_closed hclosed (J.rootsIn r hr) (reach_flip.mpr hreach)
  · intro y hy x e
    exact hclosed y hy x (mem_succs.mpr (mem_flipEdges.mpr e))
  · intro hroots x hx
    rcases J.allOk x hx with h1 | h1 | h1
    · simp at h1
    · exact hroots x h1
    · exact h1
  · have h1 := J.cost
    have h2 := rem_nil (flipEdges es)
    rw [length_flipEdges] at h2
    omega

end Grog
