/-
  Helper lemmas for the worker-pool model.
-/
import GrogModel.Pool
namespace Grog.Pool

theorem step_workers_length {s s' : State} {e : Ev} (h : step s e = some s') :
    s'.workers.length = s.workers.length := by
  cases e <;> simp only [step] at h
  case enqueue t => split at h <;> simp_all <;> (subst h; rfl)
  case take w => split at h <;> simp_all <;> (subst h; simp)
  case cmdStart w =>
    split at h
    · split at h <;> simp_all
      subst h; simp
    · simp at h
  case cmdEnd w => split at h <;> simp_all <;> (subst h; simp)
  case done w => split at h <;> simp_all <;> (subst h; simp)
  case taskCancel => split at h <;> simp_all <;> (subst h; rfl)
  case poolCancel => split at h <;> simp_all <;> (subst h; rfl)
  case workerExit w =>
    split at h
    · split at h <;> simp_all
      subst h; simp
    · simp at h

theorem reach_workers_length {w : Nat} {s : State} (h : Reach w s) : s.workers.length = w := by
  induction h with
  | init => simp [init]
  | step _ hs ih => rw [step_workers_length hs, ih]

theorem running_le_busy (s : State) : running s ≤ busy s := by
  unfold running busy
  apply List.countP_mono_left
  intro x _ hx
  cases x <;> simp_all [WState.cmdRunning, WState.isBusy]

theorem busy_le_length (s : State) : busy s ≤ s.workers.length := List.countP_le_length

/-! ### progress of the pool while its context is alive -/

/-- as long as the pool's context is not cancelled the job channel is open and no worker has left -/
def Alive (s : State) : Prop := s.poolCtx = false → s.closed = false ∧ ∀ x ∈ s.workers, x ≠ WState.exited

theorem mem_set_cases {l : List WState} {i : Nat} {v x : WState} (h : x ∈ l.set i v) : x = v ∨ x ∈ l := by
  rcases List.mem_or_eq_of_mem_set h with h | h
  · exact Or.inr h
  · exact Or.inl h

theorem set_ne_exited {l : List WState} {i : Nat} {v : WState} (h2 : ∀ x ∈ l, x ≠ WState.exited) (hv : v ≠ WState.exited) :
    ∀ x ∈ l.set i v, x ≠ WState.exited := by
  intro x hx
  rcases mem_set_cases hx with rfl | hx
  · exact hv
  · exact h2 x hx

theorem alive_step {s s' : State} {e : Ev} (ha : Alive s) (h : step s e = some s') : Alive s' := by
  intro hp
  cases e <;> simp only [step] at h
  case enqueue t =>
    split at h <;> simp at h; subst h; exact ha hp
  case take w =>
    split at h <;> simp at h
    subst h
    obtain ⟨h1, h2⟩ := ha hp
    exact ⟨h1, set_ne_exited h2 (by simp)⟩
  case cmdStart w =>
    split at h
    · split at h <;> simp at h
      subst h
      obtain ⟨h1, h2⟩ := ha hp
      exact ⟨h1, set_ne_exited h2 (by simp)⟩
    · simp at h
  case cmdEnd w =>
    split at h <;> simp at h
    subst h
    obtain ⟨h1, h2⟩ := ha hp
    exact ⟨h1, set_ne_exited h2 (by simp)⟩
  case done w =>
    split at h <;> simp at h
    subst h
    obtain ⟨h1, h2⟩ := ha hp
    exact ⟨h1, set_ne_exited h2 (by simp)⟩
  case taskCancel =>
    split at h <;> simp at h; subst h; exact ha hp
  case poolCancel =>
    split at h <;> simp at h; subst h; simp at hp
  case workerExit w =>
    split at h
    · split at h
      · rename_i hg
        simp at h; subst h
        obtain ⟨h1, _⟩ := ha hp
        rcases hg with hg | hg
        · rw [hp] at hg; cases hg
        · rw [h1] at hg; cases hg.1
      · simp at h
    · simp at h

theorem reach_alive {w : Nat} {s : State} (h : Reach w s) : Alive s := by
  induction h with
  | init => intro _; exact ⟨rfl, fun x hx => by simp [init] at hx; rw [hx.2]; simp⟩
  | step _ hs ih => exact alive_step ih hs

/-- **no deadlock in the pool while its context is alive**: if a job waits in the channel, some worker can take it, or
    (all workers busy) a worker can finish its command or its task — for every number of workers ≥ 1, every reachable state -/
theorem pool_progress {w : Nat} {s : State} (h : Reach w s) (hw : 0 < w) (hp : s.poolCtx = false) (hq : s.queue ≠ []) :
    ∃ i, (step s (.take i)).isSome = true ∨ (step s (.cmdEnd i)).isSome = true ∨ (step s (.done i)).isSome = true := by
  obtain ⟨_, hne⟩ := reach_alive h hp
  have hlen := reach_workers_length h
  obtain ⟨t, rest, hqe⟩ : ∃ t rest, s.queue = t :: rest := by
    cases hq' : s.queue with
    | nil => exact absurd hq' hq
    | cons t rest => exact ⟨t, rest, rfl⟩
  by_cases hidle : WState.idle ∈ s.workers
  · obtain ⟨i, hi⟩ := List.mem_iff_getElem?.1 hidle
    exact ⟨i, Or.inl (by simp [step, hi, hqe])⟩
  · have h0 : 0 < s.workers.length := by rw [hlen]; exact hw
    have hmem : s.workers[0] ∈ s.workers := List.getElem_mem h0
    have hget : s.workers[0]? = some s.workers[0] := List.getElem?_eq_getElem h0
    cases hx : s.workers[0] with
    | idle => rw [hx] at hmem; exact absurd hmem hidle
    | exited => rw [hx] at hmem; exact absurd rfl (hne _ hmem)
    | busy t' b =>
      rw [hx] at hget
      cases b with
      | true => exact ⟨0, Or.inr (Or.inl (by simp [step, hget]))⟩
      | false => exact ⟨0, Or.inr (Or.inr (by simp [step, hget]))⟩

end Grog.Pool
