/-
  Helper lemmas for the worker-pool model.
-/
import GrogModel.Pool
namespace Grog.Pool

theorem step_workers_length {s s' : State} {e : Ev} (h : step s e = some s') :
    s'.workers.length = s.workers.length := by
  cases e <;> simp only [step] at h
  case enqueue t => split at h <;> simp_all <;> (subst h; rfl)
  case take w => split at h <;> simp_all <;> (subst h; simp)
  case cmdStart w =>
    split at h
    · split at h <;> simp_all
      subst h; simp
    · simp at h
  case cmdEnd w => split at h <;> simp_all <;> (subst h; simp)
  case done w => split at h <;> simp_all <;> (subst h; simp)
  case taskCancel => split at h <;> simp_all <;> (subst h; rfl)
  case poolCancel => split at h <;> simp_all <;> (subst h; rfl)
  case workerExit w =>
    split at h
    · split at h <;> simp_all
      subst h; simp
    · simp at h

theorem reach_workers_length {w : Nat} {s : State} (h : Reach w s) : s.workers.length = w := by
  induction h with
  | init => simp [init]
  | step _ hs ih => rw [step_workers_length hs, ih]

theorem running_le_busy (s : State) : running s ≤ busy s := by
  unfold running busy
  apply List.countP_mono_left
  intro x _ hx
  cases x <;> simp_all [WState.cmdRunning, WState.isBusy]

theorem busy_le_length (s : State) : busy s ≤ s.workers.length := List.countP_le_length

end Grog.Pool
