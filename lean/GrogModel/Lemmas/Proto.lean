import GrogModel.Proto
namespace Grog.Proto
open Grog

theorem varint_ne_nil (n : Nat) : varint n ≠ [] := by
  rw [varint]; split <;> simp

theorem ofNat_inj_of_lt {a b : Nat} (ha : a < 256) (hb : b < 256) (h : UInt8.ofNat a = UInt8.ofNat b) : a = b := by
  have := congrArg UInt8.toNat h
  simp only [UInt8.toNat_ofNat'] at this
  omega

/-- varints are self-delimiting -/
theorem varint_append_inj : ∀ (n m : Nat) (r r' : Bytes), varint n ++ r = varint m ++ r' → n = m ∧ r = r' := by
  intro n
  induction n using Nat.strongRecOn with
  | _ n ih =>
    intro m r r' h
    rw [varint.eq_1 n, varint.eq_1 m] at h
    split at h <;> split at h
    · rename_i hn hm
      simp only [List.cons_append, List.nil_append, List.cons.injEq] at h
      exact ⟨ofNat_inj_of_lt (by omega) (by omega) h.1, h.2⟩
    · rename_i hn hm
      simp only [List.cons_append, List.nil_append, List.cons.injEq] at h
      have := ofNat_inj_of_lt (by omega) (by omega) h.1
      omega
    · rename_i hn hm
      simp only [List.cons_append, List.nil_append, List.cons.injEq] at h
      have := ofNat_inj_of_lt (by omega) (by omega) h.1
      omega
    · rename_i hn hm
      simp only [List.cons_append, List.cons.injEq] at h
      have h0 := ofNat_inj_of_lt (by omega) (by omega) h.1
      obtain ⟨h1, h2⟩ := ih (n / 128) (by omega) (m / 128) r r' h.2
      exact ⟨by omega, h2⟩

theorem lenDelim_append_inj {t : UInt8} {b b' r r' : Bytes}
    (h : lenDelim t b ++ r = lenDelim t b' ++ r') : b = b' ∧ r = r' := by
  simp only [lenDelim, List.cons_append, List.append_assoc, List.cons.injEq, true_and] at h
  obtain ⟨h1, h2⟩ := varint_append_inj _ _ _ _ h
  exact List.append_inj h2 h1

/-- `r` does not start with byte `t` -/
def NoHead (t : UInt8) (r : Bytes) : Prop := r.head? ≠ some t

theorem strField_append_inj {t : UInt8} {s s' r r' : Bytes} (hr : NoHead t r) (hr' : NoHead t r')
    (h : strField t s ++ r = strField t s' ++ r') : s = s' ∧ r = r' := by
  unfold strField at h
  cases hs : s.isEmpty <;> cases hs' : s'.isEmpty <;> simp only [hs, hs', Bool.false_eq_true, if_false, if_true, List.nil_append] at h
  · exact lenDelim_append_inj h
  · exfalso; apply hr'; rw [← h]; simp [lenDelim]
  · exfalso; apply hr; rw [h]; simp [lenDelim]
  · exact ⟨by rw [List.isEmpty_iff.mp hs, List.isEmpty_iff.mp hs'], h⟩

theorem msgField_append_inj {t : UInt8} {a b : Option Bytes} {r r' : Bytes} (hr : NoHead t r) (hr' : NoHead t r')
    (h : msgField t a ++ r = msgField t b ++ r') : a = b ∧ r = r' := by
  cases a <;> cases b <;> simp only [msgField, List.nil_append] at h
  · exact ⟨rfl, h⟩
  · exfalso; apply hr; rw [h]; simp [lenDelim]
  · exfalso; apply hr'; rw [← h]; simp [lenDelim]
  · obtain ⟨h1, h2⟩ := lenDelim_append_inj h
    exact ⟨by rw [h1], h2⟩

def sizePart (n : Nat) : Bytes := if n = 0 then [] else 0x10 :: varint n

theorem sizePart_noHead (n : Nat) : NoHead 0x0A (sizePart n) := by
  unfold sizePart NoHead; split <;> simp

theorem sizePart_inj {n m : Nat} (h : sizePart n = sizePart m) : n = m := by
  unfold sizePart at h
  split at h <;> split at h
  · omega
  · simp at h
  · simp at h
  · simp only [List.cons.injEq, true_and] at h
    exact (varint_append_inj n m [] [] (by simpa using h)).1

theorem serDigest_injective {d d' : Digest} (h : serDigest d = serDigest d') : d = d' := by
  have h' : strField 0x0A d.hash ++ sizePart d.size = strField 0x0A d'.hash ++ sizePart d'.size := h
  obtain ⟨h1, h2⟩ := strField_append_inj (sizePart_noHead _) (sizePart_noHead _) h'
  cases d; cases d'; simp only at h1 h2
  rw [h1, sizePart_inj h2]

theorem map_serDigest_inj {a b : Option Digest} (h : a.map serDigest = b.map serDigest) : a = b := by
  cases a <;> cases b <;> simp at h
  · rfl
  · rw [serDigest_injective h]

def execPart (x : Bool) : Bytes := if x then [0x18, 1] else []

theorem execPart_inj {x y : Bool} (h : execPart x = execPart y) : x = y := by
  cases x <;> cases y <;> simp [execPart] at h <;> rfl

theorem execPart_noHead12 (x : Bool) : NoHead 0x12 (execPart x) := by
  cases x <;> simp [execPart, NoHead]

theorem tail_noHead0A (a : Option Bytes) (x : Bytes) (hx : NoHead 0x0A x) :
    NoHead 0x0A (msgField 0x12 a ++ x) := by
  cases a with
  | none => simpa [msgField] using hx
  | some b => simp [msgField, lenDelim, NoHead]

theorem execPart_noHead0A (x : Bool) : NoHead 0x0A (execPart x) := by
  cases x <;> simp [execPart, NoHead]

theorem nil_noHead (t : UInt8) : NoHead t [] := by simp [NoHead]

theorem serFile_injective {p p' : Bytes} {d d' : Option Digest} {x x' : Bool}
    (h : serFile p d x = serFile p' d' x') : p = p' ∧ d = d' ∧ x = x' := by
  have h' : strField 0x0A p ++ (msgField 0x12 (d.map serDigest) ++ execPart x) =
      strField 0x0A p' ++ (msgField 0x12 (d'.map serDigest) ++ execPart x') := by
    simpa [serFile, execPart, List.append_assoc] using h
  obtain ⟨h1, h2⟩ := strField_append_inj
    (tail_noHead0A _ _ (execPart_noHead0A x)) (tail_noHead0A _ _ (execPart_noHead0A x')) h'
  obtain ⟨h3, h4⟩ := msgField_append_inj (execPart_noHead12 x) (execPart_noHead12 x') h2
  exact ⟨h1, map_serDigest_inj h3, execPart_inj h4⟩

theorem serDir_injective {p p' : Bytes} {d d' : Option Digest}
    (h : serDir p d = serDir p' d') : p = p' ∧ d = d' := by
  have h' : strField 0x0A p ++ (msgField 0x12 (d.map serDigest) ++ []) =
      strField 0x0A p' ++ (msgField 0x12 (d'.map serDigest) ++ []) := by
    simpa [serDir] using h
  obtain ⟨h1, h2⟩ := strField_append_inj
    (tail_noHead0A _ _ (nil_noHead _)) (tail_noHead0A _ _ (nil_noHead _)) h'
  obtain ⟨h3, _⟩ := msgField_append_inj (nil_noHead _) (nil_noHead _) h2
  exact ⟨h1, map_serDigest_inj h3⟩

/-- the deterministic marshalling of `Output` messages is injective -/
theorem serOutput_injective' {a b : Output} (h : serOutput a = serOutput b) : a = b := by
  cases a <;> cases b <;> simp only [serOutput] at h
  · have := (lenDelim_append_inj (r := []) (r' := []) (by simpa using h)).1
    obtain ⟨h1, h2, h3⟩ := serFile_injective this
    rw [h1, h2, h3]
  · simp [lenDelim] at h
  · simp [lenDelim] at h
  · have := (lenDelim_append_inj (r := []) (r' := []) (by simpa using h)).1
    obtain ⟨h1, h2⟩ := serDir_injective this
    rw [h1, h2]

/-- a permutation between images under an injective map comes from a permutation of the arguments -/
theorem perm_of_map_perm {α β : Type} [DecidableEq α] (f : α → β) (hf : ∀ a b, f a = f b → a = b) :
    ∀ (xs ys : List α), (xs.map f).Perm (ys.map f) → xs.Perm ys
  | [], ys, h => by
    have : ys.map f = [] := List.Perm.eq_nil (h.symm)
    rw [List.map_eq_nil_iff.mp this]
  | x :: t, ys, h => by
    have hm : f x ∈ ys.map f := h.subset (by simp)
    obtain ⟨y, hy, hfy⟩ := List.mem_map.mp hm
    have : y = x := hf _ _ hfy
    subst this
    have hp : ys.Perm (y :: ys.erase y) := List.perm_cons_erase hy
    have h2 : (f y :: t.map f).Perm (f y :: (ys.erase y).map f) := by
      have := h.trans (hp.map f)
      simpa using this
    have ih := perm_of_map_perm f hf t (ys.erase y) (List.Perm.cons_inv h2)
    exact (List.Perm.cons y ih).trans hp.symm

/-- the same with injectivity required only between members of the two lists -/
theorem perm_of_map_perm_on {α β : Type} [DecidableEq α] (f : α → β) :
    ∀ (xs ys : List α), (∀ a ∈ xs, ∀ b ∈ ys, f a = f b → a = b) → (xs.map f).Perm (ys.map f) → xs.Perm ys
  | [], ys, _, h => by
    have : ys.map f = [] := List.Perm.eq_nil (h.symm)
    rw [List.map_eq_nil_iff.mp this]
  | x :: t, ys, hf, h => by
    have hm : f x ∈ ys.map f := h.subset (by simp)
    obtain ⟨y, hy, hfy⟩ := List.mem_map.mp hm
    have : x = y := hf x List.mem_cons_self y hy hfy.symm
    subst this
    have hp : ys.Perm (x :: ys.erase x) := List.perm_cons_erase hy
    have h2 : (f x :: t.map f).Perm (f x :: (ys.erase x).map f) := by
      have := h.trans (hp.map f)
      simpa using this
    have ih := perm_of_map_perm_on f t (ys.erase x)
      (fun a ha b hb => hf a (List.mem_cons_of_mem _ ha) b (List.mem_of_mem_erase hb)) (List.Perm.cons_inv h2)
    exact (List.Perm.cons x ih).trans hp.symm

end Grog.Proto
