/-
  Lemmas about GrogModel/Graph.lean: adjacency projections, reachability, the visited-set traversal
  (`dfs`): invariants, exact step count, fuel sufficiency.
-/
import GrogModel.Graph
namespace Grog

/-! ### adjacency -/

theorem mem_succs {es : List Edge} {a b : Nat} : b ∈ succs es a ↔ (a, b) ∈ es := by
  simp only [succs, List.mem_map, List.mem_filter, beq_iff_eq]
  constructor
  · rintro ⟨⟨x, y⟩, ⟨h1, h2⟩, h3⟩
    simp only at h2 h3; subst h2; subst h3; exact h1
  · intro h; exact ⟨(a, b), ⟨h, rfl⟩, rfl⟩

theorem mem_preds {es : List Edge} {a b : Nat} : a ∈ preds es b ↔ (a, b) ∈ es := by
  simp only [preds, List.mem_map, List.mem_filter, beq_iff_eq]
  constructor
  · rintro ⟨⟨x, y⟩, ⟨h1, h2⟩, h3⟩
    simp only at h2 h3; subst h2; subst h3; exact h1
  · intro h; exact ⟨(a, b), ⟨h, rfl⟩, rfl⟩

theorem mem_flipEdges {es : List Edge} {a b : Nat} : (a, b) ∈ flipEdges es ↔ (b, a) ∈ es := by
  simp only [flipEdges, List.mem_map]
  constructor
  · rintro ⟨⟨x, y⟩, h1, h2⟩
    simp only [Prod.mk.injEq] at h2; obtain ⟨rfl, rfl⟩ := h2; exact h1
  · intro h; exact ⟨(b, a), h, rfl⟩

theorem succs_flipEdges (es : List Edge) (v : Nat) : succs (flipEdges es) v = preds es v := by
  induction es with
  | nil => rfl
  | cons e es ih =>
    simp only [succs, preds, flipEdges, List.map_cons, List.filter_cons] at ih ⊢
    by_cases h : e.2 = v <;> simp [h, ih]

theorem length_flipEdges (es : List Edge) : (flipEdges es).length = es.length := by
  simp [flipEdges]

/-! ### reachability -/

theorem Reach.trans {es : List Edge} {a b c : Nat} (h1 : Reach es a b) (h2 : Reach es b c) : Reach es a c := by
  induction h1 with
  | refl => exact h2
  | step e _ ih => exact Reach.step e (ih h2)

theorem Reach.tail {es : List Edge} {a b c : Nat} (h1 : Reach es a b) (e : (b, c) ∈ es) : Reach es a c :=
  h1.trans (Reach.step e (Reach.refl c))

theorem reach_flip {es : List Edge} {a b : Nat} : Reach (flipEdges es) a b ↔ Reach es b a := by
  constructor
  · intro h
    induction h with
    | refl => exact Reach.refl _
    | step e _ ih => exact ih.tail (mem_flipEdges.mp e)
  · intro h
    induction h with
    | refl => exact Reach.refl _
    | step e _ ih => exact ih.tail (mem_flipEdges.mpr e)

theorem reachPlus_flip {es : List Edge} {a b : Nat} : ReachPlus (flipEdges es) a b ↔ ReachPlus es b a := by
  constructor
  · rintro ⟨y, e, h⟩
    have h' := reach_flip.mp h
    -- b →* y → a
    cases h' with
    | refl => exact ⟨a, mem_flipEdges.mp e, Reach.refl _⟩
    | step e' r => exact ⟨_, e', r.tail (mem_flipEdges.mp e)⟩
  · rintro ⟨y, e, h⟩
    have h' := reach_flip.mpr h
    cases h' with
    | refl => exact ⟨b, mem_flipEdges.mpr e, Reach.refl _⟩
    | step e' r => exact ⟨_, e', r.tail (mem_flipEdges.mpr e)⟩

/-- a set closed under successors contains everything reachable from its members -/
theorem reach_closed {es : List Edge} {S : List Nat}
    (hc : ∀ u ∈ S, ∀ w ∈ succs es u, w ∈ S) {a x : Nat} (ha : a ∈ S) (h : Reach es a x) : x ∈ S := by
  induction h with
  | refl => exact ha
  | step e _ ih => exact ih (hc _ ha _ (mem_succs.mpr e))

theorem Reach.rank_le {es : List Edge} {rank : Nat → Nat} {N : Nat} (hr : Ranked es rank N)
    {a b : Nat} (h : Reach es a b) : rank a ≤ rank b := by
  induction h with
  | refl => exact Nat.le_refl _
  | step e _ ih => exact Nat.le_trans (Nat.le_of_lt (hr _ e).1) ih

theorem ReachPlus.rank_lt {es : List Edge} {rank : Nat → Nat} {N : Nat} (hr : Ranked es rank N)
    {a b : Nat} (h : ReachPlus es a b) : rank a < rank b := by
  obtain ⟨y, e, r⟩ := h
  exact Nat.lt_of_lt_of_le (hr _ e).1 (r.rank_le hr)

/-! ### the potential: edges whose source has not been visited -/

/-- number of edges whose source is not in `vis` (their adjacency entry has not been pushed yet) -/
def rem (es : List Edge) (vis : List Nat) : Nat :=
  (es.filter (fun e => !vis.contains e.1)).length

theorem rem_nil (es : List Edge) : rem es [] = es.length := by
  simp [rem]

theorem rem_le (es : List Edge) (vis : List Nat) : rem es vis ≤ es.length := by
  simp only [rem]; exact List.length_filter_le _ _

theorem rem_split (es : List Edge) (vis : List Nat) (d : Nat) (h : d ∉ vis) :
    rem es vis = (succs es d).length + rem es (d :: vis) := by
  induction es with
  | nil => simp [rem, succs]
  | cons e es ih =>
    simp only [rem, succs, List.length_map] at ih ⊢
    by_cases h1 : e.1 = d
    · simp [h1, h] at ih ⊢; omega
    · by_cases h2 : e.1 ∈ vis
      · simp [h1, h2] at ih ⊢; omega
      · simp [h1, h2] at ih ⊢; omega

/-! ### tick -/

theorem tick_eq_done {r : DfsRes} {v : List Nat} {s : Nat} :
    r.tick = .done v s ↔ ∃ s', r = .done v s' ∧ s = s' + 1 := by
  cases r with
  | done v' s' =>
    simp only [DfsRes.tick, DfsRes.done.injEq]
    constructor
    · rintro ⟨rfl, rfl⟩; exact ⟨_, ⟨rfl, rfl⟩, rfl⟩
    · rintro ⟨s'', ⟨rfl, rfl⟩, rfl⟩; exact ⟨rfl, rfl⟩
  | bad c s' => simp [DfsRes.tick]
  | fuel => simp [DfsRes.tick]

theorem tick_eq_bad {r : DfsRes} {c s : Nat} :
    r.tick = .bad c s ↔ ∃ s', r = .bad c s' ∧ s = s' + 1 := by
  cases r with
  | bad c' s' =>
    simp only [DfsRes.tick, DfsRes.bad.injEq]
    constructor
    · rintro ⟨rfl, rfl⟩; exact ⟨_, ⟨rfl, rfl⟩, rfl⟩
    · rintro ⟨s'', ⟨rfl, rfl⟩, rfl⟩; exact ⟨rfl, rfl⟩
  | done v' s' => simp [DfsRes.tick]
  | fuel => simp [DfsRes.tick]

theorem tick_eq_fuel {r : DfsRes} : r.tick = .fuel ↔ r = .fuel := by
  cases r <;> simp [DfsRes.tick]

end Grog
