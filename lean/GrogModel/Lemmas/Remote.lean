import GrogModel.Remote
import GrogModel.RemotePath
namespace Grog.Remote
open Grog
open Grog.Store (NS Res Pid Digest)

theorem rinv_init : RInv init := by constructor <;> simp [init, rvis]

theorem rinv_step {s s' : State} (h : RInv s) (e : Ev) (hs : step .fixed s e = some s') : RInv s' := by
  obtain ⟨h1, h2, h3⟩ := h
  cases e with
  | proc p m =>
    simp [step] at hs; subst hs
    constructor <;> simp only [rvis, upd] <;> grind [rvis]
  | localSet m ns k b =>
    simp [step] at hs; subst hs
    exact ⟨h1, h2, h3⟩
  | existsRes p ns k r =>
    cases r <;> simp only [step] at hs <;> split at hs <;> simp at hs <;> subst hs <;> exact ⟨h1, h2, h3⟩
  | existsAllRes p k r =>
    cases r with
    | yes =>
      simp only [step] at hs
      split at hs
      · rename_i hc
        simp at hs; subst hs
        simp at hc
        constructor
        · exact h1
        · exact h2
        · intro q d hd
          simp only [upd] at hd
          by_cases e : q = p
          · simp [e] at hd
            rcases hd with rfl | hd
            · simpa [rvis] using hc.2
            · exact h3 p d hd
          · simp [e] at hd; exact h3 q d hd
      · simp at hs
    | no => simp only [step] at hs; split at hs <;> simp at hs; subst hs; exact ⟨h1, h2, h3⟩
    | err => simp only [step] at hs; split at hs <;> simp at hs; subst hs; exact ⟨h1, h2, h3⟩
  | getRes p ns k r filled =>
    cases r with
    | none =>
      simp only [step] at hs
      split at hs
      · simp at hs
      · split at hs
        · split at hs <;> simp at hs
          subst hs; exact ⟨h1, h2, h3⟩
        · simp at hs; subst hs; exact ⟨h1, h2, h3⟩
    | some b =>
      simp only [step] at hs
      split at hs
      · split at hs <;> simp at hs; subst hs; exact ⟨h1, h2, h3⟩
      · split at hs <;> simp at hs; subst hs; exact ⟨h1, h2, h3⟩
  | taintSet p l la ra ok =>
    simp only [step] at hs; split at hs <;> simp at hs; subst hs; exact ⟨h1, h2, h3⟩
  | taintExists p l r =>
    cases r <;> simp only [step] at hs <;> split at hs <;> simp at hs <;> subst hs <;> exact ⟨h1, h2, h3⟩
  | taintDelete p l la ra ok =>
    simp only [step] at hs; split at hs <;> simp at hs; subst hs; exact ⟨h1, h2, h3⟩
  | setRes p ns k b lst rst ok =>
    simp only [step] at hs
    split at hs
    · rename_i hg
      simp at hs; subst hs
      simp only [Bool.and_eq_true, Bool.or_eq_true, Bool.not_eq_true', List.all_eq_true, decide_eq_true_eq] at hg
      obtain ⟨hok, hrefs⟩ := hg
      have hrv : ∀ r ∈ b.refs, rvis s r = true := fun r hr => h3 p r (hrefs r hr)
      cases rst with
      | false =>
        have hokf : ok = false := by rcases hok with h | h <;> simp_all
        subst hokf
        cases lst <;> simp <;> exact ⟨h1, h2, h3⟩
      | true =>
        -- the value lands in the remote store
        have mono : ∀ d, rvis s d = true → (put s.remote ns k b .cas d).isSome = true := by
          intro d hd; simp only [put, rvis] at *; split <;> simp_all
        have base : RInv { s with remote := put s.remote ns k b } := by
          constructor
          · intro d x hx r hr
            simp only [rvis]; apply mono
            simp only [put] at hx
            split at hx
            · simp at hx; subst hx; exact hrv r hr
            · exact h1 d x hx r hr
          · intro d x hx r hr
            simp only [rvis]; apply mono
            simp only [put] at hx
            split at hx
            · simp at hx; subst hx; exact hrv r hr
            · exact h2 d x hx r hr
          · intro q d hd; simp only [rvis]; exact mono d (h3 q d hd)
        obtain ⟨b1, b2, b3⟩ := base
        cases lst <;> simp
        all_goals
          split
          · rename_i hc
            obtain ⟨_, hns⟩ := hc
            subst hns
            refine ⟨b1, b2, ?_⟩
            intro q d hd
            simp only [upd] at hd
            by_cases e : q = p
            · simp [e] at hd
              rcases hd with rfl | hd
              · simp [rvis, put]
              · exact b3 p d hd
            · simp [e] at hd; exact b3 q d hd
          · exact ⟨b1, b2, b3⟩
    · simp at hs

theorem rinv_run {s s' : State} (h : RInv s) (es : List Ev) (hr : run .fixed s es = some s') : RInv s' := by
  induction es generalizing s with
  | nil => simp [run] at hr; subst hr; exact h
  | cons e es ih =>
    simp only [run] at hr
    cases hst : step .fixed s e with
    | none => simp [hst] at hr
    | some s1 => simp only [hst] at hr; exact ih (rinv_step h e hst) hr

end Grog.Remote

namespace Grog.RemotePath
open Grog

theorem split_at_sep {α : Type} {c : α} : ∀ (u v x y : List α), c ∉ u → c ∉ v → u ++ c :: x = v ++ c :: y → u = v ∧ x = y
  | [], [], x, y, _, _, h => by simpa using h
  | [], d :: v, x, y, _, hv, h => by
    simp only [List.nil_append, List.cons_append, List.cons.injEq] at h
    exact absurd (h.1 ▸ List.mem_cons_self) hv
  | d :: u, [], x, y, hu, _, h => by
    simp only [List.nil_append, List.cons_append, List.cons.injEq] at h
    exact absurd (h.1 ▸ List.mem_cons_self) hu
  | d :: u, e :: v, x, y, hu, hv, h => by
    simp only [List.cons_append, List.cons.injEq] at h
    obtain ⟨h1, h2⟩ := h
    have := split_at_sep u v x y (fun hm => hu (List.mem_cons_of_mem _ hm)) (fun hm => hv (List.mem_cons_of_mem _ hm)) h2
    exact ⟨by rw [h1, this.1], this.2⟩

/-- `p ++ "/" ++ w` determines `p` and `w` when `w` has no slash -/
theorem split_last {p1 p2 w1 w2 : Bytes} (h1 : cSlash ∉ w1) (h2 : cSlash ∉ w2)
    (h : p1 ++ [cSlash] ++ w1 = p2 ++ [cSlash] ++ w2) : p1 = p2 ∧ w1 = w2 := by
  have hr := congrArg List.reverse h
  simp only [List.reverse_append, List.reverse_cons, List.append_assoc, List.singleton_append] at hr
  have := split_at_sep (c := cSlash) w1.reverse w2.reverse p1.reverse p2.reverse (by simpa using h1) (by simpa using h2) hr
  exact ⟨List.reverse_inj.mp this.2, List.reverse_inj.mp this.1⟩

end Grog.RemotePath
