/-
  The merge loop of LoadPackages followed by BuildNodeMapFromPackages, characterised independently of
  the arrival order: the load succeeds iff all labels of all loaded packages are pairwise distinct,
  and then returns exactly those nodes.
-/
import GrogModel.Loader
namespace Grog.Loader
open Grog List

def allNodes (l : List (Bytes × Package)) : List Node := l.flatMap (fun kp => kp.2.nodes)

abbrev labels (ns : List Node) : List Label := ns.map Node.label

/-! ### nodeMap -/

theorem nodeMap_ok_iff (xs : List Node) : ∀ (acc r : List Node),
    nodeMap acc xs = .ok r ↔
      (r = xs.reverse ++ acc ∧ (labels xs).Nodup ∧ ∀ x ∈ xs, ∀ a ∈ acc, a.label ≠ x.label) := by
  induction xs with
  | nil => intro acc r; simp [nodeMap]; exact eq_comm
  | cons n rest ih =>
    intro acc r
    simp only [nodeMap]
    split
    · rename_i hany
      simp only [any_eq_true, decide_eq_true_eq] at hany
      obtain ⟨a, ha, hal⟩ := hany
      constructor
      · intro h; cases h
      · intro ⟨_, _, h⟩; exact absurd hal (h n (by simp) a ha)
    · rename_i hany
      have hno : ∀ a ∈ acc, a.label ≠ n.label := by
        intro a ha hal
        apply hany
        simp only [any_eq_true, decide_eq_true_eq]
        exact ⟨a, ha, hal⟩
      rw [ih]
      simp only [labels, map_cons, nodup_cons, mem_map, reverse_cons, append_assoc, singleton_append,
        mem_cons, forall_eq_or_imp]
      constructor
      · intro ⟨hr, hnd, hx⟩
        refine ⟨hr, ⟨?_, hnd⟩, hno, ?_⟩
        · intro ⟨x, hxm, hxl⟩; exact (hx x hxm).1 hxl.symm
        · intro x hxm a ha; exact (hx x hxm).2 a ha
      · intro ⟨hr, ⟨hn, hnd⟩, _, hx⟩
        refine ⟨hr, hnd, ?_⟩
        intro x hxm
        exact ⟨fun e => hn ⟨x, hxm, e.symm⟩, hx x hxm⟩

theorem nodeMap_nil_ok_iff (xs r : List Node) :
    nodeMap [] xs = .ok r ↔ (r = xs.reverse ∧ (labels xs).Nodup) := by
  rw [nodeMap_ok_iff]; simp

/-! ### mergePackages / insertPkg / mergeFrom -/

theorem nodes_merged (p q : Package) :
    (Package.nodes ⟨q.path, q.targets ++ p.targets, q.aliases ++ p.aliases⟩).Perm (q.nodes ++ p.nodes) := by
  simp only [Package.nodes, map_append, append_assoc]
  apply Perm.append_left
  rw [← append_assoc, ← append_assoc]
  exact Perm.append_right _ perm_append_comm

theorem mergePackages_ok {p q r : Package} (h : mergePackages p q = .ok r) :
    r.nodes.Perm (q.nodes ++ p.nodes) := by
  unfold mergePackages at h
  split at h
  · cases h
  · split at h
    · cases h
    · injection h with h; subst h; exact nodes_merged p q

theorem mem_labels_nodes {p : Package} {l : Label} :
    l ∈ labels p.nodes ↔ (∃ t ∈ p.targets, t.label = l) ∨ (∃ a ∈ p.aliases, a.label = l) := by
  simp [labels, Package.nodes, Node.label, mem_map, mem_append]

theorem mergePackages_of_nodup {p q : Package} (h : (labels (q.nodes ++ p.nodes)).Nodup) :
    ∃ r, mergePackages p q = .ok r := by
  simp only [labels, map_append] at h
  rw [nodup_append] at h
  obtain ⟨_, hp, hqp⟩ := h
  have hpn : (labels p.nodes).Nodup := hp
  simp only [Package.nodes, map_append, map_map] at hp
  rw [nodup_append] at hp
  obtain ⟨_, _, hta⟩ := hp
  unfold mergePackages
  have c1 : (p.targets.any fun t => q.targets.any fun u => decide (u.label = t.label)) = false := by
    simp only [any_eq_false, any_eq_true, decide_eq_true_eq, not_exists, not_and]
    intro t ht u hu e
    refine hqp u.label ?_ t.label ?_ e
    · exact mem_labels_nodes.2 (Or.inl ⟨u, hu, rfl⟩)
    · exact mem_labels_nodes.2 (Or.inl ⟨t, ht, rfl⟩)
  have c2 : (p.aliases.any fun a => (q.aliases.any fun b => decide (b.label = a.label)) ||
      ((q.targets ++ p.targets).any fun u => decide (u.label = a.label))) = false := by
    simp only [any_eq_false, Bool.or_eq_true, any_eq_true, decide_eq_true_eq, not_or, not_exists, not_and,
      mem_append]
    intro a ha
    refine ⟨?_, ?_⟩
    · intro b hb e
      exact hqp b.label (mem_labels_nodes.2 (Or.inr ⟨b, hb, rfl⟩)) a.label (mem_labels_nodes.2 (Or.inr ⟨a, ha, rfl⟩)) e
    · rintro u (hu | hu) e
      · exact hqp u.label (mem_labels_nodes.2 (Or.inl ⟨u, hu, rfl⟩)) a.label (mem_labels_nodes.2 (Or.inr ⟨a, ha, rfl⟩)) e
      · exact hta u.label (by simp [mem_map]; exact ⟨u, hu, rfl⟩) a.label (by simp [mem_map]; exact ⟨a, ha, rfl⟩) e
  rw [if_neg (by rw [c1]; simp), if_neg (by rw [c2]; simp)]
  exact ⟨_, rfl⟩

theorem insertPkg_ok : ∀ (m : List (Bytes × Package)) (k : Bytes) (p : Package) (m' : List (Bytes × Package)),
    insertPkg m k p = .ok m' → (allNodes m').Perm (allNodes m ++ p.nodes) := by
  intro m
  induction m with
  | nil => intro k p m' h; simp [insertPkg] at h; subst h; simp [allNodes]
  | cons kq rest ih =>
    intro k p m' h
    obtain ⟨k', q⟩ := kq
    simp only [insertPkg] at h
    split at h
    · split at h
      · cases h
      · rename_i r hr
        injection h with h; subst h
        simp only [allNodes, flatMap_cons]
        have := mergePackages_ok hr
        calc r.nodes ++ rest.flatMap (fun kp => kp.2.nodes)
            ~ (q.nodes ++ p.nodes) ++ rest.flatMap (fun kp => kp.2.nodes) := Perm.append_right _ this
          _ ~ q.nodes ++ (p.nodes ++ rest.flatMap (fun kp => kp.2.nodes)) := by rw [append_assoc]
          _ ~ q.nodes ++ (rest.flatMap (fun kp => kp.2.nodes) ++ p.nodes) := Perm.append_left _ perm_append_comm
          _ ~ (q.nodes ++ rest.flatMap (fun kp => kp.2.nodes)) ++ p.nodes := by rw [append_assoc]
    · split at h
      · cases h
      · rename_i r hr
        injection h with h; subst h
        have := ih k p r hr
        simp only [allNodes, flatMap_cons] at this ⊢
        calc q.nodes ++ r.flatMap (fun kp => kp.2.nodes)
            ~ q.nodes ++ (rest.flatMap (fun kp => kp.2.nodes) ++ p.nodes) := Perm.append_left _ this
          _ ~ (q.nodes ++ rest.flatMap (fun kp => kp.2.nodes)) ++ p.nodes := by rw [append_assoc]

theorem insertPkg_of_nodup : ∀ (m : List (Bytes × Package)) (k : Bytes) (p : Package),
    (labels (allNodes m ++ p.nodes)).Nodup → ∃ m', insertPkg m k p = .ok m' := by
  intro m
  induction m with
  | nil => intro k p _; exact ⟨_, rfl⟩
  | cons kq rest ih =>
    intro k p h
    obtain ⟨k', q⟩ := kq
    simp only [insertPkg]
    -- sub-multisets of a duplicate-free list are duplicate-free
    have hsub1 : (labels (q.nodes ++ p.nodes)).Nodup := by
      refine Nodup.sublist ?_ h
      apply Sublist.map
      simp only [allNodes, flatMap_cons, append_assoc]
      exact Sublist.append (Sublist.refl _) (sublist_append_right _ _)
    have hsub2 : (labels (allNodes rest ++ p.nodes)).Nodup := by
      refine Nodup.sublist ?_ h
      apply Sublist.map
      simp only [allNodes, flatMap_cons, append_assoc]
      exact sublist_append_right _ _
    split
    · obtain ⟨r, hr⟩ := mergePackages_of_nodup hsub1
      simp [hr]
    · obtain ⟨r, hr⟩ := ih k p hsub2
      simp [hr]

theorem mergeFrom_ok : ∀ (rest m m' : List (Bytes × Package)),
    mergeFrom m rest = .ok m' → (allNodes m').Perm (allNodes m ++ allNodes rest) := by
  intro rest
  induction rest with
  | nil => intro m m' h; simp [mergeFrom] at h; subst h; simp [allNodes]
  | cons kp rest ih =>
    intro m m' h
    obtain ⟨k, p⟩ := kp
    simp only [mergeFrom] at h
    split at h
    · cases h
    · rename_i m1 h1
      have a := insertPkg_ok m k p m1 h1
      have b := ih m1 m' h
      simp only [allNodes, flatMap_cons] at a b ⊢
      calc m'.flatMap (fun kp => kp.2.nodes)
          ~ m1.flatMap (fun kp => kp.2.nodes) ++ rest.flatMap (fun kp => kp.2.nodes) := b
        _ ~ (m.flatMap (fun kp => kp.2.nodes) ++ p.nodes) ++ rest.flatMap (fun kp => kp.2.nodes) := Perm.append_right _ a
        _ ~ m.flatMap (fun kp => kp.2.nodes) ++ (p.nodes ++ rest.flatMap (fun kp => kp.2.nodes)) := by rw [append_assoc]

theorem mergeFrom_of_nodup : ∀ (rest m : List (Bytes × Package)),
    (labels (allNodes m ++ allNodes rest)).Nodup → ∃ m', mergeFrom m rest = .ok m' := by
  intro rest
  induction rest with
  | nil => intro m _; exact ⟨m, rfl⟩
  | cons kp rest ih =>
    intro m h
    obtain ⟨k, p⟩ := kp
    simp only [mergeFrom]
    have h1 : (labels (allNodes m ++ p.nodes)).Nodup := by
      refine Nodup.sublist ?_ h
      apply Sublist.map
      simp only [allNodes, flatMap_cons]
      rw [← append_assoc]
      exact sublist_append_left _ _
    obtain ⟨m1, hm1⟩ := insertPkg_of_nodup m k p h1
    simp only [hm1]
    apply ih
    have a := insertPkg_ok m k p m1 hm1
    have : (allNodes m1 ++ allNodes rest).Perm (allNodes m ++ allNodes ((k, p) :: rest)) := by
      simp only [allNodes, flatMap_cons] at a ⊢
      calc m1.flatMap (fun kp => kp.2.nodes) ++ rest.flatMap (fun kp => kp.2.nodes)
          ~ (m.flatMap (fun kp => kp.2.nodes) ++ p.nodes) ++ rest.flatMap (fun kp => kp.2.nodes) := Perm.append_right _ a
        _ ~ m.flatMap (fun kp => kp.2.nodes) ++ (p.nodes ++ rest.flatMap (fun kp => kp.2.nodes)) := by rw [append_assoc]
    exact (this.map Node.label).nodup_iff.2 h

/-! ### loadGraph -/

/-- the load succeeds exactly when all labels are distinct, and then returns all nodes -/
theorem loadGraph_ok_iff (l : List (Bytes × Package)) :
    (∃ ns, loadGraph l = .ok ns) ↔ (labels (allNodes l)).Nodup := by
  constructor
  · rintro ⟨ns, h⟩
    unfold loadGraph mergeAll at h
    split at h
    · cases h
    · rename_i m hm
      have hp := mergeFrom_ok l [] m hm
      simp only [allNodes, flatMap_nil, nil_append] at hp
      have := (nodeMap_nil_ok_iff _ _).1 h
      exact ((hp.map Node.label).nodup_iff).1 this.2
  · intro h
    obtain ⟨m, hm⟩ := mergeFrom_of_nodup l [] (by simpa [allNodes] using h)
    have hp := mergeFrom_ok l [] m hm
    simp only [allNodes, flatMap_nil, nil_append] at hp
    refine ⟨(m.flatMap (fun kp => kp.2.nodes)).reverse, ?_⟩
    unfold loadGraph mergeAll
    simp only [hm]
    exact (nodeMap_nil_ok_iff _ _).2 ⟨rfl, ((hp.map Node.label).nodup_iff).2 h⟩

theorem loadGraph_ok_perm {l : List (Bytes × Package)} {ns : List Node} (h : loadGraph l = .ok ns) :
    ns.Perm (allNodes l) := by
  unfold loadGraph mergeAll at h
  split at h
  · cases h
  · rename_i m hm
    have hp := mergeFrom_ok l [] m hm
    simp only [allNodes, flatMap_nil, nil_append] at hp
    have := (nodeMap_nil_ok_iff _ _).1 h
    rw [this.1]
    exact (reverse_perm _).trans hp

theorem allNodes_perm {l l' : List (Bytes × Package)} (h : l.Perm l') : (allNodes l).Perm (allNodes l') :=
  Perm.flatMap_right _ h

/-! ### whole workspace -/

def isErr (f : Bytes × Except Err Package) : Bool :=
  match f.2 with
  | .error _ => true
  | .ok _ => false

def oks (fs : List (Bytes × Except Err Package)) : List (Bytes × Package) :=
  fs.filterMap (fun f => match f.2 with | .ok p => some (f.1, p) | .error _ => none)

theorem collectOk_spec (fs : List (Bytes × Except Err Package)) :
    (fs.any isErr = true → ∃ e, collectOk fs = .error e) ∧
    (fs.any isErr = false → collectOk fs = .ok (oks fs)) := by
  induction fs with
  | nil => simp [collectOk, oks]
  | cons f rest ih =>
    obtain ⟨k, r⟩ := f
    cases r with
    | error e => simp [collectOk, isErr]
    | ok p =>
      simp only [any_cons, isErr, Bool.false_or, collectOk]
      constructor
      · intro h; obtain ⟨e, he⟩ := ih.1 h; exact ⟨e, by simp [he]⟩
      · intro h; simp [ih.2 h, oks]

/-- outcomes are compared as: both fail, or both succeed with the same nodes -/
def sameOutcome : Except Err (List Node) → Except Err (List Node) → Prop
  | .ok a, .ok b => a.Perm b
  | .error _, .error _ => True
  | _, _ => False

theorem loadGraph_perm {l l' : List (Bytes × Package)} (h : l.Perm l') :
    sameOutcome (loadGraph l) (loadGraph l') := by
  have hn := allNodes_perm h
  have hiff : (labels (allNodes l)).Nodup ↔ (labels (allNodes l')).Nodup := (hn.map Node.label).nodup_iff
  cases h1 : loadGraph l with
  | ok ns =>
    obtain ⟨ns', h2⟩ := (loadGraph_ok_iff l').2 (hiff.1 ((loadGraph_ok_iff l).1 ⟨ns, h1⟩))
    rw [h2]
    exact ((loadGraph_ok_perm h1).trans hn).trans (loadGraph_ok_perm h2).symm
  | error e =>
    cases h2 : loadGraph l' with
    | ok ns' =>
      obtain ⟨ns, h3⟩ := (loadGraph_ok_iff l).2 (hiff.2 ((loadGraph_ok_iff l').1 ⟨ns', h2⟩))
      rw [h3] at h1; cases h1
    | error e' => trivial

theorem loadWorkspace_perm {fs fs' : List (Bytes × Except Err Package)} (h : fs.Perm fs') :
    sameOutcome (loadWorkspace fs) (loadWorkspace fs') := by
  have hany : fs.any isErr = fs'.any isErr := h.any_eq
  unfold loadWorkspace
  cases ha : fs.any isErr with
  | true =>
    obtain ⟨e, he⟩ := (collectOk_spec fs).1 ha
    obtain ⟨e', he'⟩ := (collectOk_spec fs').1 (hany ▸ ha)
    simp [he, he', sameOutcome]
  | false =>
    have he := (collectOk_spec fs).2 ha
    have he' := (collectOk_spec fs').2 (hany ▸ ha)
    simp only [he, he']
    exact loadGraph_perm (h.filterMap _)

end Grog.Loader
