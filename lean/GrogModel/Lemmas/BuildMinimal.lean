/-
  load_outputs=minimal against load_outputs=all: a lock-step simulation of the two modes on the same history.

  `Rel` relates the state `sa` of the build in mode `all` and the state `sm` of the build in mode `minimal` after the
  same prefix of the order: same cache, same log, same statuses up to `loaded`, same workspace off the output paths;
  every finished target of the minimal run is either *loaded* (its outputs in the workspace are those of the `all`
  run) or *restorable* (its stored result validates, all its blobs are in the CAS and its values are what the `all`
  run has in its workspace). `loadDepList` then only restores (it never re-runs anything), which gives the
  dependency outputs at `execTarget` time, and both runs take the same decisions.
  Excluded: lost blobs (`CasOK` must hold at the start of every build) — with a lost blob mode `all` re-executes where
  mode `minimal` still answers from the result record, and `loadDepList` re-runs dependencies.
-/
import GrogModel.Lemmas.BuildInv
set_option linter.unusedSectionVars false
set_option linter.unusedSimpArgs false
set_option linter.unusedVariables false
namespace Grog.Build
open Grog Grog.Exec

variable {κ : Type} [DecidableEq κ]

/-- no lost blobs: every blob a stored result refers to is in the CAS -/
def CasOK (c : Cache κ) : Prop := ∀ k r, c.res k = some r → ∀ ov ∈ r.outs, c.cas ov.2 = true

theorem addBlobs_mono (cas : Val → Bool) (ovs : Outs) (v : Val) (h : cas v = true) : addBlobs cas ovs v = true := by
  induction ovs generalizing cas with
  | nil => exact h
  | cons ov l ih =>
    simp only [addBlobs]
    apply ih
    by_cases hv : v = ov.2
    · simp [upd, hv]
    · simp [upd, hv, h]

theorem addBlobs_mem (cas : Val → Bool) (ovs : Outs) (ov : OutDef × Val) (h : ov ∈ ovs) : addBlobs cas ovs ov.2 = true := by
  induction ovs generalizing cas with
  | nil => simp at h
  | cons a l ih =>
    simp only [addBlobs]
    rcases List.mem_cons.1 h with rfl | h'
    · exact addBlobs_mono _ _ _ (by simp [upd])
    · exact ih _ h'

/-- an execution keeps the CAS complete -/
theorem execTarget_casOK (P : Params κ) (cfg : Cfg) (defs : Defs) (t : Target) (k : κ) (clr : Bool) (s : BState κ)
    (h : CasOK s.cache) : CasOK (execTarget P cfg defs t k clr s).1.cache := by
  cases he : execTarget P cfg defs t k clr s with
  | mk s' ok =>
    cases ok with
    | false => rw [(execTarget_false he).1]; exact h
    | true =>
      obtain ⟨_, _, _, ovs, _, hres, hcas, _, _⟩ := execTarget_true he
      intro k' r hr ov hov
      simp only
      rw [hres] at hr
      rw [hcas]
      by_cases hk : k' = k
      · subst hk
        rw [upd_same] at hr
        simp only [Option.some.injEq] at hr
        subst hr
        simp only [resFor] at hov
        split
        · rename_i hnc; simp [hnc] at hov
        · rename_i hnc; simp [hnc] at hov; exact addBlobs_mem _ _ _ hov
      · rw [upd_other _ _ _ _ hk] at hr
        have := h k' r hr ov hov
        split
        · exact this
        · exact addBlobs_mono _ _ _ this

/-- statuses agree up to `loaded` -/
def StAgree (a m : Option (TStat κ)) : Prop :=
  match a, m with
  | none, none => True
  | some x, some y => x.ok = y.ok ∧ x.key = y.key ∧ x.oh = y.oh
  | _, _ => False

/-- extra well-formedness used for minimal mode: `LoadDependencyOutputs` walks the direct dependencies, each listed once -/
def WFM (defs : Defs) (order : List Lbl) : Prop :=
  ∀ l ∈ order, ∀ t, defs l = some t → t.ldeps = t.deps ∧ t.deps.Nodup

/-- `outP` bounds the output paths: every declared output of the order is in it, no input and no check file is.
    (For a single build take "is a declared output of the order"; for a history, the output paths of all its builds.) -/
structure OutDisc (outP : Path → Prop) (defs : Defs) (order : List Lbl) : Prop where
  outs : ∀ l ∈ order, ∀ t, defs l = some t → ∀ p ∈ outPaths t, outP p
  ins : ∀ l ∈ order, ∀ t, defs l = some t → ∀ p ∈ t.inputs, ¬ outP p
  chk : ∀ l ∈ order, ∀ t, defs l = some t → ∀ c ∈ t.checks, ¬ outP c.1

/-- the simulation relation between the `all` run (`sa`) and the `minimal` run (`sm`) after the prefix `done` -/
structure Rel (P : Params κ) (outP : Path → Prop) (defs : Defs) (sa sm : BState κ) (done : List Lbl) : Prop where
  cache : sa.cache = sm.cache
  log : sa.log = sm.log
  st : ∀ l, StAgree (sa.st l) (sm.st l)
  fsOff : ∀ p, ¬ outP p → sa.fs p = sm.fs p
  keyLbl : ∀ l ∈ done, ∀ m, sm.st l = some m → m.ok = true → ∃ ks : KeyState κ, m.key = some (P.K ks) ∧ ks.label = l
  loaded : ∀ l ∈ done, ∀ m, sm.st l = some m → m.ok = true → m.loaded = true →
      ∀ t, defs l = some t → ∀ p ∈ outPaths t, sm.fs p = sa.fs p
  unloaded : ∀ l ∈ done, ∀ m, sm.st l = some m → m.ok = true → m.loaded = false →
      ∃ t k r, defs l = some t ∧ m.key = some k ∧ sm.cache.res k = some r ∧ m.oh = some r.oh ∧ t.noCache = false ∧
        r.outs.map (·.1) = t.outs ∧ (∀ ov ∈ r.outs, sm.cache.cas ov.2 = true) ∧ (∀ ov ∈ r.outs, sa.fs ov.1.path = some ov.2)

theorem outs_paths_eq {t : Target} {ovs : Outs} (h : ovs.map (·.1) = t.outs) : ovs.map (·.1.path) = outPaths t := by
  rw [outPaths, ← h, List.map_map]; rfl

/-- one iteration of `LoadDependencyOutputs` on a finished dependency: nothing is re-run; an unloaded dependency is restored -/
theorem load_one {P : Params κ} (hro : P.fx.rerunOnce = true) (hlf : P.fx.loadFault = true) {cfg : Cfg} {defs : Defs} {order : List Lbl}
    {outP : Path → Prop} (hwf : WF defs order) (hO : OutDisc outP defs order) {sa sm : BState κ} {pre : List Lbl} (hpo : ∀ d ∈ pre, d ∈ order)
    (d : Lbl) (ds : List Lbl) (n : Nat) (hd : d ∈ pre) (hok : ∃ m, sm.st d = some m ∧ m.ok = true)
    (hR : Rel P outP defs sa sm pre) :
    ∃ s1, loadDepList P cfg defs (n + 1) (d :: ds) sm = loadDepList P cfg defs n ds s1 ∧ Rel P outP defs sa s1 pre ∧
      (∀ l, l ∉ pre → s1.st l = sm.st l) ∧
      (∀ l m, sm.st l = some m → m.ok = true → ∃ m', s1.st l = some m' ∧ m'.ok = true ∧ (m.loaded = true → m'.loaded = true)) ∧
      (∃ m, s1.st d = some m ∧ m.ok = true ∧ m.loaded = true) ∧
      (∀ p, (∀ d' ∈ pre, ∀ t, defs d' = some t → p ∉ outPaths t) → s1.fs p = sm.fs p) := by
  obtain ⟨m, hm, hmok⟩ := hok
  obtain ⟨dt, hdt⟩ := hwf.defined d (hpo d hd)
  have hlab : dt.label = d := hwf.label d dt hdt
  obtain ⟨ks, hkey, _⟩ := hR.keyLbl d hd m hm hmok
  cases hl : m.loaded with
  | true =>
    -- already in the workspace: the state does not change
    refine ⟨sm, ?_, hR, fun _ _ => rfl, fun l m' h1 h2 => ⟨m', h1, h2, fun h => h⟩, ⟨m, hm, hmok, hl⟩, fun _ _ => rfl⟩
    simp only [loadDepList, hdt, hm, hkey]
    cases hres : sm.cache.res (P.K ks) with
    | none => simp [hlf, hl]
    | some r =>
      have : loadOutputs dt r sm = some sm := by simp [loadOutputs, hlab, hm, hl]
      simp [this, hro, hl]
  | false =>
    obtain ⟨t', k, r, ht', hk, hres, hoh, hnc, hmap, hblobs, hvals⟩ := hR.unloaded d hd m hm hmok hl
    rw [hdt] at ht'; simp only [Option.some.injEq] at ht'; subst ht'
    rw [hkey] at hk; simp only [Option.some.injEq] at hk; subst hk
    have hrest : restore dt r sm.cache sm.fs = some (writeOuts sm.fs r.outs) := by
      have hv : validate dt r = true := by simp [validate, hmap]
      have hb : (r.outs.all fun ov => sm.cache.cas ov.2) = true := List.all_eq_true.2 hblobs
      simp [restore, hv, hb]
    let s1 : BState κ := { sm with fs := writeOuts sm.fs r.outs,
                                   st := upd sm.st dt.label (some { m with loaded := true, oh := some r.oh }) }
    have hlo : loadOutputs dt r sm = some s1 := by simp [loadOutputs, hlab, hm, hl, hrest, s1]
    have hpaths : r.outs.map (·.1.path) = outPaths dt := outs_paths_eq hmap
    obtain ⟨_, _, hnod⟩ := hwf.hdeps d (hpo d hd) dt hdt
    have hnod' : (r.outs.map (·.1.path)).Nodup := by rw [hpaths]; exact hnod
    have hfsoff : ∀ p, p ∉ outPaths dt → s1.fs p = sm.fs p := fun p hp => writeOuts_not_mem _ _ _ (by rw [hpaths]; exact hp)
    refine ⟨s1, ?_, ?_, ?_, ?_, ?_, ?_⟩
    · simp [loadDepList, hdt, hm, hkey, hres, hlo, hnc]
    · refine ⟨hR.cache, hR.log, ?_, ?_, ?_, ?_, ?_⟩
      · intro l
        by_cases hld : l = d
        · subst hld
          have h0 := hR.st l
          simp only [s1, hlab, upd_same]
          rw [hm] at h0
          cases hsa : sa.st l with
          | none => rw [hsa] at h0; exact h0
          | some x =>
            rw [hsa] at h0
            exact ⟨h0.1, h0.2.1, by rw [h0.2.2, hoh]⟩
        · simp only [s1, hlab, upd_other _ _ _ _ hld]; exact hR.st l
      · intro p hp
        rw [hfsoff p (fun h => hp (hO.outs d (hpo d hd) dt hdt p h))]; exact hR.fsOff p hp
      · intro l hlpre m' hm' hmok'
        by_cases hld : l = d
        · subst hld
          simp only [s1, hlab, upd_same, Option.some.injEq] at hm'
          subst hm'
          obtain ⟨ks', h1, h2⟩ := hR.keyLbl l hd m hm hmok
          exact ⟨ks', h1, h2⟩
        · simp only [s1, hlab, upd_other _ _ _ _ hld] at hm'
          exact hR.keyLbl l hlpre m' hm' hmok'
      · intro l hlpre m' hm' hmok' hml t ht p hp
        by_cases hld : l = d
        · subst hld
          rw [hdt] at ht; simp only [Option.some.injEq] at ht; subst ht
          rw [← hpaths, List.mem_map] at hp
          obtain ⟨ov, hov, rfl⟩ := hp
          show writeOuts sm.fs r.outs ov.1.path = sa.fs ov.1.path
          rw [writeOuts_get _ _ hnod' ov hov, hvals ov hov]
        · simp only [s1, hlab, upd_other _ _ _ _ hld] at hm'
          have hpd : p ∉ outPaths dt := hwf.outsDisj l (hpo l hlpre) d (hpo d hd) hld t dt ht hdt p hp
          rw [hfsoff p hpd]
          exact hR.loaded l hlpre m' hm' hmok' hml t ht p hp
      · intro l hlpre m' hm' hmok' hml
        by_cases hld : l = d
        · subst hld
          simp only [s1, hlab, upd_same, Option.some.injEq] at hm'
          subst hm'
          simp at hml
        · simp only [s1, hlab, upd_other _ _ _ _ hld] at hm'
          exact hR.unloaded l hlpre m' hm' hmok' hml
    · intro l hl'
      have : l ≠ d := fun e => hl' (e ▸ hd)
      simp only [s1, hlab, upd_other _ _ _ _ this]
    · intro l m' h1 h2
      by_cases hld : l = d
      · subst hld
        rw [hm] at h1; simp only [Option.some.injEq] at h1; subst h1
        exact ⟨{ m with loaded := true, oh := some r.oh }, by simp only [s1, hlab, upd_same], hmok, fun _ => rfl⟩
      · exact ⟨m', by simp only [s1, hlab, upd_other _ _ _ _ hld]; exact h1, h2, fun h => h⟩
    · exact ⟨{ m with loaded := true, oh := some r.oh }, by simp only [s1, hlab, upd_same], hmok, rfl⟩
    · intro p hp
      exact hfsoff p (hp d hd dt hdt)

/-- **`loadDepList` on finished dependencies, no lost blobs**: with fuel ≥ the length of the list it succeeds, re-runs
    nothing, keeps cache and log, and leaves every listed dependency loaded — the relation to the `all` run is kept, so
    the loaded outputs are exactly the ones the `all` run has in its workspace. -/
theorem loadDepList_restores {P : Params κ} (hro : P.fx.rerunOnce = true) (hlf : P.fx.loadFault = true) {cfg : Cfg} {defs : Defs}
    {order : List Lbl} {outP : Path → Prop} (hwf : WF defs order) (hO : OutDisc outP defs order) {sa : BState κ} {pre : List Lbl}
    (hpo : ∀ d ∈ pre, d ∈ order) :
    ∀ (ds : List Lbl) (fuel : Nat) (sm : BState κ), ds.length ≤ fuel → (∀ d ∈ ds, d ∈ pre) →
      (∀ d ∈ ds, ∃ m, sm.st d = some m ∧ m.ok = true) → Rel P outP defs sa sm pre →
      ∃ sm1, loadDepList P cfg defs fuel ds sm = (sm1, true) ∧ Rel P outP defs sa sm1 pre ∧
        (∀ l, l ∉ pre → sm1.st l = sm.st l) ∧
        (∀ l m, sm.st l = some m → m.ok = true → ∃ m', sm1.st l = some m' ∧ m'.ok = true ∧ (m.loaded = true → m'.loaded = true)) ∧
        (∀ d ∈ ds, ∃ m, sm1.st d = some m ∧ m.ok = true ∧ m.loaded = true) ∧
        (∀ p, (∀ d' ∈ pre, ∀ t, defs d' = some t → p ∉ outPaths t) → sm1.fs p = sm.fs p) := by
  intro ds
  induction ds with
  | nil =>
    intro fuel sm _ _ _ hR
    refine ⟨sm, ?_, hR, fun _ _ => rfl, fun l m h1 h2 => ⟨m, h1, h2, fun h => h⟩, fun d hd => by simp at hd, fun _ _ => rfl⟩
    cases fuel <;> simp [loadDepList]
  | cons d ds ih =>
    intro fuel sm hf hin hok hR
    cases fuel with
    | zero => simp at hf
    | succ n =>
      obtain ⟨s1, he, hR1, hst1, hmono1, hd1, hfs1⟩ :=
        load_one hro hlf (cfg := cfg) hwf hO hpo d ds n (hin d (by simp)) (hok d (by simp)) hR
      have hok1 : ∀ d' ∈ ds, ∃ m, s1.st d' = some m ∧ m.ok = true := by
        intro d' hd'
        obtain ⟨m, h1, h2⟩ := hok d' (by simp [hd'])
        obtain ⟨m', h3, h4, _⟩ := hmono1 d' m h1 h2
        exact ⟨m', h3, h4⟩
      obtain ⟨sm1, he2, hR2, hst2, hmono2, hd2, hfs2⟩ :=
        ih n s1 (by simp at hf; omega) (fun d' hd' => hin d' (by simp [hd'])) hok1 hR1
      refine ⟨sm1, by rw [he, he2], hR2, fun l hl => by rw [hst2 l hl, hst1 l hl], ?_, ?_, fun p hp => by rw [hfs2 p hp, hfs1 p hp]⟩
      · intro l m h1 h2
        obtain ⟨m', h3, h4, h5⟩ := hmono1 l m h1 h2
        obtain ⟨m'', h6, h7, h8⟩ := hmono2 l m' h3 h4
        exact ⟨m'', h6, h7, fun h => h8 (h5 h)⟩
      · intro d' hd'
        rcases List.mem_cons.1 hd' with rfl | hd'
        · obtain ⟨m, h1, h2, h3⟩ := hd1
          obtain ⟨m', h4, h5, h6⟩ := hmono2 d' m h1 h2
          exact ⟨m', h4, h5, h6 h3⟩
        · exact hd2 d' hd'

/-! ### both modes read the same statuses, keys and gates -/

theorem depsOk_agree {sa sm : Lbl → Option (TStat κ)} (h : ∀ l, StAgree (sa l) (sm l)) (deps : List Lbl) :
    depsOk sa deps = depsOk sm deps := by
  unfold depsOk
  apply all_congr_mem
  intro d _
  have := h d
  cases ha : sa d <;> cases hm : sm d <;> simp [StAgree, ha, hm] at this ⊢
  exact this.1

theorem depOhs_agree {sa sm : Lbl → Option (TStat κ)} (h : ∀ l, StAgree (sa l) (sm l)) (deps : List Lbl) :
    depOhs sa deps = depOhs sm deps := by
  induction deps with
  | nil => rfl
  | cons d ds ih =>
    have hd : ohOf sa d = ohOf sm d := by
      have := h d
      unfold ohOf
      cases ha : sa d <;> cases hm : sm d <;> simp [StAgree, ha, hm] at this ⊢
      exact this.2.2
    simp only [depOhs, hd, ih]

theorem buildTarget_depFailed (P : Params κ) (cfg : Cfg) (defs : Defs) (fuel : Nat) (t : Target) (s : BState κ)
    (h : depsOk s.st t.deps = false) : buildTargetNoPre P cfg defs fuel t s = failT s t.label := by
  simp [buildTargetNoPre, h]

theorem buildTarget_noHash (P : Params κ) (cfg : Cfg) (defs : Defs) (fuel : Nat) (t : Target) (s : BState κ)
    (h : depsOk s.st t.deps = true) (h2 : depOhs s.st t.hdeps = none) : buildTargetNoPre P cfg defs fuel t s = failT s t.label := by
  simp [buildTargetNoPre, h, h2]

theorem buildTarget_hit (P : Params κ) (cfg : Cfg) (defs : Defs) (fuel : Nat) (t : Target) (s s' : BState κ) (ohs : List (OH κ))
    (h : depsOk s.st t.deps = true) (h2 : depOhs s.st t.hdeps = some ohs)
    (h3 : tryHit P cfg t (P.K (keyState t s.fs ohs)) s = some s') : buildTargetNoPre P cfg defs fuel t s = s' := by
  simp [buildTargetNoPre, h, h2, h3]

theorem buildTarget_min_exec (P : Params κ) (cfg : Cfg) (defs : Defs) (fuel : Nat) (t : Target) (s s1 : BState κ) (ohs : List (OH κ))
    (hm : cfg.minimal = true) (h : depsOk s.st t.deps = true) (h2 : depOhs s.st t.hdeps = some ohs)
    (h3 : tryHit P cfg t (P.K (keyState t s.fs ohs)) s = none) (hl : loadDepList P cfg defs fuel t.ldeps s = (s1, true)) :
    buildTargetNoPre P cfg defs fuel t s =
      (if (execTarget P cfg defs t (P.K (keyState t s.fs ohs)) (s.cache.taint t.label) s1).2 = true
        then (execTarget P cfg defs t (P.K (keyState t s.fs ohs)) (s.cache.taint t.label) s1).1
        else failT (execTarget P cfg defs t (P.K (keyState t s.fs ohs)) (s.cache.taint t.label) s1).1 t.label) := by
  simp only [buildTargetNoPre, h, h2, h3, hm, hl, ↓reduceIte, Bool.true_eq_false, Bool.not_true, Bool.false_eq_true]

/-- `execTarget` does not look at `cfg.minimal` -/
theorem execTarget_mode (P : Params κ) (cfg : Cfg) (m : Bool) (defs : Defs) (t : Target) (k : κ) (clr : Bool) (s : BState κ) :
    execTarget P { cfg with minimal := m } defs t k clr s = execTarget P cfg defs t k clr s := by
  unfold execTarget; rfl

/-- whether an execution succeeds -/
theorem execTarget_snd (P : Params κ) (cfg : Cfg) (defs : Defs) (t : Target) (k : κ) (clr : Bool) (s : BState κ) :
    (execTarget P cfg defs t k clr s).2 =
      ((P.run t.cmd (viewAt defs t s.fs)).exit0 && checksPass (fsAfter P defs t s.fs) t.checks && (collect (fsAfter P defs t s.fs) t.outs).isSome) := by
  unfold execTarget fsAfter
  simp only
  split
  · rename_i h; simp [h]
  · rename_i h
    have h' : (P.run t.cmd (viewAt defs t s.fs)).exit0 = true := by simpa using h
    split
    · rename_i h2; simp [h', h2]
    · rename_i h2
      have h2' : checksPass (writeSets (writeOuts s.fs (P.run t.cmd (viewAt defs t s.fs)).outs) (P.run t.cmd (viewAt defs t s.fs)).sets) t.checks = true := by simpa using h2
      split
      · rename_i h3; simp [h', h2', h3]
      · rename_i ovs h3; simp [h', h2', h3]

theorem cache_ext {a b : Cache κ} (h1 : a.res = b.res) (h2 : a.cas = b.cas) (h3 : a.taint = b.taint) : a = b := by
  cases a; cases b; simp only at h1 h2 h3; subst h1; subst h2; subst h3; rfl

/-- re-establishing the relation after the target `l` has been processed by both runs; `sm1` is the minimal state after
    the dependency outputs were loaded (or `sm` itself) -/
theorem rel_finish {P : Params κ} (hG : Good P) {defs : Defs} {order : List Lbl} {outP : Path → Prop} (hwf : WF defs order)
    (hO : OutDisc outP defs order) {pre : List Lbl} {l : Lbl} {suf : List Lbl} (ho : order = pre ++ l :: suf) {t : Target} (ht : defs l = some t)
    {sa sm1 sa' sm' : BState κ} (hR : Rel P outP defs sa sm1 pre) (xa xm : TStat κ)
    (hc : sa'.cache = sm'.cache) (hlog : sa'.log = sm'.log)
    (hsta : sa'.st = upd sa.st l (some xa)) (hstm : sm'.st = upd sm1.st l (some xm))
    (hx : xa.ok = xm.ok ∧ xa.key = xm.key ∧ xa.oh = xm.oh)
    (hfa : ∀ p, p ∉ outPaths t → sa'.fs p = sa.fs p) (hfm : ∀ p, p ∉ outPaths t → sm'.fs p = sm1.fs p)
    (hres : ∀ k r, (∀ ks : KeyState κ, k = P.K ks → ks.label ≠ l) → sm1.cache.res k = some r → sm'.cache.res k = some r)
    (hcasm : ∀ v, sm1.cache.cas v = true → sm'.cache.cas v = true)
    (hkey : xm.ok = true → ∃ ks : KeyState κ, xm.key = some (P.K ks) ∧ ks.label = l)
    (hld : xm.ok = true → xm.loaded = true → ∀ p ∈ outPaths t, sm'.fs p = sa'.fs p)
    (hun : xm.ok = true → xm.loaded = false → ∃ k r, xm.key = some k ∧ sm'.cache.res k = some r ∧ xm.oh = some r.oh ∧ t.noCache = false ∧
        r.outs.map (·.1) = t.outs ∧ (∀ ov ∈ r.outs, sm'.cache.cas ov.2 = true) ∧ (∀ ov ∈ r.outs, sa'.fs ov.1.path = some ov.2)) :
    Rel P outP defs sa' sm' (pre ++ [l]) := by
  have hlo : l ∈ order := by rw [ho]; simp
  have hpo : ∀ d ∈ pre, d ∈ order := fun d hd => by rw [ho]; simp [hd]
  have hnd := hwf.nodup; rw [ho] at hnd
  have hlpre : l ∉ pre := fun h => by
    have := (List.nodup_append.1 hnd).2.2 l h l (by simp); exact this rfl
  have hne : ∀ l' ∈ pre, l' ≠ l := fun l' h e => hlpre (e ▸ h)
  have hdisj : ∀ l' ∈ pre, ∀ t', defs l' = some t' → ∀ p ∈ outPaths t', p ∉ outPaths t :=
    fun l' hl' t' ht' p hp => hwf.outsDisj l' (hpo l' hl') l hlo (hne l' hl') t' t ht' ht p hp
  refine ⟨hc, hlog, ?_, ?_, ?_, ?_, ?_⟩
  · intro l'
    by_cases e : l' = l
    · subst e; rw [hsta, hstm, upd_same, upd_same]; exact hx
    · rw [hsta, hstm, upd_other _ _ _ _ e, upd_other _ _ _ _ e]; exact hR.st l'
  · intro p hp
    have hpt : p ∉ outPaths t := fun h => hp (hO.outs l hlo t ht p h)
    rw [hfa p hpt, hfm p hpt]; exact hR.fsOff p hp
  · intro l' hl' m hm hmok
    rcases List.mem_append.1 hl' with hl' | hl'
    · rw [hstm, upd_other _ _ _ _ (hne l' hl')] at hm
      exact hR.keyLbl l' hl' m hm hmok
    · simp only [List.mem_singleton] at hl'; subst hl'
      rw [hstm, upd_same] at hm; simp only [Option.some.injEq] at hm; subst hm
      exact hkey hmok
  · intro l' hl' m hm hmok hml t' ht' p hp
    rcases List.mem_append.1 hl' with hl' | hl'
    · rw [hstm, upd_other _ _ _ _ (hne l' hl')] at hm
      have hpt := hdisj l' hl' t' ht' p hp
      rw [hfm p hpt, hfa p hpt]
      exact hR.loaded l' hl' m hm hmok hml t' ht' p hp
    · simp only [List.mem_singleton] at hl'; subst hl'
      rw [hstm, upd_same] at hm; simp only [Option.some.injEq] at hm; subst hm
      rw [ht] at ht'; simp only [Option.some.injEq] at ht'; subst ht'
      exact hld hmok hml p hp
  · intro l' hl' m hm hmok hml
    rcases List.mem_append.1 hl' with hl' | hl'
    · rw [hstm, upd_other _ _ _ _ (hne l' hl')] at hm
      obtain ⟨t', k, r, ht', hk, hr, hoh, hnc, hmap, hbl, hvals⟩ := hR.unloaded l' hl' m hm hmok hml
      obtain ⟨ks, hks, hkl⟩ := hR.keyLbl l' hl' m hm hmok
      rw [hk] at hks; simp only [Option.some.injEq] at hks
      refine ⟨t', k, r, ht', hk, ?_, hoh, hnc, hmap, fun ov hov => hcasm _ (hbl ov hov), ?_⟩
      · apply hres k r _ hr
        intro ks' hks' e
        have : ks = ks' := hG.inj ks ks' (by rw [← hks, ← hks'])
        subst this
        exact hne l' hl' (hkl ▸ e)
      · intro ov hov
        have hp : ov.1.path ∈ outPaths t' := by rw [← outs_paths_eq hmap]; exact List.mem_map.2 ⟨ov, hov, rfl⟩
        rw [hfa _ (hdisj l' hl' t' ht' _ hp)]
        exact hvals ov hov
    · simp only [List.mem_singleton] at hl'; subst hl'
      rw [hstm, upd_same] at hm; simp only [Option.some.injEq] at hm; subst hm
      obtain ⟨k, r, h1, h2, h3, h4, h5, h6, h7⟩ := hun hmok hml
      exact ⟨t, k, r, ht, h1, h2, h3, h4, h5, h6, h7⟩

/-- a hit of mode `all` is a hit of mode `minimal` (same cache, same gates) -/
theorem tryHit_min_some {P : Params κ} {cfg : Cfg} {t : Target} {k : κ} {s : BState κ} {r : Result κ} (hm : cfg.minimal = true)
    (hres : s.cache.res k = some r) (htaint : s.cache.taint t.label = false) (hnc : t.noCache = false) (hec : cfg.enableCache = true)
    (hchk : checksPass s.fs t.checks = true ∨ P.fx.gateChecks = false) (hv : r.outs.map (·.1) = t.outs) :
    tryHit P cfg t k s = some { s with st := upd s.st t.label (some { ok := true, key := some k, oh := some r.oh, loaded := false }) } := by
  have hval : validate t r = true := by simp [validate, hv]
  have hg : (checksPass s.fs t.checks || !P.fx.gateChecks) = true := by
    rcases hchk with h | h <;> simp [h]
  simp [tryHit, hres, htaint, hnc, hec, hg, hm, hval]

/-- a miss of mode `all` is a miss of mode `minimal` when no blob is lost -/
theorem tryHit_min_none {P : Params κ} (hfx : P.fx.minValidate = true) {cfg : Cfg} {t : Target} {k : κ} {sa sm : BState κ}
    (hc : sa.cache = sm.cache) (hchk : checksPass sa.fs t.checks = checksPass sm.fs t.checks) (hcas : CasOK sa.cache)
    (h : tryHit P { cfg with minimal := false } t k sa = none) : tryHit P { cfg with minimal := true } t k sm = none := by
  unfold tryHit at h ⊢
  rw [← hc, ← hchk]
  cases hr : sa.cache.res k with
  | none => rfl
  | some r =>
    simp only [hr] at h ⊢
    split
    · rename_i hg
      simp only [hg, ↓reduceIte, Bool.false_eq_true] at h
      simp only [↓reduceIte, hfx, Bool.not_true, Bool.or_false]
      have hb : (r.outs.all fun ov => sa.cache.cas ov.2) = true := List.all_eq_true.2 (hcas k r hr)
      cases hv : validate t r with
      | false => simp
      | true => simp [restore, hv, hb] at h
    · rfl

/-- the workspace after the command ran: what it wrote at its outputs, everything else untouched -/
theorem fsAfter_off {P : Params κ} (hG : Good P) (defs : Defs) (t : Target) (fs : FS) (hw : t.cmd.writes = t.outs) (p : Path)
    (hp : p ∉ outPaths t) (hx : (P.run t.cmd (viewAt defs t fs)).exit0 = true) : fsAfter P defs t fs p = fs p := by
  rw [fsAfter_eq_fsA]; exact fsA_off hG defs t fs hw p hp hx

theorem fsAfter_agree {P : Params κ} (hG : Good P) (defs : Defs) (t : Target) (fs fs' : FS) (hw : t.cmd.writes = t.outs)
    (hv : viewAt defs t fs = viewAt defs t fs') (hx : (P.run t.cmd (viewAt defs t fs)).exit0 = true) (p : Path) (hp : p ∈ outPaths t) :
    fsAfter P defs t fs p = fsAfter P defs t fs' p := by
  rw [fsAfter_eq_fsA, fsAfter_eq_fsA, fsA_eq hG, fsA_eq hG, ← hv]
  apply writeOuts_agree
  have := hG.complete _ _ hx
  rw [hw] at this
  rw [outPaths, ← this, List.map_map] at hp
  exact hp

/-- two states that show the command the same view and agree at the check paths: the execution succeeds in one iff in the other -/
theorem exec_snd_agree {P : Params κ} (hG : Good P) (cfg : Cfg) (defs : Defs) (t : Target) (k : κ) (clr : Bool) (s1 s2 : BState κ)
    (hw : t.cmd.writes = t.outs) (hv : viewAt defs t s1.fs = viewAt defs t s2.fs)
    (hchk : ∀ c ∈ t.checks, c.1 ∉ outPaths t ∧ s1.fs c.1 = s2.fs c.1) :
    (execTarget P cfg defs t k clr s1).2 = (execTarget P cfg defs t k clr s2).2 := by
  rw [execTarget_snd, execTarget_snd, hv]
  cases hx : (P.run t.cmd (viewAt defs t s2.fs)).exit0 with
  | false => simp
  | true =>
    have hx1 : (P.run t.cmd (viewAt defs t s1.fs)).exit0 = true := by rw [hv]; exact hx
    have h1 : checksPass (fsAfter P defs t s1.fs) t.checks = checksPass (fsAfter P defs t s2.fs) t.checks := by
      apply checksPass_congr
      intro c hc
      rw [fsAfter_off hG defs t s1.fs hw _ (hchk c hc).1 hx1, fsAfter_off hG defs t s2.fs hw _ (hchk c hc).1 hx]
      exact (hchk c hc).2
    have h2 : collect (fsAfter P defs t s1.fs) t.outs = collect (fsAfter P defs t s2.fs) t.outs := by
      apply collect_congr
      intro o ho
      exact fsAfter_agree hG defs t s1.fs s2.fs hw hv hx1 o.path (List.mem_map.2 ⟨o, ho, rfl⟩)
    rw [h1, h2]

/-- the step of the simulation, after the optional pre-loading of dependency outputs for output checks -/
theorem step_rel_core {P : Params κ} (hG : Good P) (hfx : P.fx.minValidate = true) (hro : P.fx.rerunOnce = true) (hlf : P.fx.loadFault = true)
    (cfg : Cfg) {defs : Defs} {order : List Lbl} {outP : Path → Prop} (hwf : WF defs order) (hwm : WFM defs order)
    (hO : OutDisc outP defs order) (fuelA fuelM : Nat)
    (pre : List Lbl) (l : Lbl) (suf : List Lbl) (ho : order = pre ++ l :: suf) (t : Target) (ht : defs l = some t)
    (hfuel : t.ldeps.length ≤ fuelM) {sa sm : BState κ} (hcas : CasOK sa.cache) (hR : Rel P outP defs sa sm pre) :
    Rel P outP defs (buildTarget P { cfg with minimal := false } defs fuelA t sa)
        (buildTargetNoPre P { cfg with minimal := true } defs fuelM t sm) (pre ++ [l]) ∧
      CasOK (buildTarget P { cfg with minimal := false } defs fuelA t sa).cache := by
  have hlo : l ∈ order := by rw [ho]; simp
  have hpo : ∀ d ∈ pre, d ∈ order := fun d hd => by rw [ho]; simp [hd]
  have hlab : t.label = l := hwf.label l t ht
  obtain ⟨hhd, hwr, hnod⟩ := hwf.hdeps l hlo t ht
  obtain ⟨hld, hdn⟩ := hwm l hlo t ht
  have hdeps : ∀ d ∈ t.deps, d ∈ pre := hwf.topo pre l suf ho t ht
  have hnd := hwf.nodup; rw [ho] at hnd
  have hlpre : l ∉ pre := fun h => by
    have := (List.nodup_append.1 hnd).2.2 l h l (by simp); exact this rfl
  -- what both runs read is the same
  have hdo : depsOk sa.st t.deps = depsOk sm.st t.deps := depsOk_agree hR.st _
  have hoh : depOhs sa.st t.hdeps = depOhs sm.st t.hdeps := depOhs_agree hR.st _
  have hin : ∀ p ∈ t.inputs, sa.fs p = sm.fs p := fun p hp =>
    hR.fsOff p (hO.ins l hlo t ht p hp)
  have hks : ∀ ohs : List (OH κ), keyState t sm.fs ohs = keyState t sa.fs ohs := by
    intro ohs
    simp only [keyState]
    congr 1
    apply List.map_congr_left
    intro p hp; rw [hin p hp]
  have hck : checksPass sa.fs t.checks = checksPass sm.fs t.checks :=
    checksPass_congr (fun c hc => hR.fsOff c.1 (hO.chk l hlo t ht c hc))
  have hfailst : (failStat : TStat κ).ok = (failStat : TStat κ).ok ∧ (failStat : TStat κ).key = (failStat : TStat κ).key ∧
      (failStat : TStat κ).oh = (failStat : TStat κ).oh := ⟨rfl, rfl, rfl⟩
  -- a miss in mode `all`: mode `minimal` misses too, loads the dependency outputs (nothing is re-run) and then sees the same view
  have common : ∀ ohs : List (OH κ), depsOk sa.st t.deps = true → depOhs sa.st t.hdeps = some ohs →
      tryHit P { cfg with minimal := false } t (P.K (keyState t sa.fs ohs)) sa = none →
      ∃ sm1, Rel P outP defs sa sm1 pre ∧ sm1.st l = sm.st l ∧ viewAt defs t sm1.fs = viewAt defs t sa.fs ∧
        (∀ c ∈ t.checks, c.1 ∉ outPaths t ∧ sm1.fs c.1 = sa.fs c.1) ∧
        buildTargetNoPre P { cfg with minimal := true } defs fuelM t sm =
          (if (execTarget P cfg defs t (P.K (keyState t sa.fs ohs)) (sa.cache.taint t.label) sm1).2 = true
            then (execTarget P cfg defs t (P.K (keyState t sa.fs ohs)) (sa.cache.taint t.label) sm1).1
            else failT (execTarget P cfg defs t (P.K (keyState t sa.fs ohs)) (sa.cache.taint t.label) sm1).1 t.label) := by
    intro ohs h h2 h3
    have hsmok : ∀ d ∈ t.ldeps, ∃ m, sm.st d = some m ∧ m.ok = true := by
      intro d hd; rw [hld] at hd
      exact depsOk_mem (by rw [← hdo]; exact h) d hd
    obtain ⟨sm1, hload, hR1, hst1, hmono, hloaded, hfs1⟩ :=
      loadDepList_restores hro hlf (cfg := { cfg with minimal := true }) hwf hO hpo t.ldeps fuelM sm hfuel
        (fun d hd => hdeps d (by rw [← hld]; exact hd)) hsmok hR
    have hmiss : tryHit P { cfg with minimal := true } t (P.K (keyState t sm.fs ohs)) sm = none := by
      rw [hks]; exact tryHit_min_none hfx hR.cache hck hcas h3
    refine ⟨sm1, hR1, hst1 l hlpre, ?_, ?_, ?_⟩
    · unfold viewAt
      congr 1
      · apply List.map_congr_left
        intro p hp
        rw [hR1.fsOff p (hO.ins l hlo t ht p hp)]
      · apply List.map_congr_left
        intro p hp
        simp only [List.mem_flatMap] at hp
        obtain ⟨d, hdm, hpd⟩ := hp
        obtain ⟨m, hm1, hm2, hm3⟩ := hloaded d (by rw [hld]; exact hdm)
        cases hdt : defs d with
        | none => simp [outPathsOf, hdt] at hpd
        | some dt =>
          have : p ∈ outPaths dt := by simpa [outPathsOf, hdt, outPaths] using hpd
          rw [hR1.loaded d (hdeps d hdm) m hm1 hm2 hm3 dt hdt p this]
    · intro c hc
      exact ⟨hwf.checksOff l hlo t ht l hlo t ht c hc,
        (hR1.fsOff c.1 (hO.chk l hlo t ht c hc)).symm⟩
    · rw [buildTarget_min_exec P _ defs fuelM t sm sm1 ohs rfl (by rw [← hdo]; exact h) (by rw [← hoh]; exact h2) hmiss hload]
      rw [hks, execTarget_mode, ← hR.cache]
  have hcase := buildTarget_all P { cfg with minimal := false } defs fuelA t sa rfl
  cases hcase with
  | depFailed h e =>
    rw [e, buildTarget_depFailed P _ defs fuelM t sm (by rw [← hdo]; exact h)]
    refine ⟨rel_finish hG hwf hO ho ht hR failStat failStat hR.cache hR.log (by rw [← hlab]; rfl) (by rw [← hlab]; rfl) hfailst
      (fun _ _ => rfl) (fun _ _ => rfl) (fun _ _ _ h => h) (fun _ h => h)
      (fun h => by simp [failStat] at h) (fun h => by simp [failStat] at h) (fun h => by simp [failStat] at h), hcas⟩
  | noHash h h2 e =>
    rw [e, buildTarget_noHash P _ defs fuelM t sm (by rw [← hdo]; exact h) (by rw [← hoh]; exact h2)]
    refine ⟨rel_finish hG hwf hO ho ht hR failStat failStat hR.cache hR.log (by rw [← hlab]; rfl) (by rw [← hlab]; rfl) hfailst
      (fun _ _ => rfl) (fun _ _ => rfl) (fun _ _ _ h => h) (fun _ h => h)
      (fun h => by simp [failStat] at h) (fun h => by simp [failStat] at h) (fun h => by simp [failStat] at h), hcas⟩
  | hit ohs h h2 e =>
    obtain ⟨r, fs', hr, htaint, hnc, hec, hchk, hrest, hs1⟩ := tryHit_all_some rfl e
    obtain ⟨hmap, hblobs, hfs'⟩ := restore_some hrest
    have hpaths : r.outs.map (·.1.path) = outPaths t := outs_paths_eq hmap
    have hnod' : (r.outs.map (·.1.path)).Nodup := by rw [hpaths]; exact hnod
    have hmin : tryHit P { cfg with minimal := true } t (P.K (keyState t sm.fs ohs)) sm =
        some { sm with st := upd sm.st t.label (some { ok := true, key := some (P.K (keyState t sm.fs ohs)), oh := some r.oh, loaded := false }) } := by
      apply tryHit_min_some rfl
      · rw [hks, ← hR.cache]; exact hr
      · rw [← hR.cache]; exact htaint
      · exact hnc
      · exact hec
      · rcases hchk with h' | h'
        · exact Or.inl (by rw [← hck]; exact h')
        · exact Or.inr h'
      · exact hmap
    rw [buildTarget_hit P _ defs fuelM t sm _ ohs (by rw [← hdo]; exact h) (by rw [← hoh]; exact h2) hmin, hs1]
    rw [hks]
    refine ⟨rel_finish hG hwf hO ho ht hR
      { ok := true, key := some (P.K (keyState t sa.fs ohs)), oh := some r.oh, loaded := true }
      { ok := true, key := some (P.K (keyState t sa.fs ohs)), oh := some r.oh, loaded := false }
      hR.cache hR.log (by rw [← hlab]) (by rw [← hlab]) ⟨rfl, rfl, rfl⟩
      (fun p hp => by show fs' p = sa.fs p; rw [hfs']; exact writeOuts_not_mem _ _ _ (by rw [hpaths]; exact hp))
      (fun _ _ => rfl) (fun _ _ _ h => h) (fun _ h => h)
      (fun _ => ⟨keyState t sa.fs ohs, rfl, by simp [keyState, hlab]⟩) (fun _ h => by simp at h) ?_, hcas⟩
    intro _ _
    refine ⟨P.K (keyState t sa.fs ohs), r, rfl, by show sm.cache.res _ = some r; rw [← hR.cache]; exact hr, rfl, hnc, hmap,
      fun ov hov => by show sm.cache.cas ov.2 = true; rw [← hR.cache]; exact hblobs ov hov, ?_⟩
    intro ov hov
    show fs' ov.1.path = some ov.2
    rw [hfs']; exact writeOuts_get _ _ hnod' ov hov
  | ran ohs h h2 h3 e =>
    obtain ⟨sm1, hR1, hstl, hview, hchk, hbt⟩ := common ohs h h2 h3
    rw [execTarget_mode] at e
    have hsnd := exec_snd_agree hG cfg defs t (P.K (keyState t sa.fs ohs)) (sa.cache.taint t.label) sm1 sa hwr hview hchk
    rw [e] at hsnd
    cases hX : execTarget P cfg defs t (P.K (keyState t sa.fs ohs)) (sa.cache.taint t.label) sm1 with
    | mk sm2 b =>
      rw [hX] at hsnd hbt
      simp only at hsnd; subst hsnd
      simp only [↓reduceIte] at hbt
      rw [hbt]
      obtain ⟨hxa, hfsa, _, ovsa, hcola, hresa, hcasa, htaa, hsta⟩ := execTarget_true e
      obtain ⟨hxm, hfsm, _, ovsm, hcolm, hresm, hcasm, htam, hstm⟩ := execTarget_true hX
      have hag : ∀ p ∈ outPaths t, sm2.fs p = (buildTarget P { cfg with minimal := false } defs fuelA t sa).fs p := by
        intro p hp
        rw [hfsm, hfsa]; exact fsAfter_agree hG defs t sm1.fs sa.fs hwr hview hxm p hp
      have hovs : ovsm = ovsa := by
        have : collect sm2.fs t.outs = collect (buildTarget P { cfg with minimal := false } defs fuelA t sa).fs t.outs :=
          collect_congr (fun o ho => hag o.path (List.mem_map.2 ⟨o, ho, rfl⟩))
        rw [hcolm, hcola] at this
        simpa using this
      subst hovs
      have hcache : (buildTarget P { cfg with minimal := false } defs fuelA t sa).cache = sm2.cache := by
        apply cache_ext
        · rw [hresa, hresm, hR1.cache]
        · rw [hcasa, hcasm, hR1.cache]
        · rw [htaa, htam, hR1.cache]
      refine ⟨rel_finish hG hwf hO ho ht hR1 _ _ hcache ?_ (by rw [hsta, hlab]) (by rw [hstm, hlab]) ⟨rfl, rfl, rfl⟩
        (fun p hp => by rw [hfsa]; exact fsAfter_off hG defs t sa.fs hwr p hp hxa)
        (fun p hp => by rw [hfsm]; exact fsAfter_off hG defs t sm1.fs hwr p hp hxm) ?_ ?_
        (fun _ => ⟨keyState t sa.fs ohs, rfl, by simp [keyState, hlab]⟩) (fun _ _ p hp => hag p hp) (fun _ h' => by simp at h'), ?_⟩
      · have h1 := execTarget_log P cfg defs t (P.K (keyState t sa.fs ohs)) (sa.cache.taint t.label) sa
        have h2' := execTarget_log P cfg defs t (P.K (keyState t sa.fs ohs)) (sa.cache.taint t.label) sm1
        rw [e] at h1; rw [hX] at h2'
        simp only at h1 h2'
        rw [h1, h2', hR1.log]
      · intro k' r' hlabne hr'
        rw [hresm]
        have : k' ≠ P.K (keyState t sa.fs ohs) := fun e' => hlabne _ e' (by simp [keyState, hlab])
        rw [upd_other _ _ _ _ this]; exact hr'
      · intro v hv
        rw [hcasm]
        split
        · exact hv
        · exact addBlobs_mono _ _ _ hv
      · have := execTarget_casOK P cfg defs t (P.K (keyState t sa.fs ohs)) (sa.cache.taint t.label) sa hcas
        rw [e] at this; exact this
  | failed ohs s2 h h2 h3 e e2 =>
    obtain ⟨sm1, hR1, hstl, hview, hchk, hbt⟩ := common ohs h h2 h3
    rw [execTarget_mode] at e
    have hsnd := exec_snd_agree hG cfg defs t (P.K (keyState t sa.fs ohs)) (sa.cache.taint t.label) sm1 sa hwr hview hchk
    rw [e] at hsnd
    cases hX : execTarget P cfg defs t (P.K (keyState t sa.fs ohs)) (sa.cache.taint t.label) sm1 with
    | mk sm2 b =>
      rw [hX] at hsnd hbt
      simp only at hsnd; subst hsnd
      simp only [Bool.false_eq_true, ↓reduceIte] at hbt
      rw [hbt, e2]
      obtain ⟨hca, hsta, _⟩ := execTarget_false e
      obtain ⟨hcm, hstm, _⟩ := execTarget_false hX
      have hfa := execTarget_fs P cfg defs t (P.K (keyState t sa.fs ohs)) (sa.cache.taint t.label) sa
      have hfm := execTarget_fs P cfg defs t (P.K (keyState t sa.fs ohs)) (sa.cache.taint t.label) sm1
      rw [e] at hfa; rw [hX] at hfm
      simp only at hfa hfm
      refine ⟨rel_finish hG hwf hO ho ht hR1 failStat failStat ?_ ?_ (by simp only [failT]; rw [hsta, hlab]) (by simp only [failT]; rw [hstm, hlab]) hfailst
        ?_ ?_ (fun k' r' _ hr' => by show sm2.cache.res k' = some r'; rw [hcm]; exact hr') (fun v hv => by show sm2.cache.cas v = true; rw [hcm]; exact hv)
        (fun h' => by simp [failStat] at h') (fun h' => by simp [failStat] at h') (fun h' => by simp [failStat] at h'), ?_⟩
      · show s2.cache = sm2.cache
        rw [hca, hcm, hR1.cache]
      · show s2.log = sm2.log
        have h1 := execTarget_log P cfg defs t (P.K (keyState t sa.fs ohs)) (sa.cache.taint t.label) sa
        have h2' := execTarget_log P cfg defs t (P.K (keyState t sa.fs ohs)) (sa.cache.taint t.label) sm1
        rw [e] at h1; rw [hX] at h2'
        simp only at h1 h2'
        rw [h1, h2', hR1.log]
      · intro p hp
        show s2.fs p = sa.fs p
        rcases hfa with h' | ⟨hx, h'⟩
        · rw [h']
        · rw [h']; exact fsAfter_off hG defs t sa.fs hwr p hp hx
      · intro p hp
        show sm2.fs p = sm1.fs p
        rcases hfm with h' | ⟨hx, h'⟩
        · rw [h']
        · rw [h']; exact fsAfter_off hG defs t sm1.fs hwr p hp hx
      · show CasOK s2.cache
        rw [hca]; exact hcas

/-! ### whole builds -/

/-- **the step of the simulation**: both modes process the next target of the order. In minimal mode a target with output
    checks first loads the outputs of its direct dependencies: nothing is re-run, the relation to the `all` run is kept. -/
theorem step_rel {P : Params κ} (hG : Good P) (hfx : P.fx.minValidate = true) (hro : P.fx.rerunOnce = true) (hlf : P.fx.loadFault = true)
    (cfg : Cfg) {defs : Defs} {order : List Lbl} {outP : Path → Prop} (hwf : WF defs order) (hwm : WFM defs order)
    (hO : OutDisc outP defs order) (fuelA fuelM : Nat)
    (pre : List Lbl) (l : Lbl) (suf : List Lbl) (ho : order = pre ++ l :: suf) (t : Target) (ht : defs l = some t)
    (hfuel : t.ldeps.length ≤ fuelM) {sa sm : BState κ} (hcas : CasOK sa.cache) (hR : Rel P outP defs sa sm pre) :
    Rel P outP defs (buildTarget P { cfg with minimal := false } defs fuelA t sa)
        (buildTarget P { cfg with minimal := true } defs fuelM t sm) (pre ++ [l]) ∧
      CasOK (buildTarget P { cfg with minimal := false } defs fuelA t sa).cache := by
  by_cases hc : (true && P.fx.checkDeps && !t.checks.isEmpty && depsOk sm.st t.deps) = true
  · have hlo : l ∈ order := by rw [ho]; simp
    have hpo : ∀ d ∈ pre, d ∈ order := fun d hd => by rw [ho]; simp [hd]
    obtain ⟨hld, _⟩ := hwm l hlo t ht
    have hdeps : ∀ d ∈ t.deps, d ∈ pre := hwf.topo pre l suf ho t ht
    have hdok : depsOk sm.st t.deps = true := by
      simp only [Bool.and_eq_true] at hc; exact hc.2
    have hsmok : ∀ d ∈ t.ldeps, ∃ m, sm.st d = some m ∧ m.ok = true := by
      intro d hd; rw [hld] at hd
      exact depsOk_mem hdok d hd
    obtain ⟨sm1, hload, hR1, _, _, _, _⟩ :=
      loadDepList_restores hro hlf (cfg := { cfg with minimal := true }) hwf hO hpo t.ldeps fuelM sm hfuel
        (fun d hd => hdeps d (by rw [← hld]; exact hd)) hsmok hR
    have e : buildTarget P { cfg with minimal := true } defs fuelM t sm =
        buildTargetNoPre P { cfg with minimal := true } defs fuelM t sm1 := by
      simp only [buildTarget, hc, ↓reduceIte, hload, Bool.not_true, Bool.false_eq_true]
    rw [e]
    exact step_rel_core hG hfx hro hlf cfg hwf hwm hO fuelA fuelM pre l suf ho t ht hfuel hcas hR1
  · have e : buildTarget P { cfg with minimal := true } defs fuelM t sm =
        buildTargetNoPre P { cfg with minimal := true } defs fuelM t sm := by
      simp only [buildTarget, hc, Bool.false_eq_true, ↓reduceIte]
    rw [e]
    exact step_rel_core hG hfx hro hlf cfg hwf hwm hO fuelA fuelM pre l suf ho t ht hfuel hcas hR

theorem length_le_of_nodup_subset : ∀ (l m : List Lbl), l.Nodup → (∀ x ∈ l, x ∈ m) → l.length ≤ m.length
  | [], _, _, _ => by simp
  | a :: l, m, hn, hs => by
    have ha : a ∈ m := hs a (by simp)
    have hn' := List.nodup_cons.1 hn
    have : l.length ≤ (m.erase a).length := by
      apply length_le_of_nodup_subset l (m.erase a) hn'.2
      intro x hx
      have hxa : x ≠ a := fun e => hn'.1 (e ▸ hx)
      exact (List.mem_erase_of_ne hxa).2 (hs x (by simp [hx]))
    rw [List.length_erase_of_mem ha] at this
    have hpos : 0 < m.length := List.length_pos_of_mem ha
    simp only [List.length_cons]
    omega

/-- `fuelFor order` is enough for the dependency lists of the order -/
theorem fuel_ok {defs : Defs} {order : List Lbl} (hwf : WF defs order) (hwm : WFM defs order) :
    ∀ l ∈ order, ∀ t, defs l = some t → t.ldeps.length ≤ fuelFor order := by
  intro l hl t ht
  obtain ⟨pre, suf, ho⟩ := List.append_of_mem hl
  obtain ⟨hld, hdn⟩ := hwm l hl t ht
  have hsub : ∀ d ∈ t.deps, d ∈ order := fun d hd => by
    rw [ho]; exact List.mem_append_left _ (hwf.topo pre l suf ho t ht d hd)
  have := length_le_of_nodup_subset t.deps order hdn hsub
  rw [hld]
  unfold fuelFor
  have h2 : order.length ≤ (order.length + 1) * (order.length + 1) := by
    have : order.length + 1 ≤ (order.length + 1) * (order.length + 1) := Nat.le_mul_of_pos_left _ (by omega)
    omega
  omega

theorem run_rel_aux {P : Params κ} (hG : Good P) (hfx : P.fx.minValidate = true) (hro : P.fx.rerunOnce = true) (hlf : P.fx.loadFault = true)
    (cfg : Cfg) {defs : Defs} {order : List Lbl} {outP : Path → Prop} (hwf : WF defs order) (hwm : WFM defs order)
    (hO : OutDisc outP defs order) (fuelA fuelM : Nat) (hfuel : ∀ l ∈ order, ∀ t, defs l = some t → t.ldeps.length ≤ fuelM) :
    ∀ (rest pre : List Lbl) (sa sm : BState κ), order = pre ++ rest → CasOK sa.cache → Rel P outP defs sa sm pre →
      Rel P outP defs (run P { cfg with minimal := false } defs fuelA rest sa) (run P { cfg with minimal := true } defs fuelM rest sm) (pre ++ rest) ∧
        CasOK (run P { cfg with minimal := false } defs fuelA rest sa).cache := by
  intro rest
  induction rest with
  | nil => intro pre sa sm _ hc hR; simpa [run] using ⟨hR, hc⟩
  | cons l rest ih =>
    intro pre sa sm ho hc hR
    have hlo : l ∈ order := by rw [ho]; simp
    obtain ⟨t, ht⟩ := hwf.defined l hlo
    obtain ⟨hR', hc'⟩ := step_rel hG hfx hro hlf cfg hwf hwm hO fuelA fuelM pre l rest ho t ht (hfuel l hlo t ht) hc hR
    have := ih (pre ++ [l]) _ _ (by rw [ho]; simp) hc' hR'
    simp only [run, List.foldl_cons, stepTarget, ht]
    simpa [run] using this

theorem succeeded_agree {sa sm : BState κ} (h : ∀ l, StAgree (sa.st l) (sm.st l)) (order : List Lbl) :
    succeeded sa order = succeeded sm order := by
  unfold succeeded
  apply all_congr_mem
  intro l _
  have := h l
  cases ha : sa.st l <;> cases hm : sm.st l <;> simp [StAgree, ha, hm] at this ⊢
  exact this.1

/-- the two worlds of the lock-step runs: same definitions, same cache (complete CAS), same workspace off the output paths -/
structure WRel (outP : Path → Prop) (wa wm : World κ) : Prop where
  defs : wa.defs = wm.defs
  cache : wa.cache = wm.cache
  fs : ∀ p, ¬ outP p → wa.fs p = wm.fs p
  cas : CasOK wa.cache

/-- what a build step needs: a well-formed order whose output paths are inside `outP` and whose inputs / check files are outside -/
structure BuildOK (outP : Path → Prop) (defs : Defs) (order : List Lbl) : Prop where
  wf : WF defs order
  wfm : WFM defs order
  disc : OutDisc outP defs order

/-- **one build in both modes** from related worlds: related final states -/
theorem build_rel {P : Params κ} (hG : Good P) (hfx : P.fx.minValidate = true) (hro : P.fx.rerunOnce = true) (hlf : P.fx.loadFault = true)
    (cfg : Cfg) {outP : Path → Prop} {wa wm : World κ} (hW : WRel outP wa wm) {order : List Lbl} (hB : BuildOK outP wa.defs order) :
    Rel P outP wa.defs (build P { cfg with minimal := false } wa order) (build P { cfg with minimal := true } wm order) order ∧
      CasOK (build P { cfg with minimal := false } wa order).cache := by
  have h0 : Rel P outP wa.defs (start wa) (start wm) [] :=
    ⟨hW.cache, rfl, fun _ => trivial, hW.fs, fun l hl => by simp at hl, fun l hl => by simp at hl, fun l hl => by simp at hl⟩
  have := run_rel_aux hG hfx hro hlf cfg hB.wf hB.wfm hB.disc (fuelFor order) (fuelFor order) (fuel_ok hB.wf hB.wfm)
    order [] (start wa) (start wm) (by simp) hW.cas h0
  unfold build
  rw [← hW.defs]
  simpa using this

/-! ### histories -/

/-- the same history with every build forced to one mode -/
def modeStep (m : Bool) : Step → Step
  | .build c o => .build { c with minimal := m } o
  | x => x

def forceMode (m : Bool) (h : List Step) : List Step := h.map (modeStep m)

/-- the definitions after a step -/
def defsAfter (d : Defs) : Step → Defs
  | .edit d' _ => d'
  | _ => d

/-- the histories the lock-step theorem covers: every build is `BuildOK` for the definitions current at that point,
    and no blob is dropped from the CAS (a lost blob makes mode `all` re-execute where mode `minimal` still answers from
    the result record). Edits and taints are unrestricted. -/
def HistOK (outP : Path → Prop) : Defs → List Step → Prop
  | _, [] => True
  | _, .edit d _ :: h => HistOK outP d h
  | defs, .taint _ :: h => HistOK outP defs h
  | _, .dropBlob _ :: _ => False
  | defs, .build _ order :: h => BuildOK outP defs order ∧ HistOK outP defs h

theorem applyWrites_congr (outP : Path → Prop) : ∀ (ws : List (Path × Option Val)) (fs fs' : FS),
    (∀ p, ¬ outP p → fs p = fs' p) → ∀ p, ¬ outP p → applyWrites fs ws p = applyWrites fs' ws p
  | [], _, _, h => h
  | pv :: ws, fs, fs', h => by
    apply applyWrites_congr outP ws
    intro p hp
    by_cases e : p = pv.1
    · simp [upd, e]
    · simp [upd, e, h p hp]

theorem taintAll_res (c : Cache κ) : ∀ ls : List Lbl, (taintAll c ls).res = c.res ∧ (taintAll c ls).cas = c.cas := by
  intro ls
  induction ls generalizing c with
  | nil => exact ⟨rfl, rfl⟩
  | cons l ls ih => simp only [taintAll]; exact ih _

theorem step_wrel {P : Params κ} (hG : Good P) (hfx : P.fx.minValidate = true) (hro : P.fx.rerunOnce = true) (hlf : P.fx.loadFault = true)
    {outP : Path → Prop} {wa wm : World κ} (hW : WRel outP wa wm) (st : Step) (h : List Step) (hH : HistOK outP wa.defs (st :: h)) :
    WRel outP (step P wa (modeStep false st)) (step P wm (modeStep true st)) ∧
      HistOK outP (step P wa (modeStep false st)).defs h ∧ (step P wa (modeStep false st)).defs = defsAfter wa.defs st := by
  cases st with
  | edit d ws =>
    exact ⟨⟨rfl, hW.cache, applyWrites_congr outP ws _ _ hW.fs, hW.cas⟩, hH, rfl⟩
  | taint ls =>
    refine ⟨⟨hW.defs, by simp only [step, modeStep]; rw [hW.cache], hW.fs, ?_⟩, hH, rfl⟩
    intro k r hr ov hov
    simp only [step, modeStep] at hr ⊢
    rw [(taintAll_res _ ls).1] at hr
    rw [(taintAll_res _ ls).2]
    exact hW.cas k r hr ov hov
  | dropBlob v => exact absurd hH (by simp [HistOK])
  | build c o =>
    obtain ⟨hB, hH'⟩ := hH
    obtain ⟨hR, hc⟩ := build_rel hG hfx hro hlf c hW hB
    exact ⟨⟨hW.defs, hR.cache, hR.fsOff, hc⟩, hH', rfl⟩

/-- **lock step over a history**: the worlds reached by the `all` run and the `minimal` run stay related -/
theorem history_wrel {P : Params κ} (hG : Good P) (hfx : P.fx.minValidate = true) (hro : P.fx.rerunOnce = true) (hlf : P.fx.loadFault = true)
    {outP : Path → Prop} : ∀ (h : List Step) (wa wm : World κ), WRel outP wa wm → HistOK outP wa.defs h →
      WRel outP (runHistory P wa (forceMode false h)) (runHistory P wm (forceMode true h)) ∧
        (runHistory P wa (forceMode false h)).defs = h.foldl defsAfter wa.defs := by
  intro h
  induction h with
  | nil => intro wa wm hW _; exact ⟨hW, rfl⟩
  | cons st h ih =>
    intro wa wm hW hH
    obtain ⟨hW', hH', hd⟩ := step_wrel hG hfx hro hlf hW st h hH
    have := ih _ _ hW' hH'
    simp only [runHistory, forceMode, List.map_cons, List.foldl_cons] at this ⊢
    refine ⟨this.1, ?_⟩
    rw [this.2, hd]

end Grog.Build
