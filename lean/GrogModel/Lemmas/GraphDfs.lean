/-
  The visited-set traversal `dfs`: what a finished run guarantees, what a rejected run guarantees,
  that `|todo| + rem es vis` units of fuel are enough, and the consequences for `descendantsV`.
-/
import GrogModel.Lemmas.Graph
namespace Grog

/-- everything a finished run `dfs es ok fuel todo vis = done vis' s` guarantees -/
structure DfsInv (es : List Edge) (ok : Nat → Bool) (todo vis vis' : List Nat) (s : Nat) : Prop where
  /-- the visited list only grows, at the front -/
  ext : ∃ l, vis' = l ++ vis
  /-- soundness: every new node is reachable from the work list -/
  sound : ∀ x ∈ vis', x ∈ vis ∨ ∃ t ∈ todo, Reach es t x
  /-- the work list has been absorbed -/
  todoIn : ∀ t ∈ todo, t ∈ vis'
  /-- every newly visited node has all its successors visited -/
  closed : ∀ u ∈ vis', u ∉ vis → ∀ w ∈ succs es u, w ∈ vis'
  /-- every newly visited node passed the `ok` test -/
  allOk : ∀ x ∈ vis', x ∈ vis ∨ ok x = true
  nodup : vis.Nodup → vis'.Nodup
  /-- exact step count -/
  steps : s + rem es vis' = todo.length + rem es vis

theorem dfs_done_inv (es : List Edge) (ok : Nat → Bool) :
    ∀ (fuel : Nat) (todo vis vis' : List Nat) (s : Nat),
      dfs es ok fuel todo vis = .done vis' s → DfsInv es ok todo vis vis' s := by
  intro fuel
  induction fuel with
  | zero =>
    intro todo vis vis' s h
    cases todo with
    | nil =>
      simp only [dfs, DfsRes.done.injEq] at h
      obtain ⟨rfl, rfl⟩ := h
      exact ⟨⟨[], rfl⟩, fun x hx => Or.inl hx, by simp, fun u hu hn => absurd hu hn,
        fun x hx => Or.inl hx, id, by simp⟩
    | cons d rest => simp [dfs] at h
  | succ fuel ih =>
    intro todo vis vis' s h
    cases todo with
    | nil =>
      simp only [dfs, DfsRes.done.injEq] at h
      obtain ⟨rfl, rfl⟩ := h
      exact ⟨⟨[], rfl⟩, fun x hx => Or.inl hx, by simp, fun u hu hn => absurd hu hn,
        fun x hx => Or.inl hx, id, by simp⟩
    | cons d rest =>
      simp only [dfs] at h
      by_cases hv : d ∈ vis
      · -- already visited: skip
        simp only [List.contains_iff_mem, hv, ↓reduceIte] at h
        obtain ⟨s', h', rfl⟩ := tick_eq_done.mp h
        have I := ih rest vis vis' s' h'
        obtain ⟨l, hl⟩ := I.ext
        refine ⟨⟨l, hl⟩, ?_, ?_, I.closed, I.allOk, I.nodup, ?_⟩
        · intro x hx
          rcases I.sound x hx with h1 | ⟨t, ht, hr⟩
          · exact Or.inl h1
          · exact Or.inr ⟨t, List.mem_cons_of_mem _ ht, hr⟩
        · intro t ht
          rcases List.mem_cons.mp ht with rfl | ht
          · rw [hl]; exact List.mem_append_right _ hv
          · exact I.todoIn t ht
        · have := I.steps; simp only [List.length_cons]; omega
      · simp only [List.contains_iff_mem, hv, ↓reduceIte] at h
        by_cases hok : ok d = true
        · simp only [hok, Bool.not_true, Bool.false_eq_true, ↓reduceIte] at h
          obtain ⟨s', h', rfl⟩ := tick_eq_done.mp h
          have I := ih (succs es d ++ rest) (d :: vis) vis' s' h'
          obtain ⟨l, hl⟩ := I.ext
          have hd : d ∈ vis' := by rw [hl]; exact List.mem_append_right _ (List.mem_cons_self ..)
          refine ⟨⟨l ++ [d], by rw [hl]; simp⟩, ?_, ?_, ?_, ?_, ?_, ?_⟩
          · intro x hx
            rcases I.sound x hx with h1 | ⟨t, ht, hr⟩
            · rcases List.mem_cons.mp h1 with rfl | h1
              · exact Or.inr ⟨x, List.mem_cons_self .., Reach.refl _⟩
              · exact Or.inl h1
            · rcases List.mem_append.mp ht with ht | ht
              · exact Or.inr ⟨d, List.mem_cons_self .., Reach.step (mem_succs.mp ht) hr⟩
              · exact Or.inr ⟨t, List.mem_cons_of_mem _ ht, hr⟩
          · intro t ht
            rcases List.mem_cons.mp ht with rfl | ht
            · exact hd
            · exact I.todoIn t (List.mem_append_right _ ht)
          · intro u hu hn w hw
            by_cases hud : u = d
            · subst hud; exact I.todoIn w (List.mem_append_left _ hw)
            · exact I.closed u hu (by simp [hud, hn]) w hw
          · intro x hx
            rcases I.allOk x hx with h1 | h1
            · rcases List.mem_cons.mp h1 with rfl | h1
              · exact Or.inr hok
              · exact Or.inl h1
            · exact Or.inr h1
          · intro hn; exact I.nodup (List.nodup_cons.mpr ⟨hv, hn⟩)
          · have h1 := I.steps
            have h2 := rem_split es vis d hv
            simp only [List.length_append, List.length_cons] at h1 ⊢; omega
        · simp [hok] at h

/-- a run that stops at a node rejected by `ok`: that node is reachable from the work list -/
theorem dfs_bad_inv (es : List Edge) (ok : Nat → Bool) :
    ∀ (fuel : Nat) (todo vis : List Nat) (c s : Nat),
      dfs es ok fuel todo vis = .bad c s →
        ok c = false ∧ c ∉ vis ∧ (∃ t ∈ todo, Reach es t c) ∧ s ≤ todo.length + rem es vis := by
  intro fuel
  induction fuel with
  | zero => intro todo vis c s h; cases todo <;> simp [dfs] at h
  | succ fuel ih =>
    intro todo vis c s h
    cases todo with
    | nil => simp [dfs] at h
    | cons d rest =>
      simp only [dfs] at h
      by_cases hv : d ∈ vis
      · simp only [List.contains_iff_mem, hv, ↓reduceIte] at h
        obtain ⟨s', h', rfl⟩ := tick_eq_bad.mp h
        obtain ⟨h1, h2, ⟨t, ht, hr⟩, h4⟩ := ih rest vis c s' h'
        refine ⟨h1, h2, ⟨t, List.mem_cons_of_mem _ ht, hr⟩, ?_⟩
        simp only [List.length_cons]; omega
      · simp only [List.contains_iff_mem, hv, ↓reduceIte] at h
        by_cases hok : ok d = true
        · simp only [hok, Bool.not_true, Bool.false_eq_true, ↓reduceIte] at h
          obtain ⟨s', h', rfl⟩ := tick_eq_bad.mp h
          obtain ⟨h1, h2, ⟨t, ht, hr⟩, h4⟩ := ih (succs es d ++ rest) (d :: vis) c s' h'
          have h5 := rem_split es vis d hv
          refine ⟨h1, fun hc => h2 (List.mem_cons_of_mem _ hc), ?_, ?_⟩
          · rcases List.mem_append.mp ht with ht | ht
            · exact ⟨d, List.mem_cons_self .., Reach.step (mem_succs.mp ht) hr⟩
            · exact ⟨t, List.mem_cons_of_mem _ ht, hr⟩
          · simp only [List.length_append, List.length_cons] at h4 ⊢; omega
        · have hok' : ok d = false := by simpa using hok
          simp only [hok', Bool.not_false, ↓reduceIte, DfsRes.bad.injEq] at h
          obtain ⟨rfl, rfl⟩ := h
          refine ⟨hok', hv, ⟨d, List.mem_cons_self .., Reach.refl _⟩, ?_⟩
          simp only [List.length_cons]; omega

/-- `|todo| + rem es vis` units of fuel are enough -/
theorem dfs_fuel_enough (es : List Edge) (ok : Nat → Bool) :
    ∀ (fuel : Nat) (todo vis : List Nat), todo.length + rem es vis ≤ fuel →
      dfs es ok fuel todo vis ≠ .fuel := by
  intro fuel
  induction fuel with
  | zero =>
    intro todo vis h
    cases todo with
    | nil => simp [dfs]
    | cons d rest => simp at h
  | succ fuel ih =>
    intro todo vis h
    cases todo with
    | nil => simp [dfs]
    | cons d rest =>
      simp only [dfs]
      by_cases hv : d ∈ vis
      · simp only [List.contains_iff_mem, hv, ↓reduceIte, ne_eq, tick_eq_fuel]
        apply ih; simp only [List.length_cons] at h; omega
      · simp only [List.contains_iff_mem, hv, ↓reduceIte]
        by_cases hok : ok d = true
        · simp only [hok, Bool.not_true, Bool.false_eq_true, ↓reduceIte, ne_eq, tick_eq_fuel]
          apply ih
          have h5 := rem_split es vis d hv
          simp only [List.length_append, List.length_cons] at h ⊢; omega
        · simp [hok]

/-! ### a whole traversal from one node -/

/-- the run behind `descendantsV es v` always finishes -/
theorem descendantsV_run (es : List Edge) (v : Nat) :
    ∃ vis' s, dfs es (fun _ => true) es.length (succs es v) [v] = .done vis' s := by
  have hf := dfs_fuel_enough es (fun _ => true) es.length (succs es v) [v] (by
    have := rem_split es [] v (by simp); rw [rem_nil] at this; omega)
  cases h : dfs es (fun _ => true) es.length (succs es v) [v] with
  | done vis' s => exact ⟨vis', s, rfl⟩
  | bad c s => have := (dfs_bad_inv es _ _ _ _ _ _ h).1; simp at this
  | fuel => exact absurd h hf

/-- `descendantsV` unfolded: the discovered nodes `l` (most recent first) and the step count -/
theorem descendantsV_spec (es : List Edge) (v : Nat) :
    ∃ l s, dfs es (fun _ => true) es.length (succs es v) [v] = .done (l ++ [v]) s ∧
      descendantsV es v = ⟨l.reverse, s + (l.length + 1)⟩ ∧
      DfsInv es (fun _ => true) (succs es v) [v] (l ++ [v]) s := by
  obtain ⟨vis', s, h⟩ := descendantsV_run es v
  have I := dfs_done_inv es _ _ _ _ _ _ h
  obtain ⟨l, rfl⟩ := I.ext
  refine ⟨l, s, h, ?_, I⟩
  simp [descendantsV, h]

theorem mem_descendantsV {es : List Edge} {v x : Nat} :
    x ∈ (descendantsV es v).nodes ↔ ReachPlus es v x ∧ x ≠ v := by
  obtain ⟨l, s, _, hd, I⟩ := descendantsV_spec es v
  have hnd : (l ++ [v]).Nodup := I.nodup (by simp)
  rw [hd]; simp only [List.mem_reverse]
  constructor
  · intro hx
    have hne : x ≠ v := by
      rintro rfl
      have := List.nodup_append.mp hnd
      exact this.2.2 x hx x (by simp) rfl
    refine ⟨?_, hne⟩
    rcases I.sound x (List.mem_append_left _ hx) with h1 | ⟨t, ht, hr⟩
    · simp at h1; exact absurd h1 hne
    · exact ⟨t, mem_succs.mp ht, hr⟩
  · rintro ⟨⟨y, e, hr⟩, hne⟩
    -- l ++ [v] is closed under successors
    have hc : ∀ u ∈ l ++ [v], ∀ w ∈ succs es u, w ∈ l ++ [v] := by
      intro u hu w hw
      by_cases huv : u = v
      · subst huv; exact I.todoIn w hw
      · exact I.closed u hu (by simpa using huv) w hw
    have hy : y ∈ l ++ [v] := I.todoIn y (mem_succs.mpr e)
    have := reach_closed hc hy hr
    rcases List.mem_append.mp this with h | h
    · exact h
    · simp at h; exact absurd h hne

theorem nodup_descendantsV (es : List Edge) (v : Nat) : (descendantsV es v).nodes.Nodup := by
  obtain ⟨l, s, _, hd, I⟩ := descendantsV_spec es v
  have hnd : (l ++ [v]).Nodup := I.nodup (by simp)
  rw [hd]
  exact (List.reverse_perm l).nodup_iff.mpr (List.nodup_append.mp hnd).1

theorem length_preds_le (es : List Edge) (v : Nat) : (preds es v).length ≤ es.length := by
  simp only [preds, List.length_map]; exact List.length_filter_le _ _

/-- `ancestorSetV` unfolded -/
theorem ancestorSetV_spec (es : List Edge) (v : Nat) :
    ∃ vis s, ancestorSetV es v = ⟨vis.reverse, s + 1⟩ ∧
      DfsInv (flipEdges es) (fun _ => true) (preds es v) [] vis s := by
  have hlen := length_preds_le es v
  have hf := dfs_fuel_enough (flipEdges es) (fun _ => true) (2 * es.length) (preds es v) [] (by
    rw [rem_nil, length_flipEdges]; omega)
  cases h : dfs (flipEdges es) (fun _ => true) (2 * es.length) (preds es v) [] with
  | done vis s =>
    exact ⟨vis, s, by simp [ancestorSetV, h], dfs_done_inv _ _ _ _ _ _ _ h⟩
  | bad c s => have := (dfs_bad_inv _ _ _ _ _ _ _ h).1; simp at this
  | fuel => exact absurd h hf

/-- the ancestor set is the set of transitive dependencies (`v` itself only if it lies on a cycle) -/
theorem mem_ancestorSetV {es : List Edge} {v x : Nat} :
    x ∈ (ancestorSetV es v).nodes ↔ ReachPlus es x v := by
  obtain ⟨vis, s, hd, I⟩ := ancestorSetV_spec es v
  rw [hd]; simp only [List.mem_reverse]
  constructor
  · intro hx
    rcases I.sound x hx with h1 | ⟨t, ht, hr⟩
    · simp at h1
    · exact reachPlus_flip.mp ⟨t, mem_flipEdges.mpr (mem_preds.mp ht), hr⟩
  · intro hp
    obtain ⟨y, e, hr⟩ := reachPlus_flip.mpr hp
    have hc : ∀ u ∈ vis, ∀ w ∈ succs (flipEdges es) u, w ∈ vis :=
      fun u hu w hw => I.closed u hu (by simp) w hw
    have hy : y ∈ vis := I.todoIn y (mem_preds.mpr (mem_flipEdges.mp e))
    exact reach_closed hc hy hr

theorem ancestorSetV_cost_le (es : List Edge) (v : Nat) :
    (ancestorSetV es v).cost ≤ 1 + (preds es v).length + es.length := by
  obtain ⟨vis, s, hd, I⟩ := ancestorSetV_spec es v
  rw [hd]
  have h1 := I.steps
  rw [rem_nil, length_flipEdges] at h1
  show s + 1 ≤ 1 + (preds es v).length + es.length
  omega

theorem reach_lt {es : List Edge} {n : Nat} (hwf : ∀ e ∈ es, e.1 < n ∧ e.2 < n) {t x : Nat}
    (ht : t < n) (hr : Reach es t x) : x < n := by
  induction hr with
  | refl => exact ht
  | step e _ ih => exact ih (hwf _ e).2

/-- cost = loop iterations (`≤ |E|`) + calls (`≤ |V|`) -/
theorem descendantsV_cost_le (es : List Edge) (n v : Nat)
    (hwf : ∀ e ∈ es, e.1 < n ∧ e.2 < n) (hv : v < n) :
    (descendantsV es v).cost ≤ n + es.length := by
  obtain ⟨l, s, _, hd, I⟩ := descendantsV_spec es v
  have hnd : (l ++ [v]).Nodup := I.nodup (by simp)
  rw [hd]
  have hs : s ≤ es.length := by
    have h1 := I.steps
    have h2 := rem_split es [] v (by simp)
    rw [rem_nil] at h2; omega
  have hsub : ∀ x ∈ l ++ [v], x ∈ List.range n := by
    intro x hx
    rw [List.mem_range]
    rcases I.sound x hx with h1 | ⟨t, ht, hr⟩
    · simp at h1; omega
    · exact reach_lt hwf (hwf _ (mem_succs.mp ht)).2 hr
  have hlen := List.Nodup.length_le_of_subset hnd hsub
  simp only [List.length_append, List.length_cons, List.length_nil, List.length_range] at hlen
  show s + (l.length + 1) ≤ n + es.length
  omega

end Grog
