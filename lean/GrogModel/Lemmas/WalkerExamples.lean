/-
  Concrete configurations used by the `example`s next to the property theorems: they show that
  the hypotheses of the theorems are satisfiable by non-trivial states.
-/
import GrogModel.Lemmas.Walker
namespace Grog.Walker.Ex

/-- two nodes, 1 depends on 0 -/
def chain2 (ff : Bool) : Cfg :=
  { sel := [0, 1], deps := fun n => if n = 1 then [0] else [],
    desc := fun a => if a = 0 then [1] else [], failFast := ff }

theorem chain2_anc {ff : Bool} {a m : Node} : Anc (chain2 ff) a m ↔ a = 0 ∧ m = 1 := by
  constructor
  · intro h
    induction h with
    | base hd =>
      simp only [chain2] at hd
      split at hd <;> simp_all
    | step _ hx ih =>
      simp only [chain2] at hx
      split at hx <;> simp_all
  · rintro ⟨rfl, rfl⟩
    exact Anc.base (by simp [chain2])

theorem chain2_ok (ff : Bool) : CfgOK (chain2 ff) where
  closed := by
    intro n hn d hd
    simp only [chain2] at hd ⊢
    split at hd <;> simp_all
  acyclic := by
    apply Subrelation.wf (r := (· < ·)) _ Nat.lt_wfRel.wf
    intro d n h
    simp only [chain2] at h
    split at h <;> simp_all
  desc_iff := by
    intro a m
    rw [chain2_anc]
    simp only [chain2]
    split <;> simp_all

/-- node 0 ran and failed, keep-going: node 1 was cancelled and exited, Walk returned -/
def failedRun : List Ev :=
  [.wake 0, .cbReturn 0 .fail, .complete 0, .exit 1, .walkReturn false]

/-- both nodes ran successfully -/
def okRun : List Ev :=
  [.wake 0, .cbReturn 0 .ok, .complete 0, .wake 1, .cbReturn 1 .ok, .complete 1, .walkReturn false]

/-- fail-fast: 0 fails, everything is cancelled -/
def ffRun : List Ev :=
  [.wake 0, .cbReturn 0 .fail, .complete 0, .walkReturn true, .deliverCancel 0, .deliverCancel 1, .exit 1]

/-- interrupt while node 0 is running -/
def intRun : List Ev :=
  [.wake 0, .ctxCancel, .walkReturn true, .cbReturn 0 .cancelled, .deliverCancel 1, .exit 1]

theorem reach_of_run {c : Cfg} (tr : List Ev) {s s' : State} (hs : Reach c s)
    (h : run c s tr = some s') : Reach c s' := by
  induction tr generalizing s with
  | nil => simp [run] at h; subst h; exact hs
  | cons e es ih =>
    simp only [run] at h
    cases hst : step c s e with
    | none => simp [hst] at h
    | some s1 => simp only [hst] at h; exact ih (Reach.step hs hst) h

/-- the state after a run from the initial state (the initial state itself if the run is not accepted) -/
def after (c : Cfg) (tr : List Ev) : State := (run c (init c) tr).getD (init c)

theorem reach_after {c : Cfg} {tr : List Ev} (h : (run c (init c) tr).isSome = true) :
    Reach c (after c tr) := by
  unfold after
  cases hr : run c (init c) tr with
  | none => simp [hr] at h
  | some s => exact reach_of_run tr Reach.init hr

end Grog.Walker.Ex
