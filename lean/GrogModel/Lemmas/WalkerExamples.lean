/-
  Concrete configurations used by the `example`s next to the property theorems: they show that
  the hypotheses of the theorems are satisfiable by non-trivial states.
-/
import GrogModel.Lemmas.Walker
namespace Grog.Walker.Ex

/-- two nodes, 1 depends on 0 -/
def chain2 (ff : Bool) : Cfg :=
  { sel := [0, 1], deps := fun n => if n = 1 then [0] else [],
    desc := fun a => if a = 0 then [1] else [], failFast := ff }

theorem chain2_anc {ff : Bool} {a m : Node} : Anc (chain2 ff) a m ↔ a = 0 ∧ m = 1 := by
  constructor
  · intro h
    induction h with
    | base hd =>
      simp only [chain2] at hd
      split at hd <;> simp_all
    | step _ hx ih =>
      simp only [chain2] at hx
      split at hx <;> simp_all
  · rintro ⟨rfl, rfl⟩
    exact Anc.base (by simp [chain2])

theorem chain2_ok (ff : Bool) : CfgOK (chain2 ff) where
  closed := by
    intro n hn d hd
    simp only [chain2] at hd ⊢
    split at hd <;> simp_all
  acyclic := by
    apply Subrelation.wf (r := (· < ·)) _ Nat.lt_wfRel.wf
    intro d n h
    simp only [chain2] at h
    split at h <;> simp_all
  desc_iff := by
    intro a m
    rw [chain2_anc]
    simp only [chain2]
    split <;> simp_all

/-- node 0 ran and failed, keep-going: node 1 was cancelled and exited, Walk returned -/
def failedRun : List Ev :=
  [.wake 0, .cbReturn 0 .fail, .complete 0, .exit 1, .walkReturn false]

/-- both nodes ran successfully -/
def okRun : List Ev :=
  [.wake 0, .cbReturn 0 .ok, .complete 0, .wake 1, .cbReturn 1 .ok, .complete 1, .walkReturn false]

/-- fail-fast: 0 fails, everything is cancelled -/
def ffRun : List Ev :=
  [.wake 0, .cbReturn 0 .fail, .complete 0, .walkReturn true, .deliverCancel 0, .deliverCancel 1, .exit 1]

/-- interrupt while node 0 is running -/
def intRun : List Ev :=
  [.wake 0, .ctxCancel, .walkReturn true, .cbReturn 0 .cancelled, .deliverCancel 1, .exit 1]

theorem reach_of_run {c : Cfg} (tr : List Ev) {s s' : State} (hs : Reach c s)
    (h : run c s tr = some s') : Reach c s' := by
  induction tr generalizing s with
  | nil => simp [run] at h; subst h; exact hs
  | cons e es ih =>
    simp only [run] at h
    cases hst : step c s e with
    | none => simp [hst] at h
    | some s1 => simp only [hst] at h; exact ih (Reach.step hs hst) h

/-- the state after a run from the initial state (the initial state itself if the run is not accepted) -/
def after (c : Cfg) (tr : List Ev) : State := (run c (init c) tr).getD (init c)

theorem reach_after {c : Cfg} {tr : List Ev} (h : (run c (init c) tr).isSome = true) :
    Reach c (after c tr) := by
  unfold after
  cases hr : run c (init c) tr with
  | none => simp [hr] at h
  | some s => exact reach_of_run tr Reach.init hr

/-! ### a diamond with an unselected dependant

  0 ← 1, 0 ← 2, {1, 2} ← 3, 3 ← 4; selected: 0..3 (node 4 depends on the selection but is not part of it). -/

def diamond (ff : Bool) : Cfg :=
  { sel := [0, 1, 2, 3],
    deps := fun n => match n with
      | 1 => [0] | 2 => [0] | 3 => [1, 2] | 4 => [3] | _ => [],
    desc := fun a => match a with
      | 0 => [1, 2, 3, 4] | 1 => [3, 4] | 2 => [3, 4] | 3 => [4] | _ => [],
    failFast := ff }

theorem diamond_dep_lt {ff : Bool} {d n : Nat} (h : d ∈ (diamond ff).deps n) : d < n ∧ n < 5 := by
  simp only [diamond] at h
  split at h <;> simp at h
  all_goals first | (subst h; decide) | (rcases h with rfl | rfl <;> decide)

theorem diamond_aux1 (ff : Bool) : ∀ n, n < 5 → ∀ a, a < 5 → a ∈ (diamond ff).deps n → n ∈ (diamond ff).desc a := by
  cases ff <;> decide

theorem diamond_aux2b (ff : Bool) : ((List.range 5).all fun n => (List.range 5).all fun x => (List.range 5).all fun a =>
    !(decide (x ∈ (diamond ff).desc a) && decide (x ∈ (diamond ff).deps n)) || decide (n ∈ (diamond ff).desc a)) = true := by
  cases ff <;> decide

theorem diamond_aux2 (ff : Bool) : ∀ n, n < 5 → ∀ x, x < 5 → ∀ a, a < 5 →
    (x ∈ (diamond ff).desc a ∧ x ∈ (diamond ff).deps n) → n ∈ (diamond ff).desc a := by
  intro n hn x hx a ha h
  have := diamond_aux2b ff
  simp only [List.all_eq_true, List.mem_range] at this
  have := this n hn x hx a ha
  simp only [Bool.or_eq_true, Bool.not_eq_true', Bool.and_eq_false_imp, decide_eq_true_eq, decide_eq_false_iff_not] at this
  rcases this with h' | h'
  · exact absurd h.2 (h' h.1)
  · exact h'

theorem diamond_desc_lt {ff : Bool} {a x : Nat} (h : x ∈ (diamond ff).desc a) : a < 5 := by
  simp only [diamond] at h
  split at h <;> simp at h
  all_goals decide

theorem diamond_dep_desc {ff : Bool} {a n : Nat} (h : a ∈ (diamond ff).deps n) : n ∈ (diamond ff).desc a := by
  have := diamond_dep_lt h
  exact diamond_aux1 ff n this.2 a (Nat.lt_trans this.1 this.2) h

theorem diamond_desc_trans {ff : Bool} {a x n : Nat} (h1 : x ∈ (diamond ff).desc a) (h2 : x ∈ (diamond ff).deps n) :
    n ∈ (diamond ff).desc a := by
  have := diamond_dep_lt h2
  exact diamond_aux2 ff n this.2 x (Nat.lt_trans this.1 this.2) a (diamond_desc_lt h1) ⟨h1, h2⟩

theorem diamond_anc {ff : Bool} {a m : Node} : Anc (diamond ff) a m ↔ m ∈ (diamond ff).desc a := by
  constructor
  · intro h
    induction h with
    | base hd => exact diamond_dep_desc hd
    | step _ hx ih => exact diamond_desc_trans ih hx
  · intro h
    have b01 : Anc (diamond ff) 0 1 := Anc.base (by simp [diamond])
    have b02 : Anc (diamond ff) 0 2 := Anc.base (by simp [diamond])
    have b13 : Anc (diamond ff) 1 3 := Anc.base (by simp [diamond])
    have b23 : Anc (diamond ff) 2 3 := Anc.base (by simp [diamond])
    have b34 : Anc (diamond ff) 3 4 := Anc.base (by simp [diamond])
    have b03 : Anc (diamond ff) 0 3 := Anc.step b01 (by simp [diamond])
    have b04 : Anc (diamond ff) 0 4 := Anc.step b03 (by simp [diamond])
    have b14 : Anc (diamond ff) 1 4 := Anc.step b13 (by simp [diamond])
    have b24 : Anc (diamond ff) 2 4 := Anc.step b23 (by simp [diamond])
    simp only [diamond] at h
    split at h <;> simp at h
    · rcases h with h | h | h | h <;> subst h <;> assumption
    · rcases h with h | h <;> subst h <;> assumption
    · rcases h with h | h <;> subst h <;> assumption
    · subst h; assumption

theorem diamond_ok (ff : Bool) : CfgOK (diamond ff) where
  closed := by
    intro n hn d hd
    simp only [diamond] at hn hd ⊢
    simp at hn
    rcases hn with rfl | rfl | rfl | rfl <;> simp at hd <;> simp [hd]
    rcases hd with rfl | rfl <;> simp
  acyclic := by
    apply Subrelation.wf (r := (· < ·)) _ Nat.lt_wfRel.wf
    intro d n h
    exact (diamond_dep_lt h).1
  desc_iff := fun a m => diamond_anc.symm

/-- keep-going on the diamond: 0 ok, 1 fails while 2 is still running; 3 is skipped, 2 finishes, Walk returns -/
def diamondFailRun : List Ev :=
  [.wake 0, .cbReturn 0 .ok, .complete 0, .wake 1, .wake 2, .cbReturn 1 .fail, .complete 1, .exit 3, .cbReturn 2 .ok, .complete 2,
   .walkReturn false]

/-- everything succeeds; 1 and 2 run concurrently -/
def diamondOkRun : List Ev :=
  [.wake 0, .cbReturn 0 .ok, .complete 0, .wake 2, .wake 1, .cbReturn 1 .ok, .cbReturn 2 .ok, .complete 2, .complete 1, .wake 3,
   .cbReturn 3 .ok, .complete 3, .walkReturn false]

/-- fail-fast on the diamond: 1 fails while 2 is running; Walk returns at once, 2 is told to stop and returns a cancellation -/
def diamondFfRun : List Ev :=
  [.wake 0, .cbReturn 0 .ok, .complete 0, .wake 1, .wake 2, .cbReturn 1 .fail, .complete 1, .walkReturn true, .deliverCancel 2,
   .cbReturn 2 .cancelled, .deliverCancel 3, .exit 3]

/-- interrupt on the diamond while 1 and 2 run: 1 aborts, 2 ignores the cancellation and finishes -/
def diamondIntRun : List Ev :=
  [.wake 0, .cbReturn 0 .ok, .complete 0, .wake 1, .wake 2, .ctxCancel, .walkReturn true, .cbReturn 1 .cancelled, .cbReturn 2 .ok,
   .complete 2]

example : (run (diamond false) (init (diamond false)) diamondFailRun).isSome = true ∧
    (run (diamond false) (init (diamond false)) diamondOkRun).isSome = true ∧
    (run (diamond true) (init (diamond true)) diamondFfRun).isSome = true ∧
    (run (diamond false) (init (diamond false)) diamondIntRun).isSome = true := by decide

end Grog.Walker.Ex
