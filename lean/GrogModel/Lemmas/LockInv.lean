/-
  Inductive invariant of the flock protocol (GrogModel/Lock.lean, current tree).
-/
import GrogModel.Lock
namespace Grog.Lock

/-- program counters at which the process holds the flock on inode `n` -/
def PC.owns : PC → Nat → Prop
  | .locked m, n => m = n
  | .statted m, n => m = n
  | .verified m, n => m = n
  | .truncated m, n => m = n
  | .holding m, n => m = n
  | .mismatch m, n => m = n
  | .unlocking m, n => m = n
  | .removed m, n => m = n
  | _, _ => False

/-- program counters at which the process relies on the lock path naming inode `n` -/
def PC.critical : PC → Nat → Prop
  | .verified m, n => m = n
  | .truncated m, n => m = n
  | .holding m, n => m = n
  | .unlocking m, n => m = n
  | _, _ => False

theorem PC.critical_owns {pc : PC} {n : Nat} (h : pc.critical n) : pc.owns n := by
  cases pc <;> simp_all [PC.critical, PC.owns]

/-- the invariant: a process that thinks it owns inode `n` is the flock holder of `n`, every flock has
    such an owner, and a process past the re-check has the path naming its inode. -/
structure Inv (s : State) : Prop where
  owns : ∀ i n, (s.pc i).owns n → s.flock n = some i
  held : ∀ i n, s.flock n = some i → (s.pc i).owns n
  crit : ∀ i n, (s.pc i).critical n → s.path = some n

theorem inv_init (pre : Bool) : Inv (init pre) := by
  refine ⟨?_, ?_, ?_⟩ <;> intro i n h <;> simp [init, State.pc, PC.owns, PC.critical] at h

@[simp] theorem pc_setPc_self (s : State) (i : Nat) (p : PC) : (s.setPc i p).pc i = p := by
  simp [State.setPc, State.setProc, State.pc]

@[simp] theorem pc_setPc_other (s : State) (i j : Nat) (p : PC) (h : j ≠ i) : (s.setPc i p).pc j = s.pc j := by
  simp [State.setPc, State.setProc, State.pc, h]

@[simp] theorem pc_setProc_self (s : State) (i : Nat) (p : Proc) : (s.setProc i p).pc i = p.pc := by
  simp [State.setProc, State.pc]

@[simp] theorem pc_setProc_other (s : State) (i j : Nat) (p : Proc) (h : j ≠ i) : (s.setProc i p).pc j = s.pc j := by
  simp [State.setProc, State.pc, h]

@[simp] theorem flock_setPc (s : State) (i : Nat) (p : PC) : (s.setPc i p).flock = s.flock := rfl
@[simp] theorem path_setPc (s : State) (i : Nat) (p : PC) : (s.setPc i p).path = s.path := rfl
@[simp] theorem flock_setProc (s : State) (i : Nat) (p : Proc) : (s.setProc i p).flock = s.flock := rfl
@[simp] theorem path_setProc (s : State) (i : Nat) (p : Proc) : (s.setProc i p).path = s.path := rfl
@[simp] theorem pc_release (s : State) (i n j : Nat) : (s.release i n).pc j = s.pc j := rfl
@[simp] theorem path_release (s : State) (i n : Nat) : (s.release i n).path = s.path := rfl
@[simp] theorem pc_releaseAll (s : State) (i j : Nat) : (s.releaseAll i).pc j = s.pc j := rfl
@[simp] theorem path_releaseAll (s : State) (i : Nat) : (s.releaseAll i).path = s.path := rfl

/-- a step of process `i` that changes neither the path nor any flock, to a program counter that owns
    (is critical for) nothing it did not own (was not critical for) before, keeps the invariant -/
theorem inv_local {s : State} (h : Inv s) (i : Nat) (p : PC)
    (ho : ∀ n, p.owns n ↔ (s.pc i).owns n) (hc : ∀ n, p.critical n → (s.pc i).critical n) :
    Inv (s.setPc i p) := by
  refine ⟨?_, ?_, ?_⟩
  · intro j n hj
    by_cases e : j = i
    · subst e; simp at hj; simpa using h.owns _ n ((ho n).1 hj)
    · simp [e] at hj; simpa using h.owns j n hj
  · intro j n hj
    simp at hj
    by_cases e : j = i
    · subst e; simp; exact (ho n).2 (h.held _ n hj)
    · simp [e]; exact h.held j n hj
  · intro j n hj
    by_cases e : j = i
    · subst e; simp at hj; simpa using h.crit _ n (hc n hj)
    · simp [e] at hj; simpa using h.crit j n hj

theorem inv_step {s s' : State} (e : Ev) (h : Inv s) (hs : step s e = some s') : Inv s' := by
  cases e with
  | step i =>
    simp only [step] at hs
    split at hs
    · -- idle
      rename_i hpc
      split at hs
      · injection hs with hs; subst hs
        exact inv_local h i _ (by intro n; simp [hpc, PC.owns]) (by intro n; simp [PC.critical])
      · rename_i hpath
        injection hs with hs; subst hs
        have nocrit : ∀ j n, ¬ (s.pc j).critical n := by
          intro j n hc; have := h.crit j n hc; simp [hpath] at this
        refine ⟨?_, ?_, ?_⟩
        · intro j n hj
          by_cases e : j = i
          · subst e; simp [State.setPc, State.setProc, State.pc, PC.owns] at hj
          · have : (s.pc j).owns n := by simpa [State.setPc, State.setProc, State.pc, e] using hj
            simpa [State.setPc, State.setProc] using h.owns j n this
        · intro j n hj
          have hj' : s.flock n = some j := by simpa [State.setPc, State.setProc] using hj
          have := h.held j n hj'
          by_cases e : j = i
          · subst e; simp [hpc, PC.owns] at this
          · simpa [State.setPc, State.setProc, State.pc, e] using this
        · intro j n hj
          by_cases e : j = i
          · subst e; simp [State.setPc, State.setProc, State.pc, PC.critical] at hj
          · have : (s.pc j).critical n := by simpa [State.setPc, State.setProc, State.pc, e] using hj
            exact absurd this (nocrit j n)
    · -- opened n
      rename_i n hpc
      split at hs
      · rename_i hfl
        injection hs with hs; subst hs
        refine ⟨?_, ?_, ?_⟩
        · intro j m hj
          by_cases e : j = i
          · subst e
            have : n = m := by simpa [State.setPc, State.setProc, State.pc, PC.owns] using hj
            subst this; simp [State.setPc, State.setProc]
          · have hj' : (s.pc j).owns m := by simpa [State.setPc, State.setProc, State.pc, e] using hj
            have hm := h.owns j m hj'
            have : m ≠ n := by intro e2; subst e2; simp [hfl] at hm
            simpa [State.setPc, State.setProc, this] using hm
        · intro j m hj
          have hj' : (if m = n then some i else s.flock m) = some j := by simpa [State.setPc, State.setProc] using hj
          by_cases e2 : m = n
          · subst e2; simp at hj'; subst hj'
            simp [State.setPc, State.setProc, State.pc, PC.owns]
          · simp [e2] at hj'
            have := h.held j m hj'
            by_cases e : j = i
            · subst e; simp [hpc, PC.owns] at this
            · simpa [State.setPc, State.setProc, State.pc, e] using this
        · intro j m hj
          by_cases e : j = i
          · subst e; simp [State.setPc, State.setProc, State.pc, PC.critical] at hj
          · have : (s.pc j).critical m := by simpa [State.setPc, State.setProc, State.pc, e] using hj
            simpa [State.setPc, State.setProc] using h.crit j m this
      · injection hs with hs; subst hs
        exact inv_local h i _ (by intro m; simp [hpc, PC.owns]) (by intro m; simp [PC.critical])
    · -- locked
      rename_i n hpc
      injection hs with hs; subst hs
      exact inv_local h i _ (by intro m; simp [hpc, PC.owns]) (by intro m; simp [PC.critical])
    · -- statted
      rename_i n hpc
      split at hs
      · rename_i hpath
        injection hs with hs; subst hs
        refine ⟨?_, ?_, ?_⟩
        · intro j m hj
          by_cases e : j = i
          · subst e; simp [PC.owns] at hj; subst hj
            simpa using h.owns _ n (by simp [hpc, PC.owns])
          · simp [e] at hj; simpa using h.owns j m hj
        · intro j m hj
          simp at hj
          have := h.held j m hj
          by_cases e : j = i
          · subst e; simpa [hpc, PC.owns] using this
          · simpa [e] using this
        · intro j m hj
          by_cases e : j = i
          · subst e; simp [PC.critical] at hj; subst hj; simpa using hpath
          · simp [e] at hj; simpa using h.crit j m hj
      · injection hs with hs; subst hs
        exact inv_local h i _ (by intro m; simp [hpc, PC.owns]) (by intro m; simp [PC.critical])
    · -- verified
      rename_i n hpc
      injection hs with hs; subst hs
      exact inv_local h i _ (by intro m; simp [hpc, PC.owns]) (by intro m; simp [hpc, PC.critical])
    · -- truncated
      rename_i n hpc
      injection hs with hs; subst hs
      exact inv_local h i _ (by intro m; simp [hpc, PC.owns]) (by intro m; simp [hpc, PC.critical])
    · -- mismatch n: release, back to idle
      rename_i n hpc
      injection hs with hs; subst hs
      have hown : s.flock n = some i := h.owns i n (by simp [hpc, PC.owns])
      refine ⟨?_, ?_, ?_⟩
      · intro j m hj
        by_cases e : j = i
        · subst e; simp [PC.owns] at hj
        · simp [e] at hj
          have hm := h.owns j m hj
          have : m ≠ n := by intro e2; subst e2; rw [hown] at hm; injection hm with hm; exact e hm.symm
          simp [State.release, this, hm]
      · intro j m hj
        simp [State.release] at hj
        by_cases e2 : m = n
        · subst e2; simp [hown] at hj
        · simp [e2] at hj
          have := h.held j m hj
          by_cases e : j = i
          · subst e; simp [hpc, PC.owns] at this; exact absurd this.symm e2
          · simpa [e] using this
      · intro j m hj
        by_cases e : j = i
        · subst e; simp [PC.critical] at hj
        · simp [e] at hj; simpa using h.crit j m hj
    · -- busy
      rename_i n hpc
      injection hs with hs; subst hs
      split
      · exact inv_local h i _ (by intro m; simp [hpc, PC.owns]) (by intro m; simp [PC.critical])
      · exact inv_local h i _ (by intro m; simp [hpc, PC.owns]) (by intro m; simp [PC.critical])
    · -- readPid
      rename_i hpc
      injection hs with hs; subst hs
      refine ⟨?_, ?_, ?_⟩
      · intro j m hj
        by_cases e : j = i
        · subst e; simp [PC.owns] at hj
        · simp [e] at hj; simpa using h.owns j m hj
      · intro j m hj
        simp at hj
        have := h.held j m hj
        by_cases e : j = i
        · subst e; simp [hpc, PC.owns] at this
        · simpa [e] using this
      · intro j m hj
        by_cases e : j = i
        · subst e; simp [PC.critical] at hj
        · simp [e] at hj; simpa using h.crit j m hj
    · -- waiting
      rename_i hpc
      injection hs with hs; subst hs
      exact inv_local h i _ (by intro m; simp [hpc, PC.owns]) (by intro m; simp [PC.critical])
    · -- unlocking n: remove the path
      rename_i n hpc
      injection hs with hs; subst hs
      have hown : s.flock n = some i := h.owns i n (by simp [hpc, PC.owns])
      have hpath : s.path = some n := h.crit i n (by simp [hpc, PC.critical])
      refine ⟨?_, ?_, ?_⟩
      · intro j m hj
        by_cases e : j = i
        · subst e
          have : n = m := by simpa [State.setPc, State.setProc, State.pc, PC.owns] using hj
          subst this; simpa [State.setPc, State.setProc] using hown
        · have : (s.pc j).owns m := by simpa [State.setPc, State.setProc, State.pc, e] using hj
          simpa [State.setPc, State.setProc] using h.owns j m this
      · intro j m hj
        have hj' : s.flock m = some j := by simpa [State.setPc, State.setProc] using hj
        have := h.held j m hj'
        by_cases e : j = i
        · subst e; rw [hpc] at this; simpa [State.setPc, State.setProc, State.pc, PC.owns] using this
        · simpa [State.setPc, State.setProc, State.pc, e] using this
      · intro j m hj
        by_cases e : j = i
        · subst e; simp [State.setPc, State.setProc, State.pc, PC.critical] at hj
        · have hc : (s.pc j).critical m := by simpa [State.setPc, State.setProc, State.pc, e] using hj
          have hp := h.crit j m hc
          rw [hpath] at hp; injection hp with hp; subst hp
          have := h.owns j n (PC.critical_owns hc)
          rw [hown] at this; injection this with this; exact absurd this.symm e
    · -- removed n: close
      rename_i n hpc
      injection hs with hs; subst hs
      have hown : s.flock n = some i := h.owns i n (by simp [hpc, PC.owns])
      refine ⟨?_, ?_, ?_⟩
      · intro j m hj
        by_cases e : j = i
        · subst e; simp [PC.owns] at hj
        · simp [e] at hj
          have hm := h.owns j m hj
          have : m ≠ n := by intro e2; subst e2; rw [hown] at hm; injection hm with hm; exact e hm.symm
          simp [State.release, this, hm]
      · intro j m hj
        simp [State.release] at hj
        by_cases e2 : m = n
        · subst e2; simp [hown] at hj
        · simp [e2] at hj
          have := h.held j m hj
          by_cases e : j = i
          · subst e; simp [hpc, PC.owns] at this; exact absurd this.symm e2
          · simpa [e] using this
      · intro j m hj
        by_cases e : j = i
        · subst e; simp [PC.critical] at hj
        · simp [e] at hj; simpa using h.crit j m hj
    · simp at hs
    · simp at hs
    · simp at hs
  | unlock i =>
    simp only [step] at hs
    split at hs
    · rename_i n hpc
      injection hs with hs; subst hs
      exact inv_local h i _ (by intro m; simp [hpc, PC.owns]) (by intro m; simp [hpc, PC.critical])
    · simp at hs
  | crash i =>
    simp only [step] at hs
    have key : Inv ((s.releaseAll i).setPc i .dead) := by
      refine ⟨?_, ?_, ?_⟩
      · intro j m hj
        by_cases e : j = i
        · subst e; simp [PC.owns] at hj
        · simp [e] at hj
          have hm := h.owns j m hj
          simp [State.releaseAll, hm, e]
      · intro j m hj
        simp [State.releaseAll] at hj
        by_cases e2 : s.flock m = some i
        · simp [e2] at hj
        · simp [e2] at hj
          have := h.held j m hj
          by_cases e : j = i
          · subst e; exact absurd hj e2
          · simpa [e] using this
      · intro j m hj
        by_cases e : j = i
        · subst e; simp [PC.critical] at hj
        · simp [e] at hj; simpa using h.crit j m hj
    split at hs
    · simp at hs
    · simp at hs
    · injection hs with hs; subst hs; exact key

theorem inv_reach {s : State} (h : Reach s) : Inv s := by
  induction h with
  | init pre => exact inv_init pre
  | step e _ hs ih => exact inv_step e ih hs

/-- two processes that both rely on the path naming their inode are the same process -/
theorem critical_unique {s : State} (h : Inv s) {i j n m : Nat}
    (hi : (s.pc i).critical n) (hj : (s.pc j).critical m) : i = j := by
  have p1 := h.crit i n hi
  have p2 := h.crit j m hj
  rw [p1] at p2; injection p2 with p2; subst p2
  have f1 := h.owns i n (PC.critical_owns hi)
  have f2 := h.owns j n (PC.critical_owns hj)
  rw [f1] at f2; injection f2

end Grog.Lock
