/-
  CAS + target-result cache over one backend, as a labelled transition system at the level of backend
  operations (internal/caching/cas.go, target_cache.go; order of store operations in
  internal/output/handlers/dir_output_handler.go Write and internal/execution/execute.go OnTargetComplete).

  A backend `Set` is atomic in its visible effect (GrogModel/FsBackend.lean: write-to-temp + rename): the
  key either becomes visible with the complete content or stays as it was. It is split here into
  `setBegin` (the call is issued: this is where the code's ordering guard is checked) and `setEnd`
  (the call returns: stored or not, error or not).  Any number of processes (builds) run interleaved;
  `crash p` kills one between any two events; a killed process's in-flight Sets may or may not have landed.

  What a process may do is what the code does:
    * `Cas.Write d` returns nil iff the memo has d, or `Exists d` answered (true, nil), or `Set d` returned nil;
      `conf p` collects exactly these digests ("confirmed present" in the eyes of process p).
    * the tree blob of a directory output is written after `uploadFiles` returned nil, i.e. when every file
      digest it references is confirmed; the target result is written after `WriteOutputs` returned nil,
      i.e. when every file / tree digest it references is confirmed.   (guard of `setBegin`)
    * a blob is written under the digest of its own content.         (guard `H content = key` of `setBegin`)
  There is no delete event for the CAS: grog never deletes from the CAS during a build (`grog clean` is a
  separate command and out of scope, stated as hypothesis in DESIGN).
-/
import GrogModel.Base
namespace Grog.Store
open Grog

abbrev Pid := Nat
abbrev Digest := Bytes

inductive NS where
  | cas | target
  deriving DecidableEq, Repr

/-- answer of `Exists` / `Get` -/
inductive Res where
  | yes | no | err
  deriving DecidableEq, Repr

/-- how a `Set` ended -/
inductive SetOut where
  | ok            -- stored, nil returned
  | errStored     -- stored, but an error was returned (fault after the rename / tee partner failed)
  | errNotStored  -- not stored, error returned
  deriving DecidableEq, Repr

structure Blob where
  content : Bytes
  /-- digests referenced by the content (file nodes of a marshalled Tree; empty for file blobs) -/
  refs : List Digest
  deriving Repr

structure Pending where
  op : Nat
  ns : NS
  key : Bytes
  blob : Blob
  deriving Repr

structure State where
  cas : Digest → Option Blob
  /-- visible target results: marshalled content and the digests it references -/
  tgt : Bytes → Option Blob
  conf : Pid → List Digest
  pend : Pid → List Pending

inductive Ev where
  | existsRes (p : Pid) (ns : NS) (k : Bytes) (r : Res)
  | getRes (p : Pid) (ns : NS) (k : Bytes) (r : Res)
  | setBegin (p : Pid) (op : Nat) (ns : NS) (k : Bytes) (content : Bytes) (refs : List Digest)
  | setEnd (p : Pid) (op : Nat) (o : SetOut)
  | crash (p : Pid) (landed : List Nat)
  deriving Repr

def vis (s : State) (d : Digest) : Bool := (s.cas d).isSome

def has (s : State) : NS → Bytes → Bool
  | .cas, k => (s.cas k).isSome
  | .target, k => (s.tgt k).isSome

def upd {α : Type} (f : Pid → α) (p : Pid) (v : α) : Pid → α := fun q => if q = p then v else f q

def store (s : State) (pe : Pending) : State :=
  match pe.ns with
  | .cas => { s with cas := fun d => if d = pe.key then some pe.blob else s.cas d }
  | .target => { s with tgt := fun k => if k = pe.key then some pe.blob else s.tgt k }

def storeAll (s : State) : List Pending → State
  | [] => s
  | pe :: rest => storeAll (store s pe) rest

section
variable (H : Bytes → Digest)

def step (s : State) : Ev → Option State
  | .existsRes p ns k .yes =>
    if has s ns k then
      some (if ns = .cas then { s with conf := upd s.conf p (k :: s.conf p) } else s)
    else none
  | .existsRes _ ns k .no => if has s ns k then none else some s
  | .existsRes _ _ _ .err => some s
  | .getRes _ ns k .yes => if has s ns k then some s else none
  | .getRes _ ns k .no => if has s ns k then none else some s
  | .getRes _ _ _ .err => some s
  | .setBegin p op ns k content refs =>
    if refs.all (fun r => r ∈ s.conf p) && (ns != .cas || H content == k)
        && (s.pend p).all (fun pe => pe.op != op) then
      some { s with pend := upd s.pend p (⟨op, ns, k, ⟨content, refs⟩⟩ :: s.pend p) }
    else none
  | .setEnd p op o =>
    match (s.pend p).find? (fun pe => pe.op == op) with
    | none => none
    | some pe =>
      let s1 := { s with pend := upd s.pend p ((s.pend p).filter (fun q => q.op != op)) }
      let s2 := if o = .errNotStored then s1 else store s1 pe
      some (if o = .ok && pe.ns = .cas then { s2 with conf := upd s2.conf p (pe.key :: s2.conf p) } else s2)
  | .crash p landed =>
    let s1 := storeAll s ((s.pend p).filter (fun pe => pe.op ∈ landed))
    some { s1 with conf := upd s1.conf p [], pend := upd s1.pend p [] }

def run (s : State) : List Ev → Option State
  | [] => some s
  | e :: es => match step H s e with
    | some s' => run s' es
    | none => none

end

def init : State := ⟨fun _ => none, fun _ => none, fun _ => [], fun _ => []⟩

/-- The cache is sound: blobs are content-addressed, everything a visible blob or a visible target
    result references is visible, and what processes believe or are about to publish is backed. -/
structure Sound (H : Bytes → Digest) (s : State) : Prop where
  addressed : ∀ d b, s.cas d = some b → H b.content = d
  casClosed : ∀ d b, s.cas d = some b → ∀ r ∈ b.refs, vis s r = true
  tgtClosed : ∀ k b, s.tgt k = some b → ∀ r ∈ b.refs, vis s r = true
  confBacked : ∀ p d, d ∈ s.conf p → vis s d = true
  pendBacked : ∀ p pe, pe ∈ s.pend p → (∀ r ∈ pe.blob.refs, vis s r = true) ∧ (pe.ns = .cas → H pe.blob.content = pe.key)

end Grog.Store
