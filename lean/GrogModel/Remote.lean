/-
  Two-tier cache: RemoteWrapper over (local file-system cache of a machine, shared remote store), with the CAS
  exists-memo on top (internal/caching/backends/remote_wrapper.go, internal/caching/cas.go).

  Any number of machines share one remote store; any number of processes (builds) run on them. Events are the
  wrapper calls the caching layer makes, with their nondeterministic payload (which tier ended up holding the value,
  what was answered); faults of the remote store show up as payloads:

    Exists          (true, nil)  only if local ∨ remote holds the key     (remote is asked only on a local miss)
    ExistsInAllTiers (true, nil) only if local ∧ remote hold the key       (repair of F-remote-skip)
    Get             returns the local value, else exactly the remote value after storing it locally; else an error
    Set (tee)       returns nil only if both tiers hold the value afterwards; on an error either tier may or may not

  `Variant.old`   : `Cas.Write` skips the upload when `Exists` says true            (code as found)
  `Variant.fixed` : `Cas.Write` skips only when `ExistsInAllTiers` says true        (repaired code)
  In both, a blob / result is written only after every digest it references was confirmed by `Cas.Write`
  returning nil (`conf p`), cf. GrogModel/Store.lean.  The remote store never loses an object (no eviction).
-/
import GrogModel.Base
import GrogModel.Store
namespace Grog.Remote
open Grog
open Grog.Store (NS Res Pid Digest)

abbrev Mid := Nat

inductive Variant where
  | old | fixed
  deriving DecidableEq, Repr

structure Blob where
  content : Bytes
  refs : List Digest
  deriving DecidableEq, Repr

structure State where
  remote : NS → Bytes → Option Blob
  loc : Mid → NS → Bytes → Option Blob
  conf : Pid → List Digest
  mach : Pid → Mid
  /-- taint markers (`taint/<label>`, empty files): the taint cache is built over the same wrapper
      (cmds/build.go, cmds/taint.go: `NewTaintCache(cache)`), so markers are written to and looked up in BOTH tiers -/
  rtaint : Bytes → Bool
  ltaint : Mid → Bytes → Bool

inductive Ev where
  | proc (p : Pid) (m : Mid)
  | localSet (m : Mid) (ns : NS) (k : Bytes) (b : Blob)
  | existsRes (p : Pid) (ns : NS) (k : Bytes) (r : Res)
  | existsAllRes (p : Pid) (k : Bytes) (r : Res)
  | getRes (p : Pid) (ns : NS) (k : Bytes) (r : Option Blob) (filled : Bool)
  | setRes (p : Pid) (ns : NS) (k : Bytes) (b : Blob) (lst rst ok : Bool)
  /-- `TaintCache.Taint` = tee `Set` of an empty marker; `la`/`ra`: the marker is present in the local / remote tier afterwards -/
  | taintSet (p : Pid) (l : Bytes) (la ra ok : Bool)
  /-- `TaintCache.IsTainted` = wrapper `Exists` -/
  | taintExists (p : Pid) (l : Bytes) (r : Res)
  /-- `TaintCache.Clear` = wrapper `Delete` (local first, then remote; a failure is only logged by the executor);
      `la`/`ra`: the marker is still present in the local / remote tier afterwards -/
  | taintDelete (p : Pid) (l : Bytes) (la ra ok : Bool)
  deriving Repr

def upd {α : Type} (f : Nat → α) (p : Nat) (v : α) : Nat → α := fun q => if q = p then v else f q

def put (f : NS → Bytes → Option Blob) (ns : NS) (k : Bytes) (b : Blob) : NS → Bytes → Option Blob :=
  fun ns' k' => if ns' = ns ∧ k' = k then some b else f ns' k'

def step (v : Variant) (s : State) : Ev → Option State
  | .proc p m => some { s with conf := upd s.conf p [], mach := upd s.mach p m }
  | .localSet m ns k b => some { s with loc := upd s.loc m (put (s.loc m) ns k b) }
  | .existsRes p ns k .yes =>
    if (s.loc (s.mach p) ns k).isSome || (s.remote ns k).isSome then
      some (if v = .old ∧ ns = .cas then { s with conf := upd s.conf p (k :: s.conf p) } else s)
    else none
  | .existsRes p ns k .no =>
    if (s.loc (s.mach p) ns k).isSome || (s.remote ns k).isSome then none else some s
  | .existsRes p ns k .err => if (s.loc (s.mach p) ns k).isSome then none else some s
  | .existsAllRes p k .yes =>
    if (s.loc (s.mach p) .cas k).isSome && (s.remote .cas k).isSome then
      some { s with conf := upd s.conf p (k :: s.conf p) }
    else none
  | .existsAllRes p k .no =>
    if (s.loc (s.mach p) .cas k).isSome && (s.remote .cas k).isSome then none else some s
  | .existsAllRes p k .err => if (s.loc (s.mach p) .cas k).isSome then some s else none
  | .getRes p ns k (some b) filled =>
    match s.loc (s.mach p) ns k with
    | some lb => if lb = b ∧ filled = false then some s else none
    | none =>
      if s.remote ns k = some b ∧ filled = true then
        some { s with loc := upd s.loc (s.mach p) (put (s.loc (s.mach p)) ns k b) }
      else none
  | .getRes p ns k none filled =>
    -- an error is returned; the local tier may nevertheless have been filled with the remote value
    -- (the fill succeeded and the final `fs.Get` failed)
    match s.loc (s.mach p) ns k with
    | some _ => none
    | none =>
      if filled then
        match s.remote ns k with
        | some b => some { s with loc := upd s.loc (s.mach p) (put (s.loc (s.mach p)) ns k b) }
        | none => none
      else some s
  | .setRes p ns k b lst rst ok =>
    if (!ok || (lst && rst)) && b.refs.all (fun r => r ∈ s.conf p) then
      let s1 := if lst then { s with loc := upd s.loc (s.mach p) (put (s.loc (s.mach p)) ns k b) } else s
      let s2 := if rst then { s1 with remote := put s1.remote ns k b } else s1
      some (if ok ∧ ns = .cas then { s2 with conf := upd s2.conf p (k :: s2.conf p) } else s2)
    else none
  | .taintSet p l la ra ok =>
    -- a Set never removes a marker; nil only if both tiers hold it
    if (!ok || (la && ra)) && (!s.ltaint (s.mach p) l || la) && (!s.rtaint l || ra) then
      some { s with ltaint := upd s.ltaint (s.mach p) (fun x => if x = l then la else s.ltaint (s.mach p) x),
                    rtaint := fun x => if x = l then ra else s.rtaint x }
    else none
  | .taintExists p l .yes => if s.ltaint (s.mach p) l || s.rtaint l then some s else none
  | .taintExists p l .no => if s.ltaint (s.mach p) l || s.rtaint l then none else some s
  | .taintExists p l .err => if s.ltaint (s.mach p) l then none else some s
  | .taintDelete p l la ra ok =>
    -- a Delete never creates a marker; nil only if both tiers are rid of it; the remote is only asked after the local delete
    if (!ok || (!la && !ra)) && (!la || s.ltaint (s.mach p) l) && (!ra || s.rtaint l) && (!la || ra == s.rtaint l) then
      some { s with ltaint := upd s.ltaint (s.mach p) (fun x => if x = l then la else s.ltaint (s.mach p) x),
                    rtaint := fun x => if x = l then ra else s.rtaint x }
    else none

def run (v : Variant) (s : State) : List Ev → Option State
  | [] => some s
  | e :: es => match step v s e with
    | some s' => run v s' es
    | none => none

def init : State := ⟨fun _ _ => none, fun _ _ _ => none, fun _ => [], fun _ => 0, fun _ => false, fun _ _ => false⟩

/-- is `l` tainted as seen from machine `m` (wrapper `Exists` on the taint namespace) -/
def viewTaint (s : State) (m : Mid) (l : Bytes) : Bool := s.ltaint m l || s.rtaint l

def rvis (s : State) (d : Digest) : Bool := (s.remote .cas d).isSome

/-- everything referenced from the remote store is in the remote store; what a process considers confirmed is there -/
structure RInv (s : State) : Prop where
  casClosed : ∀ d b, s.remote .cas d = some b → ∀ r ∈ b.refs, rvis s r = true
  tgtClosed : ∀ k b, s.remote .target k = some b → ∀ r ∈ b.refs, rvis s r = true
  confRemote : ∀ p d, d ∈ s.conf p → rvis s d = true

end Grog.Remote
