/-
  Composition of remote object keys (internal/caching/backends/s3.go, gcs.go: NewS3CacheWithClient / NewGCSCache,
  fullPrefix, buildPath; internal/config/paths.go GetWorkspaceCachePrefix).

      prefix          := strings.Trim(cfg.Prefix, "/")
      workspacePrefix := strings.Trim(sha256(workspaceRoot)[:16] + "-" + base(workspaceRoot), "/")     (S3, GCS)
                       | base(workspaceRoot)                                                             (GCS, shared_cache)
      fullPrefix      := workspacePrefix                       if prefix == ""
                       | prefix + "/" + workspacePrefix
      object key      := fullPrefix + "/" + Trim(path, "/") + "/" + Trim(key, "/")      in bucket cfg.Bucket

  The workspace identity (`workspacePrefix`) is a parameter here: a non-empty string without "/".
-/
import GrogModel.Base
namespace Grog.RemotePath
open Grog

/-- `strings.Trim(s, "/")` -/
def trim (s : Bytes) : Bytes := trimSlashes (s.dropWhile (· == cSlash))

structure Cfg where
  bucket : Bytes
  pfx : Bytes        -- as configured (untrimmed)
  ws : Bytes         -- workspace identity
  deriving DecidableEq, Repr

def fullPrefix (c : Cfg) : Bytes :=
  if trim c.pfx = [] then c.ws else trim c.pfx ++ [cSlash] ++ c.ws

def buildPath (c : Cfg) (path key : Bytes) : Bytes :=
  fullPrefix c ++ [cSlash] ++ trim path ++ [cSlash] ++ trim key

/-- the object a cache entry is stored in: (bucket, object key) -/
def objectOf (c : Cfg) (path key : Bytes) : Bytes × Bytes := (c.bucket, buildPath c path key)

end Grog.RemotePath
