/-
  Model of the cache-key computation: internal/hashing/hash_target.go (hashTargetDefinition,
  GetTargetChangeHash, hashInputFiles) and of the output hash (internal/output/get_output_hash.go,
  registry.go GetNoCacheOutputHash).

  `enc` / `encFiles` are, literally, the byte streams the code feeds to the hasher. The hash function is a
  parameter `H : Bytes → Bytes` (its hex digest). `encOld` / `encFilesOld` are the streams of the tree
  before the `fix:` commit for F-hash; they are kept for the regression witnesses in Props/C09.lean.
-/
import GrogModel.Base
namespace Grog

/-- what the cache key of a target is computed from -/
structure KeyState where
  label    : Bytes                       -- `target.Label.String()`
  command  : Bytes
  inputs   : List Bytes                  -- resolved input paths (may contain duplicates, any order)
  content  : Bytes → Option Bytes        -- file content by input path (`none`: file does not exist)
  outputs  : List Bytes                  -- output definitions (`Output.String()`), any order
  deps     : List (Bytes × Bytes)        -- (label, output hash) of every direct dependency (distinct labels), any order
  fingerprint : List (Bytes × Bytes)     -- the fingerprint map (distinct keys), any order
  platform : Option Bytes                -- `none` for multiplatform-cache targets

/-! ### sorting (bytewise, as `slices.Sort` / `sort.Strings` on Go strings) -/

def bytesLeH : Bytes → Bytes → Bool
  | [], _ => true
  | _ :: _, [] => false
  | a :: as, b :: bs => a < b || (a == b && bytesLeH as bs)

def sortBytes (l : List Bytes) : List Bytes := l.mergeSort bytesLeH

/-- `slices.Compact`: drop consecutive duplicates -/
def compactB : List Bytes → List Bytes
  | [] => []
  | [a] => [a]
  | a :: b :: t => if a = b then compactB (b :: t) else a :: compactB (b :: t)

def sortKV (l : List (Bytes × Bytes)) : List (Bytes × Bytes) :=
  l.mergeSort (fun a b => bytesLeH a.1 b.1)

/-! ### framing -/

/-- `k` big-endian bytes of `n` (`binary.BigEndian.PutUint64` for k = 8; the value wraps mod 256^k) -/
def beBytes : Nat → Nat → Bytes
  | 0, _ => []
  | k + 1, n => beBytes k (n / 256) ++ [UInt8.ofNat (n % 256)]

def u64be (n : Nat) : Bytes := beBytes 8 n

/-- `writeFramed`: fixed-width length header, then the bytes -/
def field (s : Bytes) : Bytes := u64be s.length ++ s

def fields (l : List Bytes) : Bytes := (l.map field).flatten

/-- `writeFramedList`: element count, then every element framed -/
def listEnc (l : List Bytes) : Bytes := u64be l.length ++ fields l

def kvFields (l : List (Bytes × Bytes)) : Bytes := (l.map (fun kv => field kv.1 ++ field kv.2)).flatten

def kvEnc (l : List (Bytes × Bytes)) : Bytes := u64be l.length ++ kvFields l

/-- the sorted, de-duplicated input paths, as `hashTargetDefinition` and `hashInputFiles` use them -/
def canonInputs (s : KeyState) : List Bytes := compactB (sortBytes s.inputs)

/-- byte stream hashed by `hashTargetDefinition` -/
def enc (s : KeyState) : Bytes :=
  field s.label ++ field s.command ++ listEnc (canonInputs s) ++ listEnc (sortBytes s.outputs) ++
  kvEnc (sortKV s.deps) ++ kvEnc (sortKV s.fingerprint) ++
  (match s.platform with | none => [] | some p => field p)

/-- one input file in the stream of `hashInputFiles`: a presence byte, and for an existing file the
    framed content -/
def fileFrame : Option Bytes → Bytes
  | none => [0]
  | some c => 1 :: field c

/-- byte stream hashed by `hashInputFiles` -/
def encFiles (s : KeyState) : Bytes :=
  ((canonInputs s).map (fun p => fileFrame (s.content p))).flatten

def cUnderscore : UInt8 := 95

/-- `GetTargetChangeHash`: definition hash, and `_` + input content hash when there are inputs -/
def key (H : Bytes → Bytes) (s : KeyState) : Bytes :=
  if s.inputs.isEmpty then H (enc s)
  else H (enc s) ++ cUnderscore :: H (encFiles s)

/-! ### the encoding of the tree before the F-hash repair (regression witnesses only) -/

def cComma : UInt8 := 44
def cEq : UInt8 := 61

def joinComma : List Bytes → Bytes
  | [] => []
  | [a] => a
  | a :: t => a ++ cComma :: joinComma t

def encOld (s : KeyState) : Bytes :=
  s.label ++ s.command ++ joinComma (sortBytes s.inputs) ++ joinComma (sortBytes s.outputs) ++
  joinComma (sortBytes (s.deps.map Prod.snd)) ++
  joinComma (sortBytes (s.fingerprint.map (fun kv => kv.1 ++ cEq :: kv.2))) ++
  (match s.platform with | none => [] | some p => p)

def encFilesOld (s : KeyState) : Bytes :=
  ((sortBytes s.inputs).map (fun p => (s.content p).getD [])).flatten

def keyOld (H : Bytes → Bytes) (s : KeyState) : Bytes :=
  if s.inputs.isEmpty then H (encOld s)
  else H (encOld s) ++ cUnderscore :: H (encFilesOld s)

/-! ### output hash -/

/-- `getOutputHash`: every output message is marshalled (`ser`, a parameter) and hashed; the sorted
    digests are concatenated and hashed. -/
def outHash (H : Bytes → Bytes) (serOutputs : List Bytes) : Bytes :=
  if serOutputs.isEmpty then [] else H (sortBytes (serOutputs.map H)).flatten

/-- decimal digits of `n`, most significant first, as `fmt.Sprintf("%d", n)` prints them (fuel = number of digits) -/
def decDigits : Nat → Nat → List UInt8
  | 0, _ => []
  | fuel + 1, n => if n < 10 then [UInt8.ofNat (48 + n)] else decDigits fuel (n / 10) ++ [UInt8.ofNat (48 + n % 10)]

def dec (n : Nat) : Bytes := decDigits (n + 1) n

/-- one element of `GetNoCacheOutputHash`: `fmt.Sprintf("%d:%s:%s", len(definition), definition, digest)` — the digest of an
    output tied to the (length-framed) definition of the output it belongs to -/
def nocacheElem (definition digest : Bytes) : Bytes :=
  dec definition.length ++ cColon :: definition ++ cColon :: digest

/-- `GetNoCacheOutputHash`: `HashStrings(elements)` = hash of the sorted elements joined by "," -/
def outHashNoCache (H : Bytes → Bytes) (outs : List (Bytes × Bytes)) : Bytes :=
  H (joinComma (sortBytes (outs.map (fun o => nocacheElem o.1 o.2))))

/-- `HashFile`, `HashBytes`, `HashString`: the configured hash of the whole content, nothing else (no chunking, no
    path, no metadata).  File and tree digests, and through them the dependency output digests of the key, are this. -/
def hashContent (H : Bytes → Bytes) (content : Bytes) : Bytes := H content

end Grog
