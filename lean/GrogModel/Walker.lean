/-
  Model of the DAG walker (internal/dag/graph_walker.go) as a labelled transition system.
  Core Lean only.

  One routine per selected node (`nodeRoutine`): it is *parked* in a `select` on its `ready`
  and `cancel` channels; on `ready` it calls the walk callback (*running*); when the callback
  has returned (*returned ok?*) it calls `onComplete`, which runs as one atomic step under
  `doneMutex` (*ok* / *failed*); a callback that returns `context.Canceled` leaves the node
  without a completion (*aborted*); a parked routine whose `cancel` channel was closed returns
  (*exited*).

  The model follows the code after the repair of F-register: `Walk` fills `nodeInfoMap`
  completely before any routine is started (so `startNode`/`cancelNode` always find the
  channels of a selected node) and returns a snapshot of the completion map. The behaviour of
  the code before the repair (registration interleaved with running routines) is modelled
  separately in `Grog.WalkerOld` below and only serves as a regression witness.

  Events (payload = the nondeterministic choice):
    wake n           visible   routine n receives `ready`, callback entered
    cbReturn n r     visible   callback of n returns (ok / error / context.Canceled)
    complete n       hidden    `onComplete(n)` (atomic: records the completion, releases
                               dependants whose dependencies are all successful, or cancels
                               descendants / triggers fail-fast)
    exit n           hidden    parked routine n takes the `cancel` branch
    deliverCancel n  hidden    one goroutine spawned by `cancelAll` closes n's cancel channel
    ctxCancel        visible   the parent context is cancelled (signal handler)
    walkReturn b     visible   `Walk` returns; b = through the `ctx.Done()` branch (b = false: all routines are
                               done; since 1e66bd4 this branch returns ctx.Err() too when the context is cancelled
                               and fail-fast was not triggered)
-/
namespace Grog.Walker

abbrev Node := Nat

/-- result of one callback invocation -/
inductive Res where
  | ok | fail | cancelled
  deriving DecidableEq, Repr

inductive Phase where
  | parked
  | running
  | returned (success : Bool)
  | ok | failed | exited | aborted
  deriving DecidableEq, Repr

def Phase.terminal : Phase → Bool
  | .ok | .failed | .exited | .aborted => true
  | _ => false

/-- was the callback of the node entered? -/
def Phase.started : Phase → Bool
  | .running | .returned _ | .ok | .failed | .aborted => true
  | _ => false

/-- The walk configuration: selected nodes, `inEdges` restricted to what the walker reads,
    `GetDescendants` as a set (see `DescOK`), and the fail-fast option. -/
structure Cfg where
  sel      : List Node
  deps     : Node → List Node
  desc     : Node → List Node
  failFast : Bool

/-- `Anc c a n`: `a` is a transitive dependency of `n`. -/
inductive Anc (c : Cfg) : Node → Node → Prop where
  | base {a n} : a ∈ c.deps n → Anc c a n
  | step {a x n} : Anc c a x → x ∈ c.deps n → Anc c a n

/-- Hypotheses on the configuration: the selection is closed under dependencies
    (discharged by C12), the dependency relation is acyclic (C11), and `desc` returns exactly
    the descendants as a set (the graph agent's theorem about `GetDescendants`). -/
structure CfgOK (c : Cfg) : Prop where
  closed   : ∀ n, n ∈ c.sel → ∀ d, d ∈ c.deps n → d ∈ c.sel
  acyclic  : WellFounded (fun d n => d ∈ c.deps n)
  desc_iff : ∀ a m, m ∈ c.desc a ↔ Anc c a m

structure State where
  phase  : Node → Phase
  /-- a `ready` message was sent to the node -/
  ready  : Node → Bool
  /-- the node's `cancel` channel is closed -/
  cancel : Node → Bool
  /-- a goroutine of `cancelAll` that will close the node's cancel channel is still pending -/
  pend   : Node → Bool
  /-- `failFastTriggered` -/
  ff     : Bool
  /-- the walk context is cancelled (externally or by fail-fast) -/
  ctx    : Bool
  /-- `Walk` has returned; `some true` = with `ctx.Err()` -/
  retErr : Option Bool
  /-- phases at the moment `Walk` returned (the returned completion map is a snapshot) -/
  snap   : Node → Phase

def set {α : Type} (f : Node → α) (n : Node) (v : α) : Node → α :=
  fun m => if m = n then v else f m

def depsOk (c : Cfg) (ph : Node → Phase) (m : Node) : Bool :=
  (c.deps m).all (fun d => ph d == Phase.ok)

def allTerminal (c : Cfg) (ph : Node → Phase) : Bool :=
  c.sel.all (fun n => (ph n).terminal)

def init (c : Cfg) : State where
  phase  := fun _ => .parked
  ready  := fun n => (c.deps n).isEmpty
  cancel := fun _ => false
  pend   := fun _ => false
  ff     := false
  ctx    := false
  retErr := none
  snap   := fun _ => .parked

/-- `onComplete` for a successful callback. -/
def completeOk (c : Cfg) (s : State) (n : Node) : State :=
  let ph := set s.phase n .ok
  if s.ff then { s with phase := ph }
  else { s with phase := ph,
                ready := fun m => s.ready m || (decide (n ∈ c.deps m) && depsOk c ph m) }

/-- `onComplete` for a failed callback. -/
def completeFail (c : Cfg) (s : State) (n : Node) : State :=
  let ph := set s.phase n .failed
  if s.ff then { s with phase := ph }
  else if c.failFast then
    { s with phase := ph, ff := true, ctx := true, pend := fun m => s.pend m || !s.cancel m }
  else
    { s with phase := ph, cancel := fun m => s.cancel m || decide (m ∈ c.desc n) }

inductive Ev where
  | wake (n : Node)
  | cbReturn (n : Node) (r : Res)
  | complete (n : Node)
  | exit (n : Node)
  | deliverCancel (n : Node)
  | ctxCancel
  | walkReturn (viaCtx : Bool)
  deriving DecidableEq, Repr

def step (c : Cfg) (s : State) : Ev → Option State
  | .wake n =>
    if n ∈ c.sel ∧ s.phase n = .parked ∧ s.ready n = true then
      some { s with phase := set s.phase n .running }
    else none
  | .cbReturn n r =>
    if n ∈ c.sel ∧ s.phase n = .running then
      match r with
      | .ok => some { s with phase := set s.phase n (.returned true) }
      | .fail => some { s with phase := set s.phase n (.returned false) }
      | .cancelled =>
        -- the callback's error wraps context.Canceled: a cancellation only if the walk context is cancelled,
        -- otherwise an ordinary failure (since the repair of the walker; before it the node was left without a
        -- completion in both cases — `Grog.WalkerOld.spuriousCancel…` below)
        if s.ctx = true then some { s with phase := set s.phase n .aborted }
        else some { s with phase := set s.phase n (.returned false) }
    else none
  | .complete n =>
    if n ∈ c.sel ∧ s.phase n = .returned true then some (completeOk c s n)
    else if n ∈ c.sel ∧ s.phase n = .returned false then some (completeFail c s n)
    else none
  | .exit n =>
    if n ∈ c.sel ∧ s.phase n = .parked ∧ s.cancel n = true then
      some { s with phase := set s.phase n .exited }
    else none
  | .deliverCancel n =>
    if n ∈ c.sel ∧ s.pend n = true then
      some { s with pend := set s.pend n false, cancel := set s.cancel n true }
    else none
  | .ctxCancel =>
    if s.ctx = true then none else some { s with ctx := true }
  | .walkReturn viaCtx =>
    if s.retErr.isSome then none
    else if viaCtx then
      if s.ctx = true then
        some { s with retErr := some (!s.ff), snap := s.phase,
                      pend := fun m => s.pend m || !s.cancel m }
      else none
    else if allTerminal c s.phase = true then
      -- the `done` branch: also here the context error is returned when the walk was cancelled from outside
      some { s with retErr := some (s.ctx && !s.ff), snap := s.phase }
    else none

inductive Reach (c : Cfg) : State → Prop where
  | init : Reach c (init c)
  | step {s e s'} : Reach c s → step c s e = some s' → Reach c s'

/-- run a list of events; `none` if one of them is not enabled -/
def run (c : Cfg) (s : State) : List Ev → Option State
  | [] => some s
  | e :: es => match step c s e with
    | none => none
    | some s' => run c s' es

/-- termination measure: every event strictly decreases it -/
def phaseWeight : Phase → Nat
  | .parked => 3
  | .running => 2
  | .returned _ => 1
  | _ => 0

def phaseSum (c : Cfg) (s : State) : Nat := (c.sel.map (fun n => phaseWeight (s.phase n))).sum
def pendSum (c : Cfg) (s : State) : Nat := (c.sel.map (fun n => if s.pend n then 1 else 0)).sum

def measure (c : Cfg) (s : State) : Nat :=
  phaseSum c s
  + pendSum c s
  + (if s.retErr.isSome then 0 else c.sel.length + 1)
  + (if s.ff then 0 else c.sel.length + 1)
  + (if s.ctx then 0 else 1)

/-- every event of the walker itself (everything but an external `ctxCancel`) over the selected nodes -/
def internalEvents (c : Cfg) : List Ev :=
  [.walkReturn true, .walkReturn false] ++
  c.sel.flatMap (fun n => [.wake n, .cbReturn n .ok, .cbReturn n .fail, .cbReturn n .cancelled, .complete n, .exit n, .deliverCancel n])

/-- no event of the walker is enabled (decidable version over `internalEvents`) -/
def quiescentB (c : Cfg) (s : State) : Bool := (internalEvents c).all (fun e => (step c s e).isNone)

/-- `nodeRoutine` before d5650b9: an error wrapping context.Canceled left the node without a completion whatever the state
    of the walk context (regression witness only) -/
def cbReturnCancelledOld (s : State) (n : Node) : State := { s with phase := set s.phase n .aborted }

/-- the `done` branch of `Walk` before 1e66bd4: no error, whatever the context (regression witness only) -/
def walkReturnDoneOld (c : Cfg) (s : State) : Option State :=
  if s.retErr.isSome then none
  else if allTerminal c s.phase = true then some { s with retErr := some false, snap := s.phase }
  else none

/-- tail of `RunBuild` (cmds/build.go): the process exits non-zero iff `Walk` returned an error
    or the returned completion map contains a failure -/
def exitNonZero (c : Cfg) (s : State) : Bool :=
  s.retErr == some true || c.sel.any (fun n => s.snap n == Phase.failed)

end Grog.Walker

/-
  The walker before the repair of F-register, reduced to what the regression witness needs
  (keep-going, no cancellation): `Walk` registers the nodes one by one and starts each routine
  immediately; `startNode` on a node that is not registered yet is a no-op, so the wake-up is lost.
-/
namespace Grog.WalkerOld
open Grog.Walker

structure State where
  reg   : Node → Bool
  phase : Node → Phase
  ready : Node → Bool

def init : State := { reg := fun _ => false, phase := fun _ => .parked, ready := fun _ => false }

inductive Ev where
  | register (n : Node)
  | wake (n : Node)
  | finishOk (n : Node)
  | walkReturn
  deriving DecidableEq, Repr

def step (c : Cfg) (s : State) : Ev → Option State
  | .register n =>
    if n ∈ c.sel ∧ s.reg n = false then
      some { s with reg := set s.reg n true,
                    ready := if (c.deps n).isEmpty then set s.ready n true else s.ready }
    else none
  | .wake n =>
    if n ∈ c.sel ∧ s.reg n = true ∧ s.phase n = .parked ∧ s.ready n = true then
      some { s with phase := set s.phase n .running }
    else none
  | .finishOk n =>
    if n ∈ c.sel ∧ s.phase n = .running then
      let ph := set s.phase n .ok
      some { s with phase := ph,
                    ready := fun m => s.ready m ||
                      (s.reg m && decide (n ∈ c.deps m) && depsOk c ph m) }
    else none
  | .walkReturn =>
    if c.sel.all (fun n => s.reg n && (s.phase n).terminal) then some s else none

def run (c : Cfg) (s : State) : List Ev → Option State
  | [] => some s
  | e :: es => match step c s e with
    | none => none
    | some s' => run c s' es

/-- every event the two-node configuration could take -/
def allEvents (c : Cfg) : List Ev :=
  .walkReturn :: c.sel.flatMap (fun n => [.register n, .wake n, .finishOk n])

def stuck (c : Cfg) (s : State) : Bool :=
  (allEvents c).all (fun e => (step c s e).isNone)

end Grog.WalkerOld
