/-
  Audit tool: `lake env lean --run AuditMain.lean GrogModel.Props.C17 [more modules]`
  prints one JSON line per theorem declared in the given modules:
    {"module":..,"name":..,"axioms":[..]}
  The orchestrator checks that every registered obligation is present and that its axioms
  are a subset of {propext, Classical.choice, Quot.sound}.
-/
import Lean
open Lean

def auditModule (env : Environment) (mod : Name) : IO Unit := do
  let some idx := env.getModuleIdx? mod | throw (IO.userError s!"module {mod} not loaded")
  let names := env.header.moduleData[idx.toNat]!.constNames
  for n in names do
    match env.find? n with
    | some (.thmInfo _) =>
      if n.isInternal then continue
      let (axs, _) ← (collectAxioms n : CoreM _).toIO
        {fileName := "<audit>", fileMap := default} {env}
      let j := Json.mkObj [("module", Json.str mod.toString), ("name", Json.str n.toString),
        ("axioms", Json.arr (axs.map (fun a => Json.str a.toString)))]
      IO.println j.compress
    | _ => pure ()

def main (args : List String) : IO Unit := do
  initSearchPath (← findSysroot)
  let mods := args.map String.toName
  let env ← importModules (mods.toArray.map (fun m => {module := m})) {}
  for m in mods do auditModule env m
